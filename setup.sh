#!/bin/sh
# Build everything from files on disk only (offline): the Coq development and the Rust harness.
# Work-in-progress files of properties that are not claimed yet must not break the setup: the whole tree is built
# with `make -k` (best effort), then the targets of every CLAIMED property (props/Cxx.json "claimed": true) are
# built strictly; each ./check rebuilds what it needs anyway.
set -e
cd "$(dirname "$0")"
export CARGO_NET_OFFLINE=true
mkdir -p .locks evidence replays .logs
# Gen/ is regenerated from /repo before the Coq build so that generated obligations are current
for g in tools/gen/*.py; do [ -f "$g" ] && python3 "$g" --repo "$(cd .. && pwd)/repo" --out coq/Gen || true; done
(cd coq && rm -f _CoqProject Makefile.coq Makefile.coq.conf && (timeout 3000 ./mk.sh -k >/dev/null 2>&1 || true))
CLAIMED_VO=$(python3 - <<'E'
import json,glob,re
t=[]
for p in sorted(glob.glob("props/C*.json")):
    m=json.load(open(p))
    if m.get("claimed"):
        t += [re.sub(r"\.v$",".vo",f) for f in m.get("gen_files",[])+[m["props_file"]]] + m.get("model_vo",[])
print(" ".join(sorted(set(t))))
E
)
CLAIMED_BINS=$(python3 - <<'E'
import json,glob
b=[]
for p in sorted(glob.glob("props/C*.json")):
    m=json.load(open(p))
    if m.get("claimed") and m.get("harness_bin"): b.append("--bin "+m["harness_bin"])
print(" ".join(sorted(set(b))))
E
)
# A theorem or generated obligation that does not check is a verdict of the property's own ./check (which names it in
# its replay), not a reason to stop the setup of the other nineteen: build with -k and carry on.
[ -z "$CLAIMED_VO" ] || (cd coq && timeout 3000 ./mk.sh -k $CLAIMED_VO) || echo "setup: some claimed Coq targets did not build - the checks of those properties report which"
[ -f harness/Cargo.lock ] || cp ../repo/Cargo.lock harness/Cargo.lock
(cd harness && RUSTFLAGS="--cfg rip_verif" timeout 3000 cargo build --offline --bins) || \
  (cd harness && RUSTFLAGS="--cfg rip_verif" timeout 3000 cargo build --offline $CLAIMED_BINS) || \
  (cd harness && for b in $(echo "$CLAIMED_BINS" | sed 's/--bin//g'); do RUSTFLAGS="--cfg rip_verif" timeout 3000 cargo build --offline --bin "$b" || echo "setup: harness bin $b did not build - ./check of that property reports it"; done)
(RUSTFLAGS="--cfg rip_verif" CARGO_TARGET_DIR="$(pwd)/harness/target-cli" timeout 3000 cargo build --offline --manifest-path ../repo/Cargo.toml -p rip-cli --bin rip) || echo "setup: the rip binary did not build - the checks that drive it (pre_cmds) report it"
echo "setup ok"
