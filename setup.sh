#!/bin/sh
# Build everything from files on disk only (offline): the Coq development and the Rust harness.
set -e
cd "$(dirname "$0")"
export CARGO_NET_OFFLINE=true
mkdir -p .locks evidence replays .logs
# Gen/ is regenerated from /repo before the Coq build so that generated obligations are current
for g in tools/gen/*.py; do [ -f "$g" ] && python3 "$g" --repo "$(cd .. && pwd)/repo" --out coq/Gen || true; done
(cd coq && rm -f _CoqProject Makefile.coq Makefile.coq.conf && timeout 3000 ./mk.sh)
[ -f harness/Cargo.lock ] || cp ../repo/Cargo.lock harness/Cargo.lock
(cd harness && RUSTFLAGS="--cfg rip_verif" timeout 3000 cargo build --offline --bins)
(RUSTFLAGS="--cfg rip_verif" CARGO_TARGET_DIR="$(pwd)/harness/target-cli" timeout 3000 cargo build --offline --manifest-path ../repo/Cargo.toml -p rip-cli --bin rip)
echo "setup ok"
