#!/bin/sh
# tools/itest.sh <worktree> <crate> <file.rs>: run a demo that is an integration test of <crate>; leaves the tree as found.
W="$1"; C="$2"; F="$3"; n=$(basename "$F" .rs)
cd "$W" || exit 2
d="crates/$C/tests"; made=0; [ -d "$d" ] || { mkdir -p "$d"; made=1; }
cp "$F" "$d/$n.rs"
CARGO_TARGET_DIR="${ITEST_TARGET:-$W/target}" timeout 2400 cargo test --offline -p "$C" --test "$n" -- --test-threads=1; rc=$?
rm -f "$d/$n.rs"; [ $made = 1 ] && rmdir "$d" 2>/dev/null
exit $rc
