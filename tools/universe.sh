#!/bin/sh
# tools/universe.sh create <name> | sync <name> | remove <name>
# A "universe" is a private pair  /var/tmp/u-<name>/{repo,verif}:  a git worktree of /repo (HEAD) and a copy of
# /verif (harness/target seeded by a real copy so the first build is warm).  Mutation self-tests apply a patch to
# the universe's repo and run the universe's ./check — nothing in /repo or /verif is touched.
set -e
cmd="$1"; name="$2"; U="/var/tmp/u-$name"
case "$cmd" in
  create)
    mkdir -p "$U"
    git -C /repo worktree add --detach "$U/repo" HEAD >/dev/null
    rsync -a --exclude "harness/target*" --exclude .git --exclude replays --exclude .locks /verif/ "$U/verif/"
    # a REAL copy (never hard links: cargo rewrites .fingerprint files in place, which poisoned the shared target once);
    # incremental caches are left out to save space
    if [ -d /verif/harness/target ]; then mkdir -p "$U/verif/harness/target"; rsync -a --exclude incremental /verif/harness/target/ "$U/verif/harness/target/"; fi
    echo "$U" ;;
  sync)
    rsync -a --exclude "harness/target*" --exclude .git --exclude replays --exclude .locks /verif/ "$U/verif/"
    (cd "$U/repo" && git checkout -q --detach "$(git -C /repo rev-parse HEAD)" 2>/dev/null || true)
    echo "$U" ;;
  remove)
    git -C /repo worktree remove --force "$U/repo" 2>/dev/null || true
    rm -rf "$U"; git -C /repo worktree prune ;;
  *) echo "usage: $0 create|sync|remove <name>"; exit 2 ;;
esac
