#!/bin/sh
# tools/basetest.sh: the repo's pinned test suite (the 634 stable tests of /root/.vp/BASELINE.json) on a fresh clone of
# /repo HEAD WITHOUT the rip_verif guard; prints the stable tests that did not pass.  Scratch: /var/tmp/basetest (removed).
set -u
B=/var/tmp/basetest; rm -rf $B; git clone -q /repo $B/repo || exit 2
cd $B/repo && env -u RUSTFLAGS CARGO_NET_OFFLINE=true CARGO_TARGET_DIR=$B/target cargo nextest run --workspace --no-fail-fast --tool-config-file pb:/w/lib/nextest.toml --profile pb --test-threads 8 --offline > $B/out.log 2>&1
echo "nextest rc=$?"; grep -E "^\s*Summary|^------------\s*$" $B/out.log | tail -2
python3 - "$(find $B -name junit.xml | head -1)" <<'P'
import json,sys,xml.etree.ElementTree as ET
base=json.load(open('/root/.vp/BASELINE.json')); want=set(base['stable_pass'])
st={}
for ts in ET.parse(sys.argv[1]).getroot().iter('testsuite'):
    for tc in ts.iter('testcase'):
        bad=[c.tag for c in tc if c.tag in ('failure','error')]
        st[ts.get('name')+"::"+tc.get('name')]='FAIL' if bad else 'PASS'
passed={k for k,v in st.items() if v=='PASS'}
miss=sorted(want-passed)
print("stable tests:",len(want),"passed now:",len(want&passed),"not passed:",len(miss),"| all run:",len(st),"passed:",len(passed))
for k in miss: print("  NOT PASSED:",k,st.get(k,'(not run)'))
known=set(base['always_fail'])|set(base['flaky'])
for k in sorted(k for k,v in st.items() if v!='PASS' and k not in known and k not in want): print("  other failure:",k)
P
rm -rf $B
