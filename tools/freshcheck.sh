#!/bin/sh
# tools/freshcheck.sh [ids...]: what `vp check` does, locally: fresh clones of the COMMITTED /verif and /repo under
# /var/tmp/fresh, setup_cmd, then every claimed check's quick command once; prints a table.  Removes the clones after.
set -u
F=/var/tmp/fresh
rm -rf "$F"; mkdir -p "$F"
git clone -q /repo "$F/repo" && git clone -q /verif "$F/verif" || exit 2
cd "$F/verif"
export CARGO_NET_OFFLINE=true GOPROXY=off PIP_NO_INDEX=1 VERIF_SEED=1 VERIF_TIER=quick
t0=$(date +%s)
( sh -c "$(python3 -c "import json;print(json.load(open('MANIFEST.json'))['setup_cmd'])")" ) > "$F/setup.log" 2>&1
echo "setup rc=$? ($(( $(date +%s) - t0 )) s)"; tail -3 "$F/setup.log"
ids="$*"; [ -n "$ids" ] || ids=$(python3 -c "import json;print(' '.join(c['property_id'] for c in json.load(open('MANIFEST.json'))['checks']))")
for id in $ids; do
  rm -f evidence/$id.json
  t1=$(date +%s)
  cmd=$(python3 -c "import json,sys;print([c['quick_cmd'] for c in json.load(open('MANIFEST.json'))['checks'] if c['property_id']==sys.argv[1]][0])" $id)
  sh -c "$cmd" > "$F/$id.log" 2>&1; rc=$?
  ev=missing; [ -f evidence/$id.json ] && ev=$(python3-vt -c "
import json,jsonschema,sys
try:
    jsonschema.validate(json.load(open('evidence/$id.json')), json.load(open('/root/.vp/EVIDENCE.schema.json'))); print('valid')
except Exception as e: print('INVALID', str(e)[:80])")
  echo "$id rc=$rc $(( $(date +%s) - t1 ))s evidence=$ev viol=$(grep -c '^VIOLATION' "$F/$id.log") :: $(grep '^\[C' "$F/$id.log" | cut -c1-160)"
done
