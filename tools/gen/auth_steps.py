#!/usr/bin/env python3
"""T1 extractor for C18: reads the ORDER of the file-system / environment steps of the authority-lock protocol from

    crates/ripd/src/local_authority.rs   try_acquire, Drop for AuthorityLockGuard, atomic_write_file,
                                         try_cleanup_stale_authority_files, try_cleanup_corrupt_lock_file
    crates/ripd/src/server.rs            acquire_authority_lock_with_recovery
    crates/rip-cli/src/local_authority.rs ensure_local_authority_with_paths

and writes coq/Gen/AuthSteps.v: per function the list of marker codes in SOURCE ORDER (every occurrence), plus the
obligation  gen_auth_steps_ok : auth_steps_wf ... = true  (Model/AuthoritySteps.v compares the lists with the step order
the model implements, and the model's own program-counter traces with that order).

Pattern based; a function it cannot find makes gen_auth_found false (it never guesses).  `#[cfg(rip_verif)]` hook
lines and comments are ignored.
Usage: auth_steps.py --repo /repo --out coq/Gen"""
import re, sys, os, argparse


def strip(src):
    src = re.sub(r"//[^\n]*", "", src)
    # drop the verification hook statements (attribute + the single statement that follows it)
    src = re.sub(r"#\[cfg\(rip_verif\)\]\s*[^;{]*;", "", src)
    return src


def match_brace(src, i):
    depth = 0
    j = i
    while j < len(src):
        if src[j] == "{":
            depth += 1
        elif src[j] == "}":
            depth -= 1
            if depth == 0:
                return j
        j += 1
    return -1


def body_after(src, m):
    if not m:
        return None
    # first '{' after the closing paren of the signature
    depth = 0
    k = src.find("(", m.start())
    while k < len(src):
        if src[k] == "(":
            depth += 1
        elif src[k] == ")":
            depth -= 1
            if depth == 0:
                break
        k += 1
    i = src.find("{", k)
    j = match_brace(src, i)
    if i < 0 or j < 0:
        return None
    return src[i + 1:j]


def fn_body(src, name):
    return body_after(src, re.search(r"\bfn\s+" + re.escape(name) + r"\s*(<[^>]*>)?\s*\(", src))


def drop_body(src):
    m = re.search(r"impl\s+Drop\s+for\s+AuthorityLockGuard\s*\{", src)
    if not m:
        return None
    return body_after(src[m.end():], re.search(r"\bfn\s+drop\s*\(", src[m.end():]))


W = r"\s*"
MARKERS = {
    "acquire": [
        (1, r"\.create_new\(" + W + r"true" + W + r"\)"),
        (2, r"\.create\(" + W + r"true" + W + r"\)"),
        (3, r"\.truncate\(" + W + r"true" + W + r"\)"),
        (4, r"\.open\(" + W + r"&lock_path" + W + r"\)"),
        (5, r"write_all\(" + W + r"&json" + W + r"\)"),
        (6, r"fs::write\(" + W + r"&lock_path"),
        (7, r"File::create\("),
    ],
    "drop": [
        (1, r"remove_file\(" + W + r"&self\.meta_path" + W + r"\)"),
        (2, r"remove_file\(" + W + r"&self\.lock_path" + W + r"\)"),
    ],
    "meta": [
        (1, r"fs::write\(" + W + r"&tmp"),
        (2, r"remove_file\(" + W + r"path" + W + r"\)"),
        (3, r"fs::rename\(" + W + r"tmp" + W + r"," + W + r"path" + W + r"\)"),
    ],
    "stale": [
        (1, r"if" + W + r"!lock_path\.exists\(\)" + W + r"\{" + W + r"return Ok\(false\);"),
        (2, r"read_authority_lock_record\("),
        (3, r"if" + W + r"lock\.pid" + W + r"!=" + W + r"expected_pid" + W + r"\{" + W + r"return Ok\(false\);"),
        (4, r"fs::rename\(" + W + r"&lock_path"),
        (5, r"read_authority_meta\("),
        (6, r"if" + W + r"meta\.pid" + W + r"==" + W + r"expected_pid" + W + r"\{"),
        (7, r"fs::rename\(" + W + r"&meta_path"),
        (8, r"remove_file\(" + W + r"lock_tombstone" + W + r"\)"),
        (9, r"remove_file\(" + W + r"meta_tombstone" + W + r"\)"),
        (10, r"remove_file\(" + W + r"&?lock_path" + W + r"\)"),
        (11, r"remove_file\(" + W + r"&?meta_path" + W + r"\)"),
    ],
    "corrupt": [
        (1, r"if" + W + r"!lock_path\.exists\(\)" + W + r"\{" + W + r"return Ok\(false\);"),
        (2, r"if" + W + r"authority_meta_path\(" + W + r"&data_dir" + W + r"\)\.exists\(\)" + W + r"\{"),
        (3, r"read_authority_meta\("),
        (4, r"Ok\(Some\(meta\)\)" + W + r"if" + W + r"pid_liveness\(" + W + r"meta\.pid" + W + r"\)" + W + r"==" + W + r"PidLiveness::Dead" + W + r"=>" + W + r"\{\}"),
        (5, r"_" + W + r"=>" + W + r"return Ok\(false\)"),
        (6, r"fs::rename\(" + W + r"&lock_path"),
        (7, r"remove_file\(" + W + r"tombstone" + W + r"\)"),
        (8, r"remove_file\(" + W + r"&?lock_path" + W + r"\)"),
    ],
    "server": [
        (1, r"AuthorityLockGuard::try_acquire\("),
        (2, r"read_authority_meta\("),
        (3, r"ping_openapi\("),
        (4, r"if" + W + r"endpoint_reachable" + W + r"\{"),
        (5, r"read_authority_lock_record\("),
        (6, r"pid_liveness\(" + W + r"lock\.pid" + W + r"\)"),
        (7, r"if" + W + r"matches!\(" + W + r"pid_liveness" + W + r"," + W + r"crate::PidLiveness::Dead" + W + r"\)" + W + r"&&" + W + r"!endpoint_reachable" + W + r"\{"),
        (8, r"try_cleanup_stale_authority_files\("),
        (9, r"lock_invalid_since\.get_or_insert\("),
        (10, r"if" + W + r"lock_err\.contains\(" + W + r'"lock json invalid"' + W + r"\)" + W + r"&&" + W + r"lock_invalid_since" + W + r"\.map\(" + W + r"\|since\|" + W + r"since\.elapsed\(\)" + W + r">" + W + r"std::time::Duration::from_secs\(1\)" + W + r"\)" + W + r"\.unwrap_or\(false\)" + W + r"\{"),
        (11, r"try_cleanup_corrupt_lock_file\("),
        # any liveness probe other than the one of the lock's pid (e.g. a probe consulted before the ping)
        (12, r"pid_liveness\(" + W + r"(?!lock\.pid" + W + r"\))"),
    ],
    "serve": [
        (1, r"acquire_authority_lock_with_recovery\("),
        (2, r"TcpListener::bind\("),
        (3, r"lock\.write_meta\("),
        (4, r"tokio::select!"),
        (5, r"shutdown_tx\.send\("),
        (6, r"tokio::time::timeout\("),
        (7, r"server_task\.abort\(\)"),
        # any explicit release / move of the guard before the end of serve
        (8, r"\bdrop\(" + W + r"lock" + W + r"\)"),
        (8, r"mem::forget\(" + W + r"lock" + W + r"\)"),
        (8, r"let" + W + r"_" + W + r"=" + W + r"lock" + W + r";"),
        (8, r"move" + W + r"\|[^|]*\|[^;]*\block\b"),
    ],
    "client": [
        (1, r"read_authority_meta\("),
        (2, r"ping\(" + W + r"&client" + W + r"," + W + r"&meta\.endpoint" + W + r"\)"),
        (3, r"pid_liveness\(" + W + r"meta\.pid" + W + r"\)"),
        (4, r"if" + W + r"matches!\(" + W + r"pid_liveness" + W + r"," + W + r"ripd::PidLiveness::Dead" + W + r"\)" + W + r"\{"),
        (5, r"try_cleanup_stale_authority_files\("),
        (6, r"if" + W + r"lock_path\.exists\(\)" + W + r"\{"),
        (7, r"read_authority_lock_record\("),
        (8, r"pid_liveness\(" + W + r"lock\.pid" + W + r"\)"),
        (9, r"lock_invalid_since\.get_or_insert\("),
        (10, r"if" + W + r"err\.contains\(" + W + r'"lock json invalid"' + W + r"\)" + W + r"&&" + W + r"lock_invalid_since" + W + r"\.map\(" + W + r"\|since\|" + W + r"since\.elapsed\(\)" + W + r">" + W + r"Duration::from_secs\(1\)" + W + r"\)" + W + r"\.unwrap_or\(false\)" + W + r"\{"),
        (11, r"try_cleanup_corrupt_lock_file\("),
        (12, r"spawn_local_authority\("),
        (13, r"AuthorityLockGuard::try_acquire\("),
        (14, r"if" + W + r"ripd::authority_lock_path\(" + W + r"&data_dir" + W + r"\)\.exists\(\)" + W + r"\{"),
        # any liveness probe of something else than meta.pid / lock.pid
        (15, r"pid_liveness\(" + W + r"(?!(?:lock|meta)\.pid" + W + r"\))"),
    ],
}


def order(body, which):
    hits = []
    for code, rx in MARKERS[which]:
        for m in re.finditer(rx, body):
            hits.append((m.start(), code))
    hits.sort()
    return [c for _, c in hits]


def block_at(src, m):
    """the `{...}` block whose opening brace ends the regex match m: (inner text, index after the closing brace)"""
    if not m:
        return None, -1
    i = m.end() - 1
    j = match_brace(src, i)
    if j < 0:
        return None, -1
    return src[i + 1:j], j + 1


def top_level(block):
    """the statements directly inside a block: nested `{...}` blocks removed"""
    out, depth = [], 0
    for ch in block:
        if ch == "{":
            depth += 1
        elif ch == "}":
            depth -= 1
        elif depth == 0:
            out.append(ch)
    return "".join(out)


RESET = r"lock_invalid_since\s*=\s*None\s*;"


def has_reset(block):
    return block is not None and re.search(RESET, top_level(block)) is not None


def else_block(src, after):
    m = re.compile(r"\s*else\s*\{").match(src, after)
    return block_at(src, m)


def grace_table(body, which):
    """the `lock_invalid_since = None;` statements of a recovery loop, by arm, + the grace comparison.
    Returns (dict, problems)."""
    probs = []
    t = {"meta": False, "readable": False, "absent": False, "vanished": False, "cleaned": False, "grace_ms": 0, "strict": False}
    if body is None:
        return t, ["body"]
    mm = re.search(r"match\s+(?:ripd|crate)::read_authority_lock_record\([^)]*\)\s*\{", body)
    mblock, _ = block_at(body, mm)
    if mblock is None:
        return t, ["match read_authority_lock_record"]
    arm_r, _ = block_at(mblock, re.search(r"Ok\(Some\(lock\)\)\s*=>\s*\{", mblock))
    arm_v, _ = block_at(mblock, re.search(r"Ok\(None\)\s*=>\s*\{", mblock))
    arm_e, _ = block_at(mblock, re.search(r"Err\((?:lock_)?err\)\s*=>\s*\{", mblock))
    for name, arm in (("Ok(Some(lock)) arm", arm_r), ("Ok(None) arm", arm_v), ("Err arm", arm_e)):
        if arm is None:
            probs.append(name)
    t["readable"] = has_reset(arm_r)
    t["vanished"] = has_reset(arm_v)
    recognised = int(t["readable"]) + int(t["vanished"])
    if arm_e is not None:
        cm = re.search(r"if\s+cleaned\s*\{", arm_e)
        cblock, _ = block_at(arm_e, cm)
        # the reset must sit in the `if cleaned` block that follows the corrupt cleanup call
        t["cleaned"] = has_reset(cblock) and cm is not None and "try_cleanup_corrupt_lock_file(" in arm_e[:cm.start()]
        recognised += int(t["cleaned"])
        gm = re.search(r"since\.elapsed\(\)\s*(>=|>)\s*(?:std::time::)?Duration::from_(secs|millis)\(\s*(\d+)\s*\)", arm_e)
        if gm:
            t["strict"] = gm.group(1) == ">"
            t["grace_ms"] = int(gm.group(3)) * (1000 if gm.group(2) == "secs" else 1)
        else:
            probs.append("grace comparison")
    if which == "client":
        ma = re.search(r"if\s+let\s+Some\(meta\)\s*=\s*meta\s*\{", body)
        a_block, a_end = block_at(body, ma)
        if a_block is None:
            probs.append("meta arm")
        else:
            # the reset of the meta arm must come before the ping (the arm's first statement in the source)
            tl = top_level(a_block)
            rm = re.search(RESET, tl)
            t["meta"] = rm is not None and "ping(" not in tl[:rm.start()]
            recognised += int(t["meta"])
            b_block, _ = else_block(body, a_end)
            if b_block is None:
                probs.append("no-meta arm")
            else:
                mc = re.search(r"if\s+lock_path\.exists\(\)\s*\{", b_block)
                c_block, c_end = block_at(b_block, mc)
                d_block, _ = else_block(b_block, c_end) if c_block is not None else (None, -1)
                if d_block is None:
                    probs.append("no-lock arm")
                t["absent"] = has_reset(d_block)
                recognised += int(t["absent"])
    else:
        # the server reads the lock without an exists() test: Ok(None) is "absent" and "vanished" alike
        t["absent"] = t["vanished"]
    # every assignment to the variable must be one of the recognised resets (besides the declaration and get_or_insert)
    total = len(re.findall(r"lock_invalid_since\s*=[^=]", body))   # (the declaration reads `lock_invalid_since: Option<..> = None`)
    if total != recognised:
        probs.append("unrecognised assignment to lock_invalid_since (%d found, %d recognised)" % (total, recognised))
    return t, probs


def coq_table(t):
    b = lambda x: "true" if x else "false"
    return ("{| g_reset_meta := %s; g_reset_readable := %s; g_reset_absent := %s; g_reset_vanished := %s; g_reset_cleaned := %s; g_grace_ms := %d; g_strict := %s |}"
            % (b(t["meta"]), b(t["readable"]), b(t["absent"]), b(t["vanished"]), b(t["cleaned"]), t["grace_ms"], b(t["strict"])))


def consts(src):
    return dict(re.findall(r'const\s+([A-Z_]+)\s*:\s*&str\s*=\s*"([^"]*)"\s*;', src))


def static_prefix(fmt, cs):
    """format string -> the text before its first run-time placeholder, inline consts ({LOCK_FILE}) substituted"""
    out = ""
    i = 0
    while i < len(fmt):
        if fmt.startswith("{{", i):
            out += "{"; i += 2; continue
        if fmt[i] == "{":
            j = fmt.find("}", i)
            name = fmt[i + 1:j] if j > 0 else ""
            if name in cs:
                out += cs[name]; i = j + 1; continue
            break
        out += fmt[i]; i += 1
    return out


def reader_error(body, cs):
    m = re.search(r'serde_json::from_str\([^)]*\)\s*\.map_err\(\s*\|err\|\s*format!\(\s*"((?:[^"\\]|\\.)*)"', body or "")
    return static_prefix(m.group(1), cs) if m else None


def contains_literal(body, var):
    m = re.search(r"\b" + var + r'\.contains\(\s*"((?:[^"\\]|\\.)*)"\s*\)', body or "")
    return m.group(1) if m else None


def coq_bytes(t):
    return "[" + "; ".join(str(b) for b in t.encode("utf-8")) + "]"


def main():
    ap = argparse.ArgumentParser()
    ap.add_argument("--repo", required=True)
    ap.add_argument("--out", required=True)
    a = ap.parse_args()

    def read(rel):
        try:
            return strip(open(os.path.join(a.repo, rel), encoding="utf-8").read())
        except OSError:
            return ""

    la = read("crates/ripd/src/local_authority.rs")
    sv = read("crates/ripd/src/server.rs")
    cl = read("crates/rip-cli/src/local_authority.rs")
    bodies = {
        "acquire": fn_body(la, "try_acquire"),
        "drop": drop_body(la),
        "meta": fn_body(la, "atomic_write_file"),
        "stale": fn_body(la, "try_cleanup_stale_authority_files"),
        "corrupt": fn_body(la, "try_cleanup_corrupt_lock_file"),
        "server": fn_body(sv, "acquire_authority_lock_with_recovery"),
        "client": fn_body(cl, "ensure_local_authority_with_paths"),
        "serve": fn_body(sv, "serve"),
    }
    cs = consts(la)
    lock_err = reader_error(fn_body(la, "read_authority_lock_record"), cs)
    server_pat = contains_literal(bodies["server"], "lock_err")
    client_pat = contains_literal(bodies["client"], "err")
    strings = {"lock_err": lock_err, "server_pat": server_pat, "client_pat": client_pat}
    missing = [k for k, v in bodies.items() if v is None] + [k for k, v in strings.items() if v is None]
    client_grace, cprobs = grace_table(bodies["client"], "client")
    server_grace, sprobs = grace_table(bodies["server"], "server")
    missing += ["client grace table: " + x for x in cprobs] + ["server grace table: " + x for x in sprobs]
    lines = [
        "(* GENERATED by tools/gen/auth_steps.py from crates/ripd/src/{local_authority,server}.rs and",
        "   crates/rip-cli/src/local_authority.rs on every ./check run -- do not edit.  A committed copy serves as seed only. *)",
        "From RipV Require Import Base.Prelude Model.Authority Model.AuthoritySteps Model.AuthorityGrace.",
        "",
        "Definition gen_auth_found : bool := %s.%s" % ("false" if missing else "true", ("   (* not found: %s *)" % ", ".join(missing)) if missing else ""),
    ]
    for k in ["acquire", "drop", "meta", "stale", "corrupt", "server", "client", "serve"]:
        seq = order(bodies[k], k) if bodies[k] is not None else []
        lines.append("Definition gen_%s_steps : list N := [%s]." % (k, "; ".join(str(c) for c in seq)))
    for k in ["lock_err", "server_pat", "client_pat"]:
        v = strings[k] or ""
        lines.append("(* %s = %r *)" % (k, v))
        lines.append("Definition gen_%s : list N := %s." % (k, coq_bytes(v)))
    lines += [
        "",
        "Definition gen_auth_steps : auth_steps :=",
        "  {| as_acquire := gen_acquire_steps; as_drop := gen_drop_steps; as_meta := gen_meta_steps; as_stale := gen_stale_steps;",
        "     as_corrupt := gen_corrupt_steps; as_server := gen_server_steps; as_client := gen_client_steps;",
        "     as_serve := gen_serve_steps; as_lock_err := gen_lock_err; as_server_pat := gen_server_pat; as_client_pat := gen_client_pat |}.",
        "",
        "Lemma gen_auth_steps_found : gen_auth_found = true.",
        "Proof. vm_compute. reflexivity. Qed.",
        "(* the classification table the model's step `RLock (LHalf _) => corrupt cleanup` (hence c18_recovers_partial for a",
        "   half-written lock) relies on: both loops recognise the reader's error text *)",
        "Lemma gen_loops_recognise_corrupt : loops_recognise_corrupt gen_auth_steps = true.",
        "Proof. vm_compute. reflexivity. Qed.",
        "(* the authority guard is not released before the end of serve *)",
        "Lemma gen_serve_keeps_guard : lN_eqb (as_serve gen_auth_steps) exp_serve = true.",
        "Proof. vm_compute. reflexivity. Qed.",
        "Lemma gen_auth_steps_ok : auth_steps_wf gen_auth_steps = true.",
        "Proof. vm_compute. reflexivity. Qed.",
        "",
        "(* the corrupt-lock grace timer: which arms of each loop carry `lock_invalid_since = None;` (top-level statement of the",
        "   arm), the reset after a successful corrupt cleanup, and the comparison `since.elapsed() > Duration::from_secs(1)` *)",
        "Definition gen_client_grace : gtable := %s." % coq_table(client_grace),
        "Definition gen_server_grace : gtable := %s." % coq_table(server_grace),
        "(* c18_client_grace_resets / c18_timer_fires_only_after_grace are proved for every table with these resets *)",
        "Lemma gen_client_grace_ok : table_wf_client gen_client_grace = true.",
        "Proof. vm_compute. reflexivity. Qed.",
        "Lemma gen_server_grace_ok : table_wf_server gen_server_grace = true.",
        "Proof. vm_compute. reflexivity. Qed.",
        "(* the table the correspondence cases of the real client loop are evaluated with *)",
        "Lemma gen_client_grace_is_full : gen_client_grace = full_table.",
        "Proof. vm_compute. reflexivity. Qed.",
        "",
    ]
    os.makedirs(a.out, exist_ok=True)
    with open(os.path.join(a.out, "AuthSteps.v"), "w") as f:
        f.write("\n".join(lines))
    print("auth_steps: " + ("MISSING " + ",".join(missing) if missing else "ok"))
    return 0


if __name__ == "__main__":
    sys.exit(main())
