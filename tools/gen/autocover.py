#!/usr/bin/env python3
"""T1 extractor for C14 ("the automatic checkpoint covers every file the tool can change"): reads, from /repo's
working tree, with the scanners of tools/gen/resolvers.py (C13's extractor, imported as a module),

  * gen_tool_steps  the step list of  crates/rip-tools/src/builtins/mod.rs  resolve_path  - what the write tool does
                    to its `path` argument before it joins it to the root (Paths.interp codes: 1 absolute guard,
                    2 ParentDir guard, 3 root.join, 4 trim, 5 empty guard, 6 result as it is, 99 unknown)
  * gen_auto_steps  the step list of the "write" arm of  crates/rip-tools/src/runtime.rs  files_for_invocation - what
                    the auto checkpoint does to the same argument before it hands it to the checkpoint store
    In both, the argument must enter as it is: `let path = PathBuf::from(raw);` / `PathBuf::from(args.path)`;
    `PathBuf::from(x.trim())` (also trim_start / trim_end / trim_matches) is step 4, any other expression 99.
  * gen_tmp_kind    how run_write names the temporary file of the atomic branch:
                    1  `path.with_extension(format!("tmp-{}", uuid::Uuid::new_v4()))`  (a name nobody else has)
                    2  `path.with_extension("<literal>")`                                (a fixed name: a sibling may own it)
                    99 anything else / not found
  * gen_write_prog  the (operation, derivation) program of run_write exactly as resolvers.py reads it (id 21), except
                    that a fixed-extension temporary file is still derivation 13 here (its kind is gen_tmp_kind)
  * write_tool_calls_resolver: run_write hands `&args.path` itself to resolve_path and ToolRunner::run takes the
                    checkpoint (emit_checkpoint_events -> files_for_invocation -> hook.create) before ToolStarted and before the handler is looked up - folded into gen_cover_found

  * gen_patch_cover / gen_patch_variants_ok / gen_patch_progs  apply_patch: Patch::affected_paths pushes `path` for AddFile and
                    DeleteFile, `path` and `moved_to` for UpdateFile (per variant, in source order: fields 1 = path,
                    2 = moved_to); enum PatchOp has exactly these three variants; the file-system programs of
                    Workspace::apply_patch per header and of its undo (ids 40-43, 46 of resolvers.py): every call on a path
                    derived from safe_join(path) / safe_join(moved_to)
  * gen_restore_order  inside the `if file.exists` block of rewind_to_checkpoint's restore loop: 1 read of the stored
                    copy, 2 comparison of its hash with the recorded sha256 (mismatch = error), 3 create_dir_all(parent),
                    4 write of the target, 9 any copy / link / rename; a leading 0 = create_checkpoint does not record
                    the hash of the bytes it stores

and writes coq/Gen/AutoCover.v with the obligations  gen_cover_ok : cover_wf ... = true  and
gen_store_ok : store_wf gen_restore_order = true,  gen_patch_ok : patch_wf ... = true  (Model/Checkpoint.v).
Pattern based, never guesses: what it does not recognise becomes 99 / false and the obligation fails.
Usage: autocover.py --repo /repo --out coq/Gen"""
import re, sys, os, argparse

sys.path.insert(0, os.path.dirname(os.path.abspath(__file__)))
import resolvers as R  # noqa: E402


def entry_step(body, var_pat):
    """how the argument enters: [] = as it is, [4] = trimmed, [99] = otherwise / not found"""
    if body is None:
        return [99]
    b = R.squash(body)
    m = re.search(r"letpath=PathBuf::from\(([^;]*)\);", b)
    if not m:
        return [99]
    e = m.group(1)
    if re.fullmatch(var_pat, e):
        return []
    if re.fullmatch(r"(?:" + var_pat + r")\.trim(?:_start|_end)?\(\)", e):
        return [4]
    return [99]


def main():
    ap = argparse.ArgumentParser()
    ap.add_argument("--repo", required=True)
    ap.add_argument("--out", required=True)
    a = ap.parse_args()

    def rd(p):
        try:
            return R.strip_comments(open(os.path.join(a.repo, p)).read())
        except OSError:
            return ""

    cut = lambda s: s.split("#[cfg(test)]")[0]
    builtins = cut(rd("crates/rip-tools/src/builtins/mod.rs"))
    runtime = cut(rd("crates/rip-tools/src/runtime.rs"))
    write_rs = cut(rd("crates/rip-tools/src/builtins/write.rs"))
    ws = cut(rd("crates/rip-workspace/src/lib.rs"))
    found = True

    # --- the tool side
    rp = R.fn_body(builtins, "resolve_path")
    if rp is None:
        found = False
    tool_steps = entry_step(rp, r"raw") + (R.steps_of(rp) or [])

    # --- the checkpoint side
    ffi = R.fn_body(runtime, "files_for_invocation")
    write_arm = None
    if ffi is not None:
        # the arms may list further names (`"write" | "write_file" =>`): which names, is tools/gen/toolnames.py's business
        m = re.search(r'"write"(?:\s*\|\s*"[^"]*")*\s*=>\s*\{', ffi)
        n = re.search(r'"apply_patch"(?:\s*\|\s*"[^"]*")*\s*=>', ffi)
        if m and n and m.end() < n.start():
            write_arm = ffi[m.end():n.start()]
    if write_arm is None:
        found = False
    auto_steps = entry_step(write_arm, r"args\.path") + (R.steps_of(write_arm) or [])
    # the apply_patch arm: every header path of the parsed patch, nothing else
    if ffi is None or not re.search(r"letpatch=rip_workspace::Patch::parse\(&args\.patch\)\.map_err\([^;]*\)\?;Ok\(Some\(patch\.affected_paths\(\)\)\)", R.squash(ffi)):
        found = False

    # --- the temporary name + the program of run_write
    body = R.fn_body(write_rs, "run_write")
    tmp_kind = 99
    prog = []
    if body is None:
        found = False
    else:
        t = R.squash(body)
        tmps = re.findall(r"let(\w+)=(\w+)\.with_extension\(([^;]*)\);", t)
        if len(tmps) == 1 and tmps[0][1] == "path":
            if tmps[0][2] == 'format!("tmp-{}",uuid::Uuid::new_v4())':
                tmp_kind = 1
            elif re.fullmatch(r'"[^"]*"', tmps[0][2]):
                tmp_kind = 2
        # the program as C13 reads it; for kind 2 the same scan with the fixed-extension binding recognised
        progs, pok = R.tool_programs(rd, cut, ws)
        prog = dict(progs).get(21, [])
        if tmp_kind == 2:
            t2 = t.replace("path.with_extension(" + tmps[0][2] + ")", 'path.with_extension(format!("tmp-{}",uuid::Uuid::new_v4()))')
            RESOLVE = r"let(?P<v>\w+)=matchresolve_path\(&config\.workspace_root,&(?:args\.path|root)\)\{Ok\(path\)=>path,"
            res1 = (RESOLVE, lambda env, m, before: 1)
            PARENT = r"ifletSome\((?P<v>\w+)\)=(?P<b>\w+)\.parent\(\)"
            par = (PARENT, lambda env, m, before: 12 if env.get(m.group("b")) == 1 else 99)
            tmp = (r"let(?P<v>\w+)=(?P<b>\w+)\.with_extension\(format!\(\"tmp-\{\}\",uuid::Uuid::new_v4\(\)\)\)", lambda env, m, before: 13 if env.get(m.group("b")) == 1 else 99)
            prog = R.scan(t2, {}, [res1, par, tmp])
        if not re.search(r"resolve_path\(&config\.workspace_root,&args\.path\)", t):
            found = False

    # --- ToolRunner::run: the checkpoint is taken before the tool is started
    run = R.fn_body(runtime, "run")
    if run is None:
        found = False
    else:
        r = R.squash(run)
        i = r.find("self.emit_checkpoint_events(session_id,seq,&invocation,&mutevents);")
        j = r.find("EventKind::ToolStarted")
        k = r.find("self.registry.get(&invocation.name)")
        if not (0 <= i < j < k):
            found = False
    ece = R.fn_body(runtime, "emit_checkpoint_events")
    if ece is None or not re.search(r"letfiles=matchfiles_for_invocation\(invocation\)\{Ok\(Some\(files\)\)=>files,", R.squash(ece)) or "hook.create(request)" not in R.squash(ece):
        found = False

    # --- rewind: the stored copy is hashed and compared before the target is touched
    rw = R.fn_body(ws, "rewind_to_checkpoint")
    restore_order = []
    if rw is not None:
        t = R.squash(rw)
        m = re.search(r"iffile\.exists\{letsource_path=checkpoint_root\.join\(\"files\"\)\.join\(&file\.path\);", t)
        if m:
            blk = t[m.start() + len("iffile.exists"):]
            blk = blk[:R.block_at(blk, 0)]
            restore_order = R.order_of(blk, [
                (1, r"letbytes=fs::read\(&source_path\)\?;"),
                (2, r"ifletSome\(expected\)=&file\.sha256\{ifhash_bytes\(&bytes\)!=\*expected\{returnErr\("),
                (3, r"fs::create_dir_all\(parent\)\?;"),
                (4, r"fs::write\(&target_path,&bytes\)\?;"),
                (9, r"fs::(?:copy|hard_link|rename)\("),
            ])
    # create records the hash of the very bytes it stores
    cc = R.fn_body(ws, "create_checkpoint")
    if cc is None or "letbytes=fs::read(&source)?;lethash=hash_bytes(&bytes);fs::write(&dest,&bytes)?;" not in R.squash(cc) or "sha256:Some(hash)," not in R.squash(cc):
        restore_order = [0] + restore_order

    # --- apply_patch: what affected_paths hands to the checkpoint, per PatchOp variant
    patch_rs = cut(rd("crates/rip-workspace/src/patch.rs"))
    ap = R.fn_body(patch_rs, "affected_paths")
    patch_cover = []
    variants_ok = False
    if ap is not None:
        t = R.squash(ap)
        arms = [(1, r"PatchOp::AddFile\{path,\.\.\}=>paths\.push\(path\.clone\(\)\),", [1]),
                (2, r"PatchOp::DeleteFile\{path\}=>paths\.push\(path\.clone\(\)\),", [1]),
                (3, r"PatchOp::UpdateFile\{path,moved_to,\.\.\}=>\{paths\.push\(path\.clone\(\)\);ifletSome\(moved_to\)=moved_to\{paths\.push\(moved_to\.clone\(\)\);\}\}", [1, 2]),
                (3, r"PatchOp::UpdateFile\{path,\.\.\}=>paths\.push\(path\.clone\(\)\),", [1])]
        found_arms = []
        for code, pat, fields in arms:
            m = re.search(pat, t)
            if m:
                found_arms.append((m.start(), code, fields))
        found_arms.sort()
        patch_cover = [(c, fl) for _, c, fl in found_arms]
        if not re.search(r"formutop|foropin&self\.ops\{matchop\{", t):
            patch_cover = [(0, [])] + patch_cover
    me = re.search(r"pub\s+enum\s+PatchOp\s*\{", patch_rs)
    if me:
        body = patch_rs[me.end() - 1:R.block_at(patch_rs, me.end() - 1)]
        names = re.findall(r"(?m)^\s{4}(\w+)\s*\{", body)
        variants_ok = names == ["AddFile", "DeleteFile", "UpdateFile"]
    all_progs, _ = R.tool_programs(rd, cut, ws)
    patch_progs = sorted((i, pr) for i, pr in all_progs if i in (40, 41, 42, 43, 46))

    coq_list = lambda l: "[" + "; ".join(str(x) for x in l) + "]"
    coq_prog = lambda pr: "[" + "; ".join(f"({o}, {d})" for o, d in pr) + "]"
    out = []
    out.append("(* GENERATED by tools/gen/autocover.py from /repo's working tree — do not edit.")
    out.append("   What the write tool and its automatic checkpoint do to the `path` argument, how the temporary file of the")
    out.append("   atomic branch is named, and the file-system program of run_write (see the extractor's header). *)")
    out.append("From RipV Require Import Base.Prelude Base.Fs Model.Paths Model.Checkpoint.")
    out.append(f"Definition gen_cover_found : bool := {'true' if found else 'false'}.")
    out.append(f"Definition gen_tool_steps : list N := {coq_list(tool_steps)}.")
    out.append(f"Definition gen_auto_steps : list N := {coq_list(auto_steps)}.")
    out.append(f"Definition gen_tmp_kind : N := {tmp_kind}.")
    out.append(f"Definition gen_write_prog : list (N * N) := {coq_prog(prog)}.")
    out.append("Lemma gen_cover_ok : cover_wf gen_cover_found gen_tool_steps gen_auto_steps gen_tmp_kind gen_write_prog = true.")
    out.append("Proof. vm_compute. reflexivity. Qed.")
    out.append(f"Definition gen_patch_variants_ok : bool := {'true' if variants_ok else 'false'}.")
    out.append("Definition gen_patch_cover : list (N * list N) := [" + "; ".join(f"({c}, {coq_list(fl)})" for c, fl in patch_cover) + "].")
    out.append("Definition gen_patch_progs : list (N * list (N * N)) := [" + "; ".join(f"({i}, {coq_prog(pr)})" for i, pr in patch_progs) + "].")
    out.append("Lemma gen_patch_ok : patch_wf gen_patch_variants_ok gen_patch_cover gen_patch_progs = true.")
    out.append("Proof. vm_compute. reflexivity. Qed.")
    out.append(f"Definition gen_restore_order : list N := {coq_list(restore_order)}.")
    out.append("Lemma gen_store_ok : store_wf gen_restore_order = true.")
    out.append("Proof. vm_compute. reflexivity. Qed.")
    os.makedirs(a.out, exist_ok=True)
    with open(os.path.join(a.out, "AutoCover.v"), "w") as f:
        f.write("\n".join(out) + "\n")
    print("tool steps:", tool_steps, "auto steps:", auto_steps, "tmp kind:", tmp_kind, "found:", found)
    print("write program:", prog)
    print("restore order:", restore_order)
    print("patch cover:", patch_cover, "variants ok:", variants_ok, "patch programs:", patch_progs)


if __name__ == "__main__":
    main()
