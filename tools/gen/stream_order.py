#!/usr/bin/env python3
"""T1 extractor for C06: reads, from /repo's current source,

  producers   the order of  `sender.send(ev)`  (publish on the broadcast channel)  versus
              `guard.push(ev)` (session / task history buffer)  resp.  `event_log.append(&ev)` +
              `stream_cache.append_best_effort(&ev)` (thread: truth log + sidecar that `replay_events` reads)
              in  emit_event (session.rs),  TaskEmitter::emit (tasks/mod.rs)  and EVERY
              `self.sender.send(..)` site of continuities.rs;
  handlers    the order of  `.subscribe()`  versus  `events_snapshot()` / `replay_events(..)`,  the
              expression of the live filter, where `last_seq` comes from, and that the body is
              `past_stream.chain(live_stream)`  in the three SSE handlers of server.rs;
  capacities  the three EVENT_CHANNEL_CAPACITY constants,

and writes coq/Gen/StreamOrder.v with  gen_kinds : list kind_orders  and the obligations

    gen_stream_order_found : gen_ok_stream_order = true
    gen_stream_order_ok    : wf_kinds gen_kinds = true      (record-then-publish, subscribe-then-snapshot, seq > last)

The theorems of Props/C06.v are proved for every kind table satisfying wf_kinds; this obligation is what
says they apply to today's source.  Pattern based; anything it cannot classify makes gen_ok_stream_order
false (it never guesses).
Usage: stream_order.py --repo /repo --out coq/Gen        (self-test: stream_order.py --selftest)"""
import re, sys, os, argparse


def strip_comments(src):
    return re.sub(r"//[^\n]*", "", src)


def cut_tests(src):
    """drop the `#[cfg(test)] mod …` tail (the unit tests build their own channels)"""
    m = re.search(r"#\[cfg\(test\)\]\s*mod\s+\w+\s*\{", src)
    return src[:m.start()] if m else src


def match_brace(src, i):
    depth = 0
    j = i
    while j < len(src):
        ch = src[j]
        if ch == "{":
            depth += 1
        elif ch == "}":
            depth -= 1
            if depth == 0:
                return j
        j += 1
    return -1


def fn_span(src, name, start=0):
    """(body_start, body_end) of `fn name(` found at or after `start`, else None"""
    m = re.compile(r"\bfn\s+" + re.escape(name) + r"\s*(<[^>]*>)?\s*\(").search(src, start)
    if not m:
        return None
    depth = 0
    k = m.end() - 1
    while k < len(src):
        if src[k] == "(":
            depth += 1
        elif src[k] == ")":
            depth -= 1
            if depth == 0:
                break
        k += 1
    i = src.find("{", k)
    j = match_brace(src, i) if i >= 0 else -1
    if i < 0 or j < 0:
        return None
    return i + 1, j


def enclosing_fn(src, pos):
    """(name, body_start, body_end) of the innermost fn whose body contains pos"""
    best = None
    for m in re.finditer(r"\bfn\s+(\w+)\s*(<[^>]*>)?\s*\(", src[:pos]):
        sp = fn_span(src, m.group(1), m.start())
        if sp and sp[0] <= pos <= sp[1]:
            best = (m.group(1), sp[0], sp[1])
    return best


def const_value(src, name):
    m = re.search(r"const\s+" + name + r"\s*:\s*\w+\s*=\s*([0-9_]+)\s*;", src)
    return int(m.group(1).replace("_", "")) if m else None


# ----------------------------------------------------------------- producers
def order_of(pub_pos, rec_pos_list):
    """all record effects before the publish => RecThenPub; any after => PubThenRec"""
    return "RecThenPub" if all(r < pub_pos for r in rec_pos_list) else "PubThenRec"


def read_buffer_emitter(src, fname, send_re, impl=None):
    """session / task emitter: exactly one publish and one buffer push in `fname`; no other publish in the file"""
    start = 0
    if impl:
        m = re.search(r"\bimpl\s+" + re.escape(impl) + r"\s*\{", src)
        if not m:
            return None, f"impl {impl} not found"
        start = m.start()
    sp = fn_span(src, fname, start)
    if not sp:
        return None, f"fn {fname} not found"
    body = src[sp[0]:sp[1]]
    sends = [m.start() for m in re.finditer(send_re, body)]
    if len(sends) != 1:
        return None, f"{fname}: {len(sends)} publish statements (expected 1)"
    # the history buffer: `let mut guard = <buffer>.lock().await; guard.push(event.clone());`
    gm = re.search(r"let\s+mut\s+(\w+)\s*=\s*(?:self\.)?(\w+)\.lock\(\)\.await\s*;", body[:])
    pushes = []
    for m in re.finditer(r"\b(\w+)\.push\(\s*event\.clone\(\)\s*\)\s*;", body):
        pushes.append((m.start(), m.group(1)))
    if len(pushes) != 1:
        return None, f"{fname}: {len(pushes)} buffer pushes (expected 1)"
    # the guard the push goes through must be a lock on the buffer that events_snapshot() clones
    gname = pushes[0][1]
    gm = re.search(r"let\s+mut\s+" + gname + r"\s*=\s*(?:self\.)?(\w+)\.lock\(\)\.await\s*;", body)
    if not gm or gm.start() > pushes[0][0]:
        return None, f"{fname}: the push does not go through a lock guard taken before it"
    # no other publish on a broadcast sender anywhere else in the (non-test) file
    total = len(re.findall(send_re, src))
    if total != 1:
        return None, f"{fname}: {total} publish statements in the file (expected 1: an emitter bypass?)"
    return {"order": order_of(sends[0], [pushes[0][0]]), "buffer": gm.group(1)}, None


def depth_at(body, pos):
    d = 0
    for ch in body[:pos]:
        d += (ch == "{") - (ch == "}")
    return d


def read_seq_lock_span(src, fname, impl, lock_re, send_re):
    """What the emitter's seq mutex covers when SEVERAL producers share one emitter (task: stdout pump, stderr pump,
    main task).  SpanEmit: the guard is bound by a `let` at the top level of the fn body BEFORE the push and the publish,
    is never dropped explicitly, so it lives to the end of the fn (choose-seq, record and publish are one critical
    section).  SpanCounter: the guard is bound inside a nested block (or dropped) before the push."""
    m = re.search(r"\bimpl\s+" + re.escape(impl) + r"\s*\{", src)
    if not m:
        return None, f"impl {impl} not found"
    sp = fn_span(src, fname, m.start())
    if not sp:
        return None, f"fn {fname} not found"
    body = src[sp[0]:sp[1]]
    locks = list(re.finditer(r"let\s+(?:mut\s+)?(\w+)\s*=\s*" + lock_re + r"\s*;", body))
    if len(locks) != 1:
        return None, f"{fname}: {len(locks)} bindings of the seq mutex guard (expected 1)"
    g = locks[0]
    pushes = [x.start() for x in re.finditer(r"\b\w+\.push\(\s*event\.clone\(\)\s*\)\s*;", body)]
    sends = [x.start() for x in re.finditer(send_re, body)]
    if len(pushes) != 1 or len(sends) != 1:
        return None, f"{fname}: cannot relate the seq guard to the push/publish"
    if g.start() > min(pushes[0], sends[0]):
        return None, f"{fname}: the seq mutex is taken after the record/publish"
    # the seq number that goes into the event must be read through this guard (or a value copied from it)
    if not re.search(r"\*\s*" + g.group(1) + r"\b", body):
        return None, f"{fname}: the guard `{g.group(1)}` is never dereferenced"
    dropped = re.search(r"\bdrop\(\s*" + g.group(1) + r"\s*\)", body[:max(pushes[0], sends[0])])
    top_level = depth_at(body, g.start()) == 0
    return ("SpanEmit" if top_level and not dropped else "SpanCounter"), None


def read_thread_producers(src):
    """every `self.sender.send(X.clone())` of continuities.rs, with the log append and the sidecar append of X"""
    sites = []
    spans = []
    for m in re.finditer(r"self\.sender\.send\(\s*(\w+)\.clone\(\)\s*\)", src):
        var = m.group(1)
        f = enclosing_fn(src, m.start())
        if not f:
            return None, "a publish outside any fn"
        name, b0, b1 = f
        body = src[b0:b1]
        p = m.start() - b0
        logs = [x.start() for x in re.finditer(r"self\.event_log\s*\.append\(\s*&" + var + r"\s*\)", body)]
        cache = [x.start() for x in re.finditer(r"self\.stream_cache\s*\.append_best_effort\(\s*&" + var + r"\s*\)", body)]
        if len(logs) != 1 or len(cache) != 1:
            return None, f"{name}: publish of `{var}` with {len(logs)} log appends and {len(cache)} sidecar appends of it (expected 1 and 1)"
        # the seq mutex must be held from choosing the seq to the publish: a top-level `let mut g = self.next_seq.lock()..`
        # before the log append that is not dropped before the publish, or the caller holds it (`next_seq: &mut HashMap`)
        sig = src[max(0, b0 - 600):b0]
        sig = sig[sig.rfind("fn " + name):]
        held_by_caller = bool(re.search(r"next_seq\s*:\s*&mut\s+HashMap", sig))
        gm = [x for x in re.finditer(r"let\s+mut\s+(\w+)\s*=\s*self\.next_seq\s*\.lock\(\)[^;]*;", body) if x.start() < logs[0]]
        if held_by_caller:
            spans.append((name, "SpanEmit"))
        elif len(gm) == 1 and depth_at(body, gm[0].start()) == 0 and not re.search(r"\bdrop\(\s*" + gm[0].group(1) + r"\s*\)", body[:p]):
            spans.append((name, "SpanEmit"))
        else:
            spans.append((name, "SpanCounter"))
        sites.append((name, order_of(p, [logs[0], cache[0]])))
    if not sites:
        return None, "no `self.sender.send(..)` in continuities.rs"
    # any publish written differently would escape the loop above
    if len(re.findall(r"\bsender\s*\.send\(", src)) != len(sites):
        return None, "a publish on the continuity channel that is not `self.sender.send(x.clone())`"
    order = "RecThenPub" if all(o == "RecThenPub" for _, o in sites) else "PubThenRec"
    span = "SpanEmit" if all(sp == "SpanEmit" for _, sp in spans) else "SpanCounter"
    return {"order": order, "sites": sites, "site_spans": spans, "thread_span": span}, None



# ----------------------------------------------------------------- the history buffer: only ever pushed to
BUF_DECL_RE = re.compile(r"\b(\w+)\s*:\s*&?\s*(?:'\w+\s+)?Arc<Mutex<Vec<Event>>>")
BUF_READ_METHODS = {"iter", "clone", "len", "last", "first", "is_empty", "get", "as_slice", "to_vec", "contains", "is_ok", "is_err", "binary_search_by_key", "windows", "chunks"}
BUF_CLEAR_METHODS = {"clear", "drain"}
BUF_SHRINK_METHODS = {"truncate", "split_off", "pop", "remove", "retain", "retain_mut", "swap_remove", "dedup", "dedup_by", "dedup_by_key"}


def classify_buffer_uses(text, g):
    """every use of the guard token `g` in `text` -> list of (op, snippet); op in push / BRead / BTake / BRestore / BClear /
    BTruncate / None (unreadable)"""
    out = []
    G = re.escape(g)
    for m in re.finditer(r"(?<![\w.])" + G + r"(?![\w])", text):
        before = text[max(0, m.start() - 60):m.start()]
        after = text[m.end():m.end() + 80]
        snip = (before[-30:] + g + after[:30]).replace("\n", " ")
        if re.search(r"\blet\s+(?:mut\s+)?$", before) or re.search(r"\bdrop\(\s*$", before):
            continue  # the binding itself / drop(guard)
        if re.search(r"mem::(take|replace|swap)\(\s*&mut\s*\*?\s*$", before):
            out.append(("BTake", snip))
            continue
        if re.search(r"(?<![\w*)\]])\*\s*$", before) and re.match(r"\s*=(?!=)", after):
            rhs = after[after.find("=") + 1:]
            if re.match(r"\s*(Vec::new\(\)|vec!\[\s*\]|Default::default\(\)|Vec::with_capacity\()", rhs):
                out.append(("BClear", snip))
            else:
                out.append(("BRestore", snip))
            continue
        mm = re.match(r"\s*\.\s*(\w+)\s*\(", after)
        if mm:
            meth = mm.group(1)
            if meth == "push":
                out.append(("push", snip))
            elif meth in BUF_READ_METHODS:
                out.append(("BRead", snip))
            elif meth in BUF_CLEAR_METHODS:
                out.append(("BClear", snip))
            elif meth in BUF_SHRINK_METHODS:
                out.append(("BTruncate 0", snip))
            else:
                out.append((None, snip))
            continue
        if re.search(r"&\s*\*?\s*$", before) and not re.search(r"&mut\s*\*?\s*$", before):
            out.append(("BRead", snip))  # handed out as a shared slice (write_snapshot(.., &guard))
            continue
        if re.match(r"\s*;", after) and re.search(r"=\s*$", before):
            continue  # `let x = guard;` style move: nothing yet (x is not tracked -> caught below if it matters)
        out.append((None, snip))
    return out


def read_buffer_ops(files):
    """files: [(rel, src)] (comments and unit tests stripped).  Every access to a stream history buffer
    (`Arc<Mutex<Vec<Event>>>`, reached through lock()/try_lock()/blocking_lock()) classified.
    Returns ({"ops": [(rel, op, snippet)], "pushes": {rel: n}}, None) or (None, why)."""
    names = set()
    for rel, src in files:
        names.update(BUF_DECL_RE.findall(src))
    if not names:
        return None, "no `Arc<Mutex<Vec<Event>>>` history buffer declared"
    alt = "|".join(sorted(re.escape(n) for n in names))
    lock_re = re.compile(r"((?:\b\w+\s*\.\s*)*)\b(" + alt + r")\s*\.\s*(lock\(\)\s*\.\s*await|try_lock\(\)|blocking_lock\(\))")
    ops, pushes, sites = [], {}, 0
    for rel, src in files:
        pushes.setdefault(rel, 0)
        for m in lock_re.finditer(src):
            sites += 1
            f = enclosing_fn(src, m.start())
            if not f:
                return None, f"{rel}: buffer lock outside any fn"
            fname, b0, b1 = f
            # the statement holding the lock expression
            s0 = max(b0 - 1, src.rfind(";", b0, m.start()), src.rfind("{", b0, m.start()), src.rfind("}", b0, m.start())) + 1
            s1 = src.find(";", m.end())
            s1 = b1 if s1 < 0 or s1 > b1 else s1 + 1
            stmt = src[s0:s1]
            lock_text = src[m.start():m.end()]
            bm = re.match(r"\s*let\s+(?:mut\s+)?(\w+)\s*=\s*" + re.escape(lock_text) + r"\s*(?:\.\s*ok\(\)\s*\?|\?|\.\s*unwrap\(\)|\.\s*expect\([^)]*\))?\s*;\s*$", stmt)
            if bm:
                uses = classify_buffer_uses(src[s1:b1], bm.group(1))
            else:
                uses = classify_buffer_uses(stmt.replace(lock_text, "GUARD__"), "GUARD__")
                if not uses:
                    uses = [(None, stmt.strip()[:70])]
            for op, snip in uses:
                if op is None:
                    return None, f"{rel}::{fname}: use of the history buffer not readable: `{snip}`"
                if op == "push":
                    pushes[rel] += 1
                else:
                    ops.append((rel, fname, op, snip))
    if sites == 0:
        return None, "no lock on a history buffer found"
    return {"ops": ops, "pushes": pushes}, None


# ----------------------------------------------------------------- the thread handler's history source
def read_replay_check(cache_src, cont_src):
    """ContinuityStore::replay_events = sidecar if ContinuityStreamCache::try_replay accepts it, else the truth log;
    try_replay must require first seq 0 and successor seqs."""
    disc, why = read_rebuild_discipline(cache_src, cont_src)
    if disc is None:
        return None, why
    sp = fn_span(cache_src, "try_replay")
    if not sp:
        return None, "fn try_replay not found"
    body = cache_src[sp[0]:sp[1]]
    im = re.findall(r"let\s+mut\s+expected_seq\s*:\s*u64\s*=\s*([0-9_]+)\s*;", body)
    if len(im) != 1:
        return None, "try_replay: `let mut expected_seq: u64 = N;` not found once"
    first = int(im[0].replace("_", ""))
    cm = re.findall(r"if\s+event\s*\.\s*seq\s*(!=|<=|>=|<|>|==)\s*expected_seq\s*\{\s*return\s+Err\(", body)
    if len(cm) != 1:
        return None, f"try_replay: {len(cm)} comparisons `if event.seq OP expected_seq {{ return Err(` (expected 1)"
    assigns = re.findall(r"\bexpected_seq\s*(\+=|=)\s*([^;]+);", body)
    assigns = [(o, r.strip()) for o, r in assigns if not r.strip().startswith("=")]
    if len(assigns) != 1:
        return None, f"try_replay: {len(assigns)} updates of expected_seq (expected 1)"
    o, rhs = assigns[0]
    succ_expected = (o == "=" and re.fullmatch(r"expected_seq\s*\.\s*(saturating_add|wrapping_add)\(\s*1\s*\)|expected_seq\s*\+\s*1", rhs)) or (o == "+=" and rhs == "1")
    succ_seq = o == "=" and re.fullmatch(r"event\s*\.\s*seq\s*\.\s*(saturating_add|wrapping_add)\(\s*1\s*\)|event\s*\.\s*seq\s*\+\s*1", rhs)
    if cm[0] == "!=" and (succ_expected or succ_seq):
        cmp_ = "SeqExact"
    elif cm[0] == "<" and succ_seq:
        cmp_ = "SeqIncreasing"
    else:
        return None, f"try_replay: check `event.seq {cm[0]} expected_seq` with update `expected_seq {o} {rhs}` not modelled"
    # the comparison must precede the push of the same loop, the update follows it
    pm = re.search(r"\bevents\s*\.\s*push\(\s*event\s*\)", body)
    km = re.search(r"if\s+event\s*\.\s*seq\s*(!=|<=|>=|<|>|==)\s*expected_seq", body)
    if not pm or km.start() > pm.start():
        return None, "try_replay: the seq check does not precede events.push(event)"
    if not re.search(r"if\s+events\s*\.\s*is_empty\(\)\s*\{\s*return\s+Err\(", body):
        return None, "try_replay: an empty sidecar is not rejected"
    return {"first": first, "cmp": cmp_, "atomic": disc["atomic"], "locked": disc["locked"]}, None


SERVED_RE = r"if\s+let\s+Ok\(\s*Some\(\s*(\w+)\s*\)\s*\)\s*=\s*self\s*\.\s*stream_cache\s*\.\s*try_replay\(\s*continuity_id\s*\)\s*\{\s*return\s+Ok\(\s*\1\s*\)\s*;\s*\}"
LOGREAD_RE = r"self\s*\.\s*event_log\s*\.\s*replay_stream\(\s*StreamKind::Continuity\s*,\s*continuity_id\s*\)"


def served_then_log(body):
    """`if let Ok(Some(e)) = stream_cache.try_replay(id) { return Ok(e) }`, then the log read, then the rebuild; no other return"""
    tm, lm = re.search(SERVED_RE, body), re.search(LOGREAD_RE, body)
    rb = re.search(r"\.\s*rebuild_best_effort\(", body)
    return bool(tm and lm and rb and tm.start() < lm.start() < rb.start() and len(re.findall(r"\breturn\b", body)) == 1)


def fn_containing(src, pos):
    """name of the innermost fn whose body contains pos"""
    best = None
    for m in re.finditer(r"\bfn\s+(\w+)\s*(<[^>]*>)?\s*\(", src):
        sp = fn_span(src, m.group(1), m.start())
        if sp and sp[0] <= pos < sp[1] and (best is None or sp[0] > best[1]):
            best = (m.group(1), sp[0])
    return best[0] if best else None


def read_rebuild_discipline(cache_src, cont_src):
    """How the sidecar is rebuilt when try_replay refuses it (the discipline of Model/Subscribe.v, rdisc):
    locked = replay_events takes the writers' seq mutex (a guard bound to a NAME, kept to the end of the function) before the
             log read and the rebuild, which live in replay_events_locked (sidecar tried again, log, rebuild); every other
             rebuild / replay_events_locked / load_next_seq_for call site is under that mutex as well;
    atomic = rebuild_best_effort writes a temporary file next to the sidecar and renames it over the sidecar after the last
             write and the flush (File::create on the sidecar itself = in place)."""
    sp = fn_span(cont_src, "replay_events")
    if not sp:
        return None, "fn replay_events not found"
    body = cont_src[sp[0]:sp[1]]
    if served_then_log(body) and not re.search(r"next_seq\s*\.\s*(try_)?lock\(", body):
        locked = False
    else:
        tm = re.search(SERVED_RE, body)
        gm = re.search(r"let\s+(_\w+)\s*=\s*self\s*\.\s*next_seq\s*\.\s*lock\(\)\s*\.\s*expect\([^)]*\)\s*;", body)
        cm = re.search(r"self\s*\.\s*replay_events_locked\(\s*continuity_id\s*\)\s*$", body.rstrip().rstrip("}").rstrip())
        if not (tm and gm and cm and tm.end() <= gm.start() < cm.start()) or len(re.findall(r"\breturn\b", body)) != 1:
            return None, "replay_events is neither `served | log read | rebuild` nor `served | let _guard = self.next_seq.lock().expect(..); self.replay_events_locked(id)`"
        if re.search(r"\bdrop\(\s*" + gm.group(1) + r"\s*\)", body) or len(re.findall(r"next_seq\s*\.\s*(?:try_)?lock\(", body)) != 1:
            return None, "replay_events: the seq mutex guard is dropped early / taken twice"
        sp2 = fn_span(cont_src, "replay_events_locked")
        if not sp2 or not served_then_log(cont_src[sp2[0]:sp2[1]]) or re.search(r"next_seq\s*\.\s*(try_)?lock\(", cont_src[sp2[0]:sp2[1]]):
            return None, "replay_events_locked is not `served | log read | rebuild` (without taking the mutex again)"
        # every other path into the rebuild holds the mutex too
        for m in re.finditer(r"\.\s*rebuild_best_effort\(", cont_src):
            if fn_containing(cont_src, m.start()) not in ("replay_events_locked", "load_next_seq_for"):
                return None, f"rebuild_best_effort called from {fn_containing(cont_src, m.start())} (not known to hold the seq mutex)"
        for m in re.finditer(r"\bself\s*\.\s*replay_events_locked\(", cont_src):
            if fn_containing(cont_src, m.start()) not in ("replay_events", "load_next_seq_for"):
                return None, f"replay_events_locked called from {fn_containing(cont_src, m.start())}"
        for m in re.finditer(r"\bself\s*\.\s*load_next_seq_for\(", cont_src):
            f = fn_containing(cont_src, m.start())
            fs = fn_span(cont_src, f) if f else None
            if not fs or not re.search(r"let\s+mut\s+next_seq\s*=\s*self\s*\.\s*next_seq\s*\.\s*lock\(\)", cont_src[fs[0]:m.start()]):
                return None, f"load_next_seq_for called from {f} without the seq mutex"
        locked = True
    sp = fn_span(cache_src, "rebuild_best_effort")
    if not sp:
        return None, "fn rebuild_best_effort not found"
    body = cache_src[sp[0]:sp[1]]
    body = body[:body.find("index_builder.write_best_effort")] if "index_builder.write_best_effort" in body else body
    creates = re.findall(r"File::create\(\s*&(\w+)\s*\)", body)
    if len(creates) != 1 or "OpenOptions" in body or not re.search(r"let\s+path\s*=\s*self\s*\.\s*path_for\(\s*continuity_id\s*\)\s*;", body):
        return None, f"rebuild_best_effort: {len(creates)} File::create calls / the sidecar path is not `self.path_for(continuity_id)`"
    renames = [m.start() for m in re.finditer(r"fs::rename\(\s*&tmp_path\s*,\s*&path\s*\)", body)]
    if creates[0] == "path" and not re.search(r"\brename\b", body):
        atomic = False
    elif creates[0] == "tmp_path" and re.search(r"let\s+tmp_path\s*=\s*path\s*\.\s*with_extension\(", body) and len(renames) == 1 \
            and len(re.findall(r"\brename\(", body)) == 1:
        last_write = max([m.start() for m in re.finditer(r"\.\s*(write_all|flush)\(", body)] or [len(body)])
        if renames[0] < last_write:
            return None, "rebuild_best_effort: the rename does not follow the last write / the flush"
        atomic = True
    else:
        return None, f"rebuild_best_effort: File::create(&{creates[0]}) in an unknown shape"
    return {"atomic": atomic, "locked": locked}, None


# ----------------------------------------------------------------- handlers
FILTER_RE = re.compile(
    r"if\s+last_seq\s*\.map\(\s*\|\s*last\s*\|\s*event\.seq\s*(<=|<|>=|>|==|!=)\s*last\s*\)\s*\.unwrap_or\(\s*(true|false)\s*\)\s*\{\s*return\s+None\s*;\s*\}")


LIVE_FILTER_RE = re.compile(
    r"if\s+last_seq\s*\.map\(\s*\|\s*last\s*\|\s*event\.seq\s*(<=|<|>=|>|==|!=)\s*last\s*\)\s*\.unwrap_or\(\s*(true|false)\s*\)\s*\{\s*continue\s*;\s*\}")


def read_live_frames(src):
    """the shared live half of the three handlers (fn live_frames): filter, own-stream filter, what happens on Lagged"""
    sp = fn_span(src, "live_frames")
    if not sp:
        return None, "fn live_frames not found"
    body = src[sp[0]:sp[1]]
    if len(re.findall(r"\.\s*recv\(\)\s*\.\s*await", body)) != 1:
        return None, "live_frames: not exactly one receiver.recv().await"
    fl = LIVE_FILTER_RE.findall(body)
    if len(fl) == 0:
        if re.search(r"event\.seq\s*(<=|<|>=|>|==|!=)", body):
            return None, "live_frames: filter on event.seq in an unknown shape"
        flt = "FilterNone"
    elif len(fl) == 1:
        op, dflt = fl[0]
        if dflt != "false":
            return None, f"live_frames: live filter with unwrap_or({dflt})"
        flt = {"<=": "FilterGtLast", "<": "FilterGeLast"}.get(op)
        if flt is None:
            return None, f"live_frames: live filter drops `event.seq {op} last` (not modelled)"
    else:
        return None, f"live_frames: {len(fl)} seq filters"
    om = re.search(r"if\s+stream_id\s*\.as_deref\(\)\s*\.is_some_and\(\s*\|\s*id\s*\|\s*event\.session_id\s*!=\s*id\s*\)\s*\{\s*continue\s*;\s*\}", body)
    sm = LIVE_FILTER_RE.search(body)
    own = bool(om) and (not sm or om.start() < sm.start())
    # the frame that goes out is the one that passed the filters, and `last_seq` then names it (running last)
    ret = re.search(r"return\s+Some\(\s*\(\s*frame\s*,", body)
    upd = re.search(r"\blast_seq\s*=\s*Some\(\s*event\.seq\s*\)\s*;", body)
    running = bool(ret and upd and (not sm or sm.end() < upd.start() < ret.start()))
    # Lagged: refill from the history, or skipped
    catch_all = re.search(r"Err\(\s*_\w*\s*\)\s*=>", body)
    arms = list(re.finditer(r"Err\(\s*(?:broadcast::error::|error::)?RecvError::Lagged\(\s*_\w*\s*\)\s*\)\s*=>\s*", body))
    lag = "LagSkip"
    if len(arms) == 1 and not catch_all:
        rest_ = body[arms[0].end():]
        if rest_.startswith("{"):
            arm = rest_[:match_brace(rest_, 0) + 1]
        else:
            arm = rest_[:rest_.find(",") + 1]
        direct = re.fullmatch(r"\{?\s*pending\s*\.\s*extend\(\s*refill\(\)\s*\.\s*await\s*\)\s*[;,]?\s*\}?", arm.strip())
        # `refill()` is asked until it answers (it never waits); what it answers is queued whole
        # (a `#[cfg(rip_verif)] rip_kernel::verif::point("..");` statement is instrumentation: it is not there without the cfg)
        arm_code = re.sub(r"#\[cfg\(rip_verif\)\]\s*rip_kernel::verif::point\(\s*\"[^\"]*\"\s*\)\s*;", "", arm)
        POLL = (r"let\s+history\s*=\s*loop\s*\{\s*if\s+let\s+Some\(\s*history\s*\)\s*=\s*refill\(\)\s*\{\s*break\s+history\s*;\s*\}"
                r"\s*tokio::task::yield_now\(\)\s*\.\s*await\s*;\s*\}\s*;\s*pending\s*\.\s*extend\(\s*history\s*\)\s*;")
        # the WHOLE arm is read: the history is queued and NOTHING else happens - in particular the receiver stays the one
        # that was subscribed before the attach snapshot (subscribe first, snapshot second holds for the re-read as well)
        polled = re.fullmatch(r"\{\s*" + POLL + r"\s*\}", arm_code.strip())
        # ... followed by `receiver = receiver.resubscribe();`: history first, a NEW receiver at the channel's tail second
        resub = re.fullmatch(r"\{\s*" + POLL + r"\s*receiver\s*=\s*receiver\s*\.\s*resubscribe\(\)\s*;\s*\}", arm_code.strip())
        if resub:
            pops = re.search(r"let\s+Some\(\s*event\s*\)\s*=\s*pending\s*\.\s*pop_front\(\)\s*else\s*\{", body)
            push = re.search(r"Ok\(\s*event\s*\)\s*=>\s*pending\s*\.\s*push_back\(\s*event\s*\)", body)
            if pops and push and running and flt == "FilterGtLast":
                lag = "LagRefillResubscribe"
        # the receiver the loop reads is the fn's parameter all along: it is not assigned anywhere else either
        if lag == "LagSkip" and re.search(r"\breceiver\s*=[^=]", re.sub(r"\(\s*mut\s+receiver\b", "(", body)) and not resub:
            direct = polled = None
        if direct or polled:
            # the refilled frames must go through the same filters: they are queued in `pending`, which the loop pops first
            pops = re.search(r"let\s+Some\(\s*event\s*\)\s*=\s*pending\s*\.\s*pop_front\(\)\s*else\s*\{", body)
            push = re.search(r"Ok\(\s*event\s*\)\s*=>\s*pending\s*\.\s*push_back\(\s*event\s*\)", body)
            if pops and push and running and flt == "FilterGtLast":
                lag = "LagRefill"
    return {"filter": flt, "own": own, "lag": lag, "running": running}, None


def read_try_snapshot(src):
    """the handle's non-waiting history read (refill) must read the buffer the attach snapshot reads"""
    a = fn_span(src, "events_snapshot")
    b = fn_span(src, "try_events_snapshot")
    if not a or not b:
        return None, "events_snapshot / try_events_snapshot not found"
    am = re.search(r"self\s*\.\s*(\w+)\s*\.\s*lock\(\)\s*\.\s*await\s*\.\s*clone\(\)", src[a[0]:a[1]])
    body = src[b[0]:b[1]]
    bm = re.search(r"let\s+(\w+)\s*=\s*self\s*\.\s*(\w+)\s*\.\s*try_lock\(\)\s*\.\s*ok\(\)\s*\?\s*;\s*Some\(\s*(\w+)\s*\.\s*clone\(\)\s*\)", body)
    if not am or not bm or bm.group(1) != bm.group(3):
        return None, "events_snapshot / try_events_snapshot in an unknown shape"
    if am.group(1) != bm.group(2):
        return None, f"try_events_snapshot reads `{bm.group(2)}`, events_snapshot reads `{am.group(1)}`"
    return am.group(1), None


def read_handler(src, fname, snap_re, shared_channel=False):
    sp = fn_span(src, fname)
    if not sp:
        return None, f"handler {fname} not found"
    body = src[sp[0]:sp[1]]
    subs = [m.start() for m in re.finditer(r"\.subscribe\(\)", body)]
    snaps = [m.start() for m in re.finditer(snap_re, body)]
    helper = re.search(r"let\s+live_stream\s*=\s*live_frames\(\s*(\w+)\s*,\s*last_seq\s*,\s*([^,]+?)\s*,\s*move\s*\|\|", body)
    # the refill closure re-reads the history: thread: replay_events again; session / task: the handle's
    # try_events_snapshot (checked below to read the same buffer as events_snapshot)
    refill_re = snap_re if shared_channel else r"\.try_events_snapshot\(\)"
    n_snaps = 2 if (helper and shared_channel) else 1
    if len(subs) != 1 or len(snaps) != n_snaps:
        return None, f"{fname}: {len(subs)} subscribe / {len(snaps)} snapshot calls (expected 1 / {n_snaps})"
    so = "SubThenSnap" if subs[0] < snaps[0] else "SnapThenSub"
    # the receiver that is subscribed is the one the live stream reads
    rm = re.search(r"let\s+(\w+)\s*=\s*\w+\.subscribe\(\)\s*;", body)
    if not rm:
        return None, f"{fname}: the subscribed receiver is not bound"
    # history binding and where last_seq comes from
    pm = re.search(r"let\s+past\s*=", body)
    if not pm or not (pm.start() < snaps[0] < pm.start() + 80):
        return None, f"{fname}: the snapshot is not bound to `past`"
    if not re.search(r"let\s+last_seq\s*=\s*past\.last\(\)\.map\(\s*\|\s*event\s*\|\s*event\.seq\s*\)\s*;", body):
        return None, f"{fname}: `let last_seq = past.last().map(|event| event.seq);` not found"
    if not re.search(r"tokio_stream::iter\(\s*past\s*\)", body):
        return None, f"{fname}: the history is not replayed with tokio_stream::iter(past)"
    if not re.search(r"let\s+stream\s*=\s*past_stream\.chain\(\s*live_stream\s*\)\s*;", body) or not re.search(r"Sse::new\(\s*stream\s*\)", body):
        return None, f"{fname}: body is not Sse::new(past_stream.chain(live_stream))"
    if helper:
        # ---- the live half is fn live_frames(receiver, last_seq, stream id, refill)
        if helper.group(1) != rm.group(1):
            return None, f"{fname}: the receiver handed to live_frames is not the subscribed one"
        lf, why = read_live_frames(src)
        if lf is None:
            return None, why
        sid = helper.group(2).strip()
        if shared_channel:
            if sid != "Some(thread_id.clone())" or not lf["own"]:
                return None, f"{fname}: shared channel but live_frames is not given the thread id / does not drop other streams' frames first"
            if not re.search(r"Path\(\s*thread_id\s*\)", src[sp[0] - 400:sp[0]]):
                return None, f"{fname}: thread_id is not the path parameter"
        elif sid != "None":
            return None, f"{fname}: live_frames is given a stream id `{sid}` on a private channel"
        # the refill closure re-reads the SAME history source as the attach snapshot
        clos = body[helper.end():]
        clos = clos[:clos.find("});") if clos.find("});") >= 0 else len(clos)]
        if len(re.findall(refill_re, clos)) != 1 or len(re.findall(refill_re, body)) != (2 if shared_channel else 1):
            return None, f"{fname}: the refill closure does not re-read the history of the attach snapshot's source"
        hm = re.search(r"(\w+)\s*" + refill_re, clos)
        am = re.search(r"(\w+)\s*" + snap_re, body)
        if not hm or not am or hm.group(1) != am.group(1):
            return None, f"{fname}: the refill closure reads another object than the attach snapshot"
        return {"sorder": so, "filter": lf["filter"], "lag_swallowed": lf["lag"] != "LagRefill", "lag": lf["lag"], "own_filter": shared_channel}, None
    # ---- the live half is written out in the handler (BroadcastStream + filter_map)
    if not re.search(r"BroadcastStream::new\(\s*" + rm.group(1) + r"\s*\)", body):
        return None, f"{fname}: the subscribed receiver is not the one wrapped in BroadcastStream::new"
    if not re.search(r"let\s+last_seq_live\s*=\s*last_seq\s*;", body) or not re.search(r"let\s+last_seq\s*=\s*last_seq_live\s*;", body):
        return None, f"{fname}: the live filter's last_seq is not the history's last_seq"
    live = body[body.find("BroadcastStream::new("):]
    fl = FILTER_RE.findall(live)
    if len(fl) == 0:
        if "last_seq" in live.replace("last_seq_live", ""):
            # last_seq is used in some other shape
            if re.search(r"event\.seq", live):
                return None, f"{fname}: live filter on event.seq in an unknown shape"
        flt = "FilterNone"
    elif len(fl) == 1:
        op, dflt = fl[0]
        if dflt != "false":
            return None, f"{fname}: live filter with unwrap_or({dflt})"
        # the expression is the DROP condition:  drop seq <= last  <=>  keep seq > last
        flt = {"<=": "FilterGtLast", "<": "FilterGeLast"}.get(op)
        if flt is None:
            return None, f"{fname}: live filter drops `event.seq {op} last` (not modelled)"
    else:
        return None, f"{fname}: {len(fl)} seq filters in the live stream"
    # a channel shared by several streams (continuity channel: all threads): the live stream must drop the frames
    # of other streams BEFORE anything else (model: `own`)
    if shared_channel:
        om = re.search(r"if\s+event\.session_id\s*!=\s*thread_id\s*\{\s*return\s+None\s*;\s*\}", live)
        sm = FILTER_RE.search(live)
        if not om or (sm and om.start() > sm.start()):
            return None, f"{fname}: shared channel but no `if event.session_id != thread_id {{ return None; }}` before the seq filter"
        if not re.search(r"let\s+thread_id_live\s*=\s*thread_id\.clone\(\)\s*;", body) or not re.search(r"let\s+thread_id\s*=\s*thread_id_live\.clone\(\)\s*;", live):
            return None, f"{fname}: the id the live filter compares with is not the requested thread id"
    # a lagged receiver is skipped silently (model: LagSkip; NoLag hypothesis / c06_lag_refuted)
    lag_swallowed = bool(re.search(r"Err\(_\)\s*=>\s*None", live))
    return {"sorder": so, "filter": flt, "lag_swallowed": lag_swallowed, "lag": "LagSkip", "own_filter": shared_channel}, None


# ----------------------------------------------------------------- generate
KINDS = [
    # (code, name, producer file, handler fn, snapshot regex, capacity file)
    (0, "session", "crates/ripd/src/session.rs", "stream_events", r"\.events_snapshot\(\)", "crates/ripd/src/runner.rs"),
    (1, "task", "crates/ripd/src/tasks/mod.rs", "stream_task_events", r"\.events_snapshot\(\)", "crates/ripd/src/tasks/mod.rs"),
    (2, "thread", "crates/ripd/src/continuities.rs", "thread_stream_events", r"\.replay_events\(", "crates/ripd/src/continuities.rs"),
]


def read_src(repo, rel):
    p = os.path.join(repo, rel)
    if not os.path.exists(p):
        return None
    return cut_tests(strip_comments(open(p).read()))


def extract(repo):
    notes, ok, rows = [], True, []
    server = read_src(repo, "crates/ripd/src/server.rs")
    for code, name, pfile, hfn, snap_re, capfile in KINDS:
        psrc = read_src(repo, pfile)
        prod, why = None, f"{pfile} not found"
        if psrc is not None:
            if name == "session":
                prod, why = read_buffer_emitter(psrc, "emit_event", r"\bsender\s*\.send\(")
            elif name == "task":
                prod, why = read_buffer_emitter(psrc, "emit", r"\bself\.sender\s*\.send\(", impl="TaskEmitter")
            else:
                prod, why = read_thread_producers(psrc)
        if prod is None:
            ok = False
            notes.append(f"{name} producer: {why}")
        # the span of the seq mutex where several producers share one emitter
        span, span_note = "SpanEmit", "one sequential producer (run_session emits in program order)"
        if name == "task" and psrc is not None:
            span, why_s = read_seq_lock_span(psrc, "emit", "TaskEmitter", r"self\.seq\.lock\(\)\.await", r"\bself\.sender\s*\.send\(")
            span_note = "guard of self.seq in TaskEmitter::emit"
            if span is None:
                ok = False
                notes.append(f"task seq mutex: {why_s}")
                span = "SpanCounter"
        elif name == "session" and psrc is not None:
            # one producer: the session's seq is a `&mut u64` threaded through sequential code; any construct that could
            # run two emitters of one session concurrently makes the claim unreadable (fails closed)
            conc = re.findall(r"tokio::spawn\(|\bjoin!\s*\(|\bselect!\s*[\({]|FuturesUnordered|join_all\(|JoinSet", psrc)
            if conc:
                ok = False
                notes.append(f"session: concurrency construct(s) {sorted(set(conc))} in session.rs: single-producer claim not readable")
                span = "SpanCounter"
            span_note = "one sequential producer (no spawn/join/select in session.rs; seq is a &mut u64 in run_session)"
        elif name == "thread" and prod is not None:
            span = prod["thread_span"]
            narrowed = [n for n, sp in prod["site_spans"] if sp != "SpanEmit"]
            span_note = "next_seq guard bound at the top level before the log append and alive at the publish in every append" + (f"; NOT in {narrowed}" if narrowed else "")
        elif name == "thread":
            span_note = "unreadable"
        if prod is not None:
            prod["span"] = span
            prod["span_note"] = span_note
        hand, why = (None, "server.rs not found") if server is None else read_handler(server, hfn, snap_re, shared_channel=(name == "thread"))
        if hand is None:
            ok = False
            notes.append(f"{name} handler: {why}")
        csrc = read_src(repo, capfile)
        if hand is not None and hand.get("lag") == "LagRefill" and name != "thread":
            buf_name, why_t = read_try_snapshot(csrc) if csrc else (None, f"{capfile} not found")
            if buf_name is None:
                ok = False
                notes.append(f"{name} refill: {why_t}")
                hand["lag"] = "LagSkip"
        cap = const_value(csrc, "EVENT_CHANNEL_CAPACITY") if csrc else None
        if cap is None:
            ok = False
            notes.append(f"{name}: EVENT_CHANNEL_CAPACITY not found in {capfile}")
        rows.append((code, name, prod, hand, cap))
    return ok, notes, rows


def extract_more(repo):
    """(buffer ops result | None, replay check | None, notes)"""
    notes = []
    root = os.path.join(repo, "crates/ripd/src")
    files = []
    for d, _, fs in sorted(os.walk(root)):
        for f in sorted(fs):
            if f.endswith(".rs"):
                rel = os.path.relpath(os.path.join(d, f), repo)
                src = read_src(repo, rel)
                if src is not None:
                    files.append((rel, src))
    buf, why = read_buffer_ops(files) if files else (None, "crates/ripd/src not found")
    if buf is None:
        notes.append(f"history buffer: {why}")
    else:
        want = {"crates/ripd/src/session.rs": 1, "crates/ripd/src/tasks/mod.rs": 1}
        for rel, n in sorted(buf["pushes"].items()):
            if n != want.get(rel, 0):
                notes.append(f"history buffer: {n} push statement(s) in {rel} (expected {want.get(rel, 0)}: the emitter's)")
                buf = None
                break
    cache = read_src(repo, "crates/ripd/src/continuity_stream_cache.rs")
    cont = read_src(repo, "crates/ripd/src/continuities.rs")
    rep, why = (None, "continuity_stream_cache.rs / continuities.rs not found") if cache is None or cont is None else read_replay_check(cache, cont)
    if rep is None:
        notes.append(f"thread history source: {why}")
    return buf, rep, notes


def generate(repo):
    ok, notes, rows = extract(repo)
    L = []
    L.append("(* GENERATED by tools/gen/stream_order.py from crates/ripd/src/{session,tasks/mod,continuities,server,runner}.rs")
    L.append("   on every ./check run -- do not edit.  A committed copy serves as seed only. *)")
    L.append("From RipV Require Import Base.Prelude Model.Subscribe.")
    L.append("")
    L.append(f"Definition gen_ok_stream_order : bool := {'true' if ok else 'false'}.")
    for n in notes:
        L.append("(* extractor: " + n.replace("*)", "* )").replace("(*", "( *") + " *)")
    L.append("")
    names = []
    for code, name, prod, hand, cap in rows:
        # never guess: an unreadable construct gets the value that does NOT satisfy wf_kind
        po = prod["order"] if prod else "PubThenRec"
        so = hand["sorder"] if hand else "SnapThenSub"
        fl = hand["filter"] if hand else "FilterNone"
        detail = ""
        if prod and "sites" in prod:
            detail = "; publish sites: " + ", ".join(f"{n}={o}" for n, o in prod["sites"])
        if prod and "buffer" in prod:
            detail = f"; history buffer = {prod['buffer']}"
        lag = f"; lagged receiver skipped silently = {hand['lag_swallowed']}" if hand else ""
        if hand and hand.get("own_filter"):
            lag += "; shared channel, frames of other streams dropped by session_id" 
        spn = f"; seq mutex span: {prod['span']} ({prod['span_note']})" if prod else ""
        L.append(f"(* {name}: producer {po}{detail}{spn}; handler {so}, live filter {fl}{lag} *)")
        L.append(f"Definition gen_kind_{name} : kind_orders :=")
        sp = prod["span"] if prod else "SpanCounter"
        L.append(f"  {{| k_name := {code}; k_p := {po}; k_s := {so}; k_f := {fl}; k_cap := {cap or 0}; k_span := {sp} |}}.")
        names.append(f"gen_kind_{name}")
    L.append("")
    L.append("Definition gen_kinds : list kind_orders := [" + "; ".join(names) + "].")
    L.append("")
    L.append("Lemma gen_stream_order_found : gen_ok_stream_order = true.")
    L.append("Proof. vm_compute. reflexivity. Qed.")
    L.append("Lemma gen_stream_order_ok : wf_kinds gen_kinds = true.")
    L.append("Proof. vm_compute. reflexivity. Qed.")
    # ---- what each handler does when its receiver lagged
    L.append("")
    L.append("(* what the live half of each handler does on RecvError::Lagged: LagRefill = re-read the history and carry on after")
    L.append("   the last seq delivered (fn live_frames, running `last_seq`), LagSkip = carry on with what the channel still holds *)")
    pols = [(hand["lag"] if hand else "LagSkip") for _, _, _, hand, _ in rows]
    L.append("Definition gen_lag_policy : list lagpolicy := [" + "; ".join(pols) + "].")
    L.append("Lemma gen_lag_policy_ok : forallb lag_refills gen_lag_policy = true.")
    L.append("Proof. vm_compute. reflexivity. Qed.")
    L.append("Lemma gen_lag_policy_all : length gen_lag_policy = 3%nat.")
    L.append("Proof. vm_compute. reflexivity. Qed.")
    # ---- the history buffers are only ever pushed to (c06_history_monotone) / the thread handler's history source
    buf, rep, notes2 = extract_more(repo)
    cm = lambda t: t.replace("*)", "* )").replace("(*", "( *")
    L.append("")
    L.append("(* every statement of crates/ripd/src that reaches a stream history buffer (Arc<Mutex<Vec<Event>>>) through its lock,")
    L.append("   the emitters' push excepted: what it does to the buffer *)")
    L.append(f"Definition gen_ok_buffer_ops : bool := {'true' if buf is not None else 'false'}.")
    for n in notes2:
        L.append("(* extractor: " + cm(n) + " *)")
    if buf is not None:
        for rel, fname, op, snip in buf["ops"]:
            L.append(f"(* {rel}::{fname}: {op}   `{cm(' '.join(snip.split()))}` *)")
        L.append("Definition gen_buffer_ops : list bufop := [" + "; ".join(op for _, _, op, _ in buf["ops"]) + "].")
    else:
        # never guess: the value that does NOT satisfy buffer_ops_ok
        L.append("Definition gen_buffer_ops : list bufop := [BClear].")
    L.append("Lemma gen_buffer_ops_found : gen_ok_buffer_ops = true.")
    L.append("Proof. vm_compute. reflexivity. Qed.")
    L.append("Lemma gen_buffer_ops_ok : buffer_ops_ok gen_buffer_ops = true.")
    L.append("Proof. vm_compute. reflexivity. Qed.")
    L.append("")
    L.append("(* ContinuityStore::replay_events (the thread handler's snapshot) = the sidecar when try_replay accepts it, else the log;")
    L.append("   try_replay: first expected seq, and the comparison / update of the running counter *)")
    L.append(f"Definition gen_ok_replay_check : bool := {'true' if rep is not None else 'false'}.")
    if rep is not None:
        L.append(f"Definition gen_replay_check : replay_check := {{| r_first := {rep['first']}; r_cmp := {rep['cmp']} |}}.")
    else:
        L.append("Definition gen_replay_check : replay_check := {| r_first := 1; r_cmp := SeqIncreasing |}.")
    L.append("Lemma gen_replay_check_found : gen_ok_replay_check = true.")
    L.append("Proof. vm_compute. reflexivity. Qed.")
    L.append("Lemma gen_replay_check_ok : replay_ok gen_replay_check = true.")
    L.append("Proof. vm_compute. reflexivity. Qed.")
    L.append("")
    L.append("(* the discipline of the sidecar rebuild a refused try_replay leads to (ContinuityStore::replay_events /")
    L.append("   ContinuityStreamCache::rebuild_best_effort): rd_locked = log read + rebuild under the writers' seq mutex,")
    L.append("   rd_atomic = temporary file renamed over the sidecar (not a rewrite in place) *)")
    if rep is not None:
        L.append(f"Definition gen_rebuild_disc : rdisc := {{| rd_atomic := {'true' if rep['atomic'] else 'false'}; rd_locked := {'true' if rep['locked'] else 'false'} |}}.")
    else:
        L.append("Definition gen_rebuild_disc : rdisc := {| rd_atomic := false; rd_locked := false |}.")
    L.append("Lemma gen_rebuild_disc_ok : gen_ok_replay_check && rdisc_ok gen_rebuild_disc = true.")
    L.append("Proof. vm_compute. reflexivity. Qed.")
    notes = notes + notes2
    return "\n".join(L) + "\n", ok and buf is not None and rep is not None, notes, rows, buf, rep


# ----------------------------------------------------------------- self-test
ST_EMIT = r'''
async fn emit_event(event: Event, sender: &broadcast::Sender<Event>, buffer: &Arc<Mutex<Vec<Event>>>, event_log: &EventLog) {
    %A%
    %B%
    let _ = event_log.append(&event);
}
'''
ST_PUB = "let _ = sender.send(event.clone());"
ST_REC = "let mut guard = buffer.lock().await;\n    guard.push(event.clone());"
ST_HANDLER = r'''
async fn stream_events(Path(session_id): Path<String>, State(state): State<AppState>) -> impl IntoResponse {
    %S1%
    %S2%
    let last_seq = past.last().map(|event| event.seq);
    let past_stream = tokio_stream::iter(past).filter_map(|event| async move { None });
    let last_seq_live = last_seq;
    let live_stream = BroadcastStream::new(receiver).filter_map(move |result| {
        let last_seq = last_seq_live;
        async move {
            match result {
                Ok(event) => {
                    if last_seq.map(|last| event.seq %OP% last).unwrap_or(false) {
                        return None;
                    }
                    Some(x)
                }
                Err(_) => None,
            }
        }
    });
    let stream = past_stream.chain(live_stream);
    Sse::new(stream).into_response()
}
'''
ST_SUB = "let receiver = handle.subscribe();"
ST_SNAP = "let past = handle.events_snapshot().await;"


def selftest():
    a, _ = read_buffer_emitter(ST_EMIT.replace("%A%", ST_PUB).replace("%B%", ST_REC), "emit_event", r"\bsender\s*\.send\(")
    b, _ = read_buffer_emitter(ST_EMIT.replace("%A%", ST_REC).replace("%B%", ST_PUB), "emit_event", r"\bsender\s*\.send\(")
    c, why = read_buffer_emitter(ST_EMIT.replace("%A%", ST_REC).replace("%B%", ST_PUB + ST_PUB), "emit_event", r"\bsender\s*\.send\(")
    assert a and a["order"] == "PubThenRec", a
    assert b and b["order"] == "RecThenPub", b
    assert c is None and "publish" in why, (c, why)
    h = lambda s1, s2, op: read_handler(ST_HANDLER.replace("%S1%", s1).replace("%S2%", s2).replace("%OP%", op), "stream_events", r"\.events_snapshot\(\)")
    d, _ = h(ST_SUB, ST_SNAP, "<=")
    e, _ = h(ST_SNAP, ST_SUB, "<=")
    f, _ = h(ST_SUB, ST_SNAP, "<")
    g, why = h(ST_SUB, ST_SNAP, "==")
    assert d == {"sorder": "SubThenSnap", "filter": "FilterGtLast", "lag_swallowed": True, "lag": "LagSkip", "own_filter": False}, d
    k, why_k = read_handler(ST_HANDLER.replace("%S1%", ST_SUB).replace("%S2%", ST_SNAP).replace("%OP%", "<="), "stream_events", r"\.events_snapshot\(\)", shared_channel=True)
    assert k is None and "shared channel" in why_k, (k, why_k)
    assert e and e["sorder"] == "SnapThenSub", e
    assert f and f["filter"] == "FilterGeLast", f
    assert g is None and "not modelled" in why, (g, why)
    t_ok = "impl S { fn append_x(&self) { self.event_log.append(&event).map_err(|e| e)?; self.stream_cache.append_best_effort(&event); let _ = self.sender.send(event.clone()); } }"
    t_bad = "impl S { fn append_x(&self) { self.event_log.append(&event).map_err(|e| e)?; let _ = self.sender.send(event.clone()); self.stream_cache.append_best_effort(&event); } }"
    i, _ = read_thread_producers(t_ok)
    j, _ = read_thread_producers(t_bad)
    assert i and i["order"] == "RecThenPub" and j and j["order"] == "PubThenRec", (i, j)
    assert i["thread_span"] == "SpanCounter", i   # no next_seq guard at all in the toy
    t_lock = "impl S { fn append_x(&self) { let mut next_seq = self.next_seq.lock().expect(\"m\"); self.event_log.append(&event).map_err(|e| e)?; self.stream_cache.append_best_effort(&event); let _ = self.sender.send(event.clone()); next_seq.insert(k, 1); } }"
    t_narrow = "impl S { fn append_x(&self) { let seq = { let mut next_seq = self.next_seq.lock().expect(\"m\"); 1 }; self.event_log.append(&event).map_err(|e| e)?; self.stream_cache.append_best_effort(&event); let _ = self.sender.send(event.clone()); } }"
    assert read_thread_producers(t_lock)[0]["thread_span"] == "SpanEmit"
    assert read_thread_producers(t_narrow)[0]["thread_span"] == "SpanCounter"
    emit_whole = "impl TaskEmitter { async fn emit(&self, kind: EventKind) { let mut seq = self.seq.lock().await; let event = Event { seq: *seq, kind }; *seq += 1; let mut guard = self.events.lock().await; guard.push(event.clone()); let _ = self.sender.send(event.clone()); } }"
    emit_narrow = "impl TaskEmitter { async fn emit(&self, kind: EventKind) { let seq = { let mut next = self.seq.lock().await; let seq = *next; *next += 1; seq }; let event = Event { seq, kind }; let mut guard = self.events.lock().await; guard.push(event.clone()); let _ = self.sender.send(event.clone()); } }"
    emit_drop = emit_whole.replace("*seq += 1;", "*seq += 1; drop(seq);")
    args = ("emit", "TaskEmitter", r"self\.seq\.lock\(\)\.await", r"\bself\.sender\s*\.send\(")
    assert read_seq_lock_span(emit_whole, *args)[0] == "SpanEmit"
    assert read_seq_lock_span(emit_narrow, *args)[0] == "SpanCounter"
    assert read_seq_lock_span(emit_drop, *args)[0] == "SpanCounter"
    # history buffer statements
    decl = "struct H { events: Arc<Mutex<Vec<Event>>> }\n"
    tail_ok = decl + "async fn run(events: &X) { let guard = events.lock().await; let r = guard.iter().rev().count(); let _ = write_snapshot(&d, &id, &guard); drop(guard); }"
    tail_take = decl + "async fn run(events: &X) { let frames = std::mem::take(&mut *events.lock().await); let _ = write_snapshot(&d, &id, &frames); *events.lock().await = frames; }"
    tail_clear = decl + "async fn run(events: &X) { let mut guard = events.lock().await; let _ = write_snapshot(&d, &id, &guard); guard.clear(); }"
    tail_new = decl + "async fn run(events: &X) { *events.lock().await = Vec::new(); }"
    tail_odd = decl + "async fn run(events: &X) { let mut guard = events.lock().await; guard.rotate_left(1); }"
    emit = decl + "async fn emit(events: &X) { let mut guard = events.lock().await; guard.push(event.clone()); }"
    ops = lambda src: [o for _, _, o, _ in read_buffer_ops([("f.rs", src)])[0]["ops"]]
    assert ops(tail_ok) == ["BRead", "BRead"], ops(tail_ok)
    assert ops(tail_take) == ["BTake", "BRestore"], ops(tail_take)
    assert ops(tail_clear) == ["BRead", "BClear"], ops(tail_clear)
    assert ops(tail_new) == ["BClear"], ops(tail_new)
    assert read_buffer_ops([("f.rs", tail_odd)])[0] is None
    assert read_buffer_ops([("f.rs", emit)])[0] == {"ops": [], "pushes": {"f.rs": 1}}
    # try_replay
    cont = "impl S { pub fn replay_events(&self, continuity_id: &str) -> io::Result<Vec<Event>> { if let Ok(Some(events)) = self.stream_cache.try_replay(continuity_id) { return Ok(events); } let events = self.event_log.replay_stream(StreamKind::Continuity, continuity_id)?; if !events.is_empty() { self.stream_cache.rebuild_best_effort(continuity_id, &events); } Ok(events) } }"
    tr = "impl C { fn try_replay(&self, id: &str) -> io::Result<Option<Vec<Event>>> { let mut events = Vec::new(); let mut expected_seq: u64 = %F%; for line in r.lines() { if event.seq %OP% expected_seq { return Err(e); } expected_seq = %UP%; events.push(event); } if events.is_empty() { return Err(e); } Ok(Some(events)) } fn rebuild_best_effort(&self, continuity_id: &str, events: &[Event]) { let path = self.path_for(continuity_id); let Ok(file) = File::create(&path) else { return; }; let mut writer = BufWriter::new(file); let _ = writer.write_all(b); let _ = writer.flush(); } }"
    mk = lambda f, op, up: read_replay_check(tr.replace("%F%", f).replace("%OP%", op).replace("%UP%", up), cont)
    assert mk("0", "!=", "expected_seq.saturating_add(1)")[0] == {"first": 0, "cmp": "SeqExact", "atomic": False, "locked": False}
    assert mk("0", "<", "event.seq.saturating_add(1)")[0] == {"first": 0, "cmp": "SeqIncreasing", "atomic": False, "locked": False}
    assert mk("1", "!=", "expected_seq.saturating_add(1)")[0] == {"first": 1, "cmp": "SeqExact", "atomic": False, "locked": False}
    assert mk("0", "<", "expected_seq.saturating_add(1)")[0] is None
    assert mk("0", ">", "event.seq + 1")[0] is None
    assert read_replay_check(tr.replace("%F%", "0").replace("%OP%", "!=").replace("%UP%", "expected_seq + 1"), cont.replace("return Ok(events);", "let _ = events;"))[0] is None
    # the rebuild discipline
    tr0 = tr.replace("%F%", "0").replace("%OP%", "!=").replace("%UP%", "expected_seq + 1")
    cont2 = ("impl S { pub fn replay_events(&self, continuity_id: &str) -> io::Result<Vec<Event>> { if let Ok(Some(events)) = self.stream_cache.try_replay(continuity_id) { return Ok(events); } "
             "let _writers_excluded = self.next_seq.lock().expect(\"m\"); self.replay_events_locked(continuity_id) } "
             "fn replay_events_locked(&self, continuity_id: &str) -> io::Result<Vec<Event>> { if let Ok(Some(events)) = self.stream_cache.try_replay(continuity_id) { return Ok(events); } "
             "let events = self.event_log.replay_stream(StreamKind::Continuity, continuity_id)?; if !events.is_empty() { self.stream_cache.rebuild_best_effort(continuity_id, &events); } Ok(events) } "
             "fn append_x(&self, continuity_id: &str) { let mut next_seq = self.next_seq.lock().expect(\"m\"); let seq = self.load_next_seq_for(continuity_id); } "
             "fn load_next_seq_for(&self, continuity_id: &str) { self.stream_cache.rebuild_best_effort(continuity_id, &events); let events = self.replay_events_locked(continuity_id)?; } }")
    tr_tmp = tr0.replace("let Ok(file) = File::create(&path) else { return; };", "let tmp_path = path.with_extension(\"jsonl.tmp\"); let Ok(file) = File::create(&tmp_path) else { return; };").replace("let _ = writer.flush(); }", "let _ = writer.flush(); if !complete || fs::rename(&tmp_path, &path).is_err() { return; } }")
    d = lambda a, b: (lambda r: None if r[0] is None else (r[0]["atomic"], r[0]["locked"]))(read_replay_check(a, b))
    assert d(tr0, cont) == (False, False) and d(tr_tmp, cont) == (True, False) and d(tr0, cont2) == (False, True) and d(tr_tmp, cont2) == (True, True)
    assert d(tr_tmp, cont2.replace("let _writers_excluded =", "let _ =")) is None            # the guard is dropped at once
    assert d(tr_tmp, cont2.replace("fn append_x(&self, continuity_id: &str) { let mut next_seq = self.next_seq.lock().expect(\"m\");", "fn append_x(&self, continuity_id: &str) {")) is None
    assert d(tr_tmp.replace("fs::rename(&tmp_path, &path)", "fs::rename(&path, &tmp_path)"), cont2) is None
    assert d(tr_tmp.replace("let _ = writer.flush(); if !complete || fs::rename(&tmp_path, &path).is_err() { return; }", "if !complete || fs::rename(&tmp_path, &path).is_err() { return; } let _ = writer.flush();"), cont2) is None
    # live_frames (the repaired live half)
    lf = """fn live_frames<F, Fut>(receiver: R, last_seq: Option<u64>, stream_id: Option<String>, refill: F) -> impl Stream {
        futures_util::stream::unfold((receiver, last_seq, pending, stream_id, refill), |(mut receiver, mut last_seq, mut pending, stream_id, refill)| async move {
            loop {
                let Some(event) = pending.pop_front() else {
                    match receiver.recv().await {
                        Ok(event) => pending.push_back(event),
                        %LAG%
                        Err(broadcast::error::RecvError::Closed) => return None,
                    }
                    continue;
                };
                if stream_id.as_deref().is_some_and(|id| event.session_id != id) { continue; }
                if last_seq.map(|last| event.seq %OP% last).unwrap_or(false) { continue; }
                let Ok(json) = serde_json::to_string(&event) else { continue; };
                %UPD%
                let frame = Ok::<SseEvent, Infallible>(SseEvent::default().data(json));
                return Some((frame, (receiver, last_seq, pending, stream_id, refill)));
            }
        })
    }"""
    LAG = "Err(broadcast::error::RecvError::Lagged(_)) => { pending.extend(refill().await); }"
    UPD = "last_seq = Some(event.seq);"
    mkl = lambda lag, op, upd: read_live_frames(lf.replace("%LAG%", lag).replace("%OP%", op).replace("%UPD%", upd))[0]
    assert mkl(LAG, "<=", UPD) == {"filter": "FilterGtLast", "own": True, "lag": "LagRefill", "running": True}
    assert mkl("Err(broadcast::error::RecvError::Lagged(_)) => {}", "<=", UPD)["lag"] == "LagSkip"
    assert mkl("Err(broadcast::error::RecvError::Lagged(_)) => continue,", "<=", UPD)["lag"] == "LagSkip"
    assert mkl(LAG, "<=", "")["lag"] == "LagSkip"          # refill without the running last_seq would duplicate
    assert mkl(LAG, "<", UPD) == {"filter": "FilterGeLast", "own": True, "lag": "LagSkip", "running": True}
    LAG2 = "Err(broadcast::error::RecvError::Lagged(_)) => { let history = loop { if let Some(history) = refill() { break history; } tokio::task::yield_now().await; }; pending.extend(history); }"
    assert mkl(LAG2, "<=", UPD)["lag"] == "LagRefill"
    assert mkl(LAG2.replace("pending.extend(history);", "drop(history);"), "<=", UPD)["lag"] == "LagSkip"
    LAG3 = LAG2.replace("break history;", '#[cfg(rip_verif)] rip_kernel::verif::point("sse.live.refilled"); break history;')
    assert mkl(LAG3, "<=", UPD)["lag"] == "LagRefill"
    assert mkl(LAG3.replace("pending.extend(history);", "pending.extend(history); receiver = receiver.resubscribe();"), "<=", UPD)["lag"] == "LagRefillResubscribe"
    assert mkl(LAG2.replace("pending.extend(history);", "pending.extend(history); receiver = receiver.resubscribe();"), "<=", UPD)["lag"] == "LagRefillResubscribe"
    assert mkl(LAG2.replace("pending.extend(history);", "pending.extend(history); pending.clear();"), "<=", UPD)["lag"] == "LagSkip"
    hs = "impl H { pub(crate) async fn events_snapshot(&self) -> Vec<Event> { self.events.lock().await.clone() } pub(crate) fn try_events_snapshot(&self) -> Option<Vec<Event>> { let events = self.%B%.try_lock().ok()?; Some(events.clone()) } }"
    assert read_try_snapshot(hs.replace("%B%", "events"))[0] == "events"
    assert read_try_snapshot(hs.replace("%B%", "other"))[0] is None
    assert ops(decl + "fn t(&self) -> Option<Vec<Event>> { let events = self.events.try_lock().ok()?; Some(events.clone()) }") == ["BRead"]
    print("stream_order.py selftest ok")


def main():
    ap = argparse.ArgumentParser()
    ap.add_argument("--repo", default="/repo")
    ap.add_argument("--out", default=None)
    ap.add_argument("--selftest", action="store_true")
    a = ap.parse_args()
    if a.selftest:
        selftest()
        return 0
    text, ok, notes, rows, buf, rep = generate(a.repo)
    out = os.path.join(a.out or ".", "StreamOrder.v")
    old = open(out).read() if os.path.exists(out) else None
    if old != text:
        with open(out, "w") as f:
            f.write(text)
    for code, name, prod, hand, cap in rows:
        print(f"stream_order: {name}: producer={prod['order'] if prod else '?'} span={prod['span'] if prod else '?'} handler={hand['sorder'] if hand else '?'} "
              f"filter={hand['filter'] if hand else '?'} lagged={hand['lag'] if hand else '?'} cap={cap}")
    if buf is not None:
        kinds = {}
        for _, _, op, _ in buf["ops"]:
            kinds[op] = kinds.get(op, 0) + 1
        print("stream_order: history buffer statements:", ", ".join(f"{k} x{v}" for k, v in sorted(kinds.items())), "; pushes:", {k: v for k, v in buf["pushes"].items() if v})
    if rep is not None:
        print(f"stream_order: thread history source: try_replay first={rep['first']} check={rep['cmp']}; sidecar rebuild: atomic={rep['atomic']} locked={rep['locked']}")
    for n in notes:
        print("stream_order: NOT FOUND:", n)
    # rc 0 even when a construct is missing: the failed obligation gen_stream_order_found reports it
    return 0


if __name__ == "__main__":
    sys.exit(main())
