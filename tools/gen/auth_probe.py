#!/usr/bin/env python3
"""T1 extractor for C18: the classification table of the liveness probe

    crates/ripd/src/local_authority.rs   pub fn pid_liveness(pid: u32) -> PidLiveness

`kill(pid as i32, SIGNAL)`; `if result == 0 { return PidLiveness::X; }`; `match std::io::Error::last_os_error()
.raw_os_error() { Some(ERRNO) => PidLiveness::Y, ..., _ => PidLiveness::Z }` with the errno names resolved through the
`const NAME: i32 = n;` items of the function.  Writes coq/Gen/AuthProbe.v: gen_probe_table : ptable and the obligation
gen_probe_ok : probe_wf gen_probe_table = true (Model/AuthorityProbe.v: signal 0; only ESRCH is classified Dead; ESRCH is;
success and EPERM are Alive).

Pattern based; anything it does not recognise (a guard on an arm, a binding pattern, another `PidLiveness::` literal in
the unix part of the function, a second kill call) makes gen_probe_found false — it never guesses.  `#[cfg(rip_verif)]`
hook statements and comments are ignored; the `#[cfg(not(unix))]` block is not part of the table.
Usage: auth_probe.py --repo /repo --out coq/Gen"""
import re, sys, os, argparse


def strip(src):
    src = re.sub(r"//[^\n]*", "", src)
    # verification hook: attribute + the single statement / `if let .. { .. }` block that follows it
    src = re.sub(r"#\[cfg\(rip_verif\)\]\s*if\s+let[^{]*\{[^{}]*\}", "", src)
    src = re.sub(r"#\[cfg\(rip_verif\)\]\s*[^;{]*;", "", src)
    return src


def match_brace(src, i):
    depth = 0
    j = i
    while j < len(src):
        if src[j] == "{":
            depth += 1
        elif src[j] == "}":
            depth -= 1
            if depth == 0:
                return j
        j += 1
    return -1


def block_after(src, m):
    """the `{...}` block that starts at the first `{` at or after m.end()-1"""
    if not m:
        return None
    i = src.find("{", m.end() - 1)
    j = match_brace(src, i) if i >= 0 else -1
    return src[i + 1:j] if j >= 0 else None


LV = {"Alive": "LvAlive", "Dead": "LvDead", "Unknown": "LvUnknown"}


def extract(src):
    """-> (table dict, problems)"""
    probs = []
    t = {"signal": 99, "ok": "LvDead", "arms": [], "default": "LvDead"}
    m = re.search(r"\bpub\s+fn\s+pid_liveness\s*\(\s*pid\s*:\s*u32\s*\)\s*->\s*PidLiveness\s*\{", src)
    body = block_after(src, m)
    if body is None:
        return t, ["fn pid_liveness"]
    um = re.search(r"#\[cfg\(unix\)\]\s*\{", body)
    unix = block_after(body, um)
    if unix is None:
        return t, ["#[cfg(unix)] block of pid_liveness"]
    # everything of the function outside the unix block and the not(unix) block must be free of liveness literals
    nm = re.search(r"#\[cfg\(not\(unix\)\)\]\s*\{", body)
    notunix = block_after(body, nm) or ""
    rest = body.replace(unix, "", 1).replace(notunix, "", 1)
    if "PidLiveness::" in rest:
        probs.append("a PidLiveness:: literal outside the cfg blocks of pid_liveness")
    consts = {k: int(v) for k, v in re.findall(r"const\s+([A-Z_0-9]+)\s*:\s*(?:c_int|i32)\s*=\s*(-?\d+)\s*;", unix)}
    # the system call
    calls = re.findall(r"\bkill\s*\(\s*([^,()]+?)\s*,\s*([A-Za-z_0-9]+)\s*\)", re.sub(r"fn\s+kill\s*\([^)]*\)", "", unix))
    if len(calls) != 1:
        probs.append("exactly one kill(..) call (found %d)" % len(calls))
    else:
        target, sig = calls[0]
        if target != "pid as i32":
            probs.append("kill target `%s`" % target)
        if sig in consts:
            t["signal"] = consts[sig]
        elif re.fullmatch(r"\d+", sig):
            t["signal"] = int(sig)
        else:
            probs.append("signal `%s`" % sig)
    if not re.search(r"let\s+result\s*=\s*unsafe\s*\{\s*kill\s*\(", unix):
        probs.append("let result = unsafe { kill(..) }")
    # success arm
    om = re.search(r"if\s+result\s*==\s*0\s*\{\s*return\s+PidLiveness::(\w+)\s*;\s*\}", unix)
    if om and om.group(1) in LV:
        t["ok"] = LV[om.group(1)]
    else:
        probs.append("if result == 0 { return PidLiveness::..; }")
    # errno table
    mm = re.search(r"match\s+std::io::Error::last_os_error\(\)\s*\.raw_os_error\(\)\s*\{", unix)
    mblock = block_after(unix, mm)
    n_lits = 0
    if mblock is None:
        probs.append("match last_os_error().raw_os_error()")
    else:
        arms = [a.strip() for a in mblock.split(",") if a.strip()]
        seen_default = False
        for a in arms:
            am = re.fullmatch(r"(.+?)\s*=>\s*PidLiveness::(\w+)", a, re.S)
            if not am or am.group(2) not in LV:
                probs.append("arm `%s`" % " ".join(a.split()))
                continue
            n_lits += 1
            pat, val = am.group(1).strip(), LV[am.group(2)]
            if seen_default:
                continue   # unreachable after `_`
            if pat == "_":
                t["default"] = val
                seen_default = True
                continue
            for alt in pat.split("|"):
                pm = re.fullmatch(r"Some\(\s*([A-Z_0-9]+|\d+)\s*\)", alt.strip())
                if not pm:
                    probs.append("pattern `%s`" % " ".join(alt.split()))
                    continue
                name = pm.group(1)
                if name in consts:
                    t["arms"].append((consts[name], val))
                elif re.fullmatch(r"\d+", name):
                    t["arms"].append((int(name), val))
                else:
                    probs.append("errno constant `%s`" % name)
        if not seen_default:
            probs.append("`_` arm")
    # every liveness literal of the unix block is one of the recognised ones
    total = len(re.findall(r"PidLiveness::\w+", unix))
    if total != n_lits + (1 if om else 0):
        probs.append("unrecognised PidLiveness:: literal in the unix block (%d found, %d recognised)" % (total, n_lits + (1 if om else 0)))
    return t, probs


def main():
    ap = argparse.ArgumentParser()
    ap.add_argument("--repo", required=True)
    ap.add_argument("--out", required=True)
    a = ap.parse_args()
    try:
        src = strip(open(os.path.join(a.repo, "crates/ripd/src/local_authority.rs"), encoding="utf-8").read())
    except OSError:
        src = ""
    t, probs = extract(src)
    arms = "; ".join("(%d, %s)" % kv for kv in t["arms"])
    lines = [
        "(* GENERATED by tools/gen/auth_probe.py from crates/ripd/src/local_authority.rs (pid_liveness) on every ./check run --",
        "   do not edit.  A committed copy serves as seed only. *)",
        "From RipV Require Import Base.Prelude Model.Authority Model.AuthorityProbe.",
        "",
        "Definition gen_probe_found : bool := %s.%s" % ("false" if probs else "true", ("   (* not recognised: %s *)" % "; ".join(probs)) if probs else ""),
        "(* kill(pid as i32, <signal>); result == 0 -> pt_ok; Some(errno) arms in source order; `_` arm *)",
        "Definition gen_probe_table : ptable :=",
        "  {| pt_signal := %d; pt_ok := %s; pt_arms := [%s]; pt_default := %s |}." % (t["signal"], t["ok"], arms, t["default"]),
        "",
        "Lemma gen_probe_found_ok : gen_probe_found = true.",
        "Proof. vm_compute. reflexivity. Qed.",
        "(* only ESRCH is classified Dead, ESRCH is, success and EPERM are Alive: the hypothesis of c18_probe_* *)",
        "Lemma gen_probe_ok : probe_wf gen_probe_table = true.",
        "Proof. vm_compute. reflexivity. Qed.",
        "(* the table the correspondence cases of the real probe are evaluated with *)",
        "Lemma gen_probe_is_full : gen_probe_table = full_probe_table.",
        "Proof. vm_compute. reflexivity. Qed.",
        "",
    ]
    os.makedirs(a.out, exist_ok=True)
    with open(os.path.join(a.out, "AuthProbe.v"), "w") as f:
        f.write("\n".join(lines))
    print("auth_probe: " + ("NOT RECOGNISED " + "; ".join(probs) if probs else "ok"))
    return 0


if __name__ == "__main__":
    sys.exit(main())
