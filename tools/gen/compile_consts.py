#!/usr/bin/env python3
"""T1 extractor for C08: the limits of the context compiler and where they are used.

Reads
  crates/ripd/src/context_compiler.rs : RECENT_MESSAGES_V1_LIMIT, HIERARCHICAL_SUMMARIES_V1_MAX_REFS, and that
      each of the three compile_* functions passes RECENT_MESSAGES_V1_LIMIT to its message selection
  crates/ripd/src/session.rs          : compile_context_bundle_for_run asks for the hierarchy with
      HIERARCHICAL_SUMMARIES_V1_MAX_REFS levels; the continuity_context_selection_decided / continuity_context_compiled
      payloads are built field by field from the compile outcome (decision.* / compiled.*)
  crates/ripd/src/continuities.rs     : the input producers accept a window on the same limit
      (`tail.complete || message_count >= RECENT_MESSAGES_V1_LIMIT`, window call with RECENT_MESSAGES_V1_LIMIT)
  crates/ripd/src/continuities.rs     : the checkpoint visibility rule of the two *_for_compile_v1 truth loops
      (`*to_seq > from_seq` alone, or also `event.seq > from_seq`)  -> gen_ckpt_frame_rule
  crates/ripd/src/continuities.rs     : WHAT the tail acceptance test counts: the expression bound by
      `let message_count = …;` in load_context_compile_input_recent_messages_v1 -> gen_tail_count
      (`message_events.iter().filter(|(seq, _)| *seq <= from_seq).count()` = CountUpToCut, the rule
      c08_tail_path_rule_agrees needs; `message_events.len()` = CountAll, refuted by c08_tail_count_all_refuted; any
      other expression is not guessed), that message_events are the message frames of tail.events, that from_seq in it
      is the cut resolve_cutpoint_from_tail returned and that the accepted input is tail.events itself
  crates/ripd/src/{continuities,continuity_stream_cache}.rs : the head a reader of the mr sidecar uses (S24 fix):
      head_seq_seen_by_messages_runs_v1 has the body the model's `head_seen true` states, try_read_head_v1 flags exactly
      the kinds append_messages_runs_best_effort_v1 writes, both readers (tail path, mr seek window) read the head
      BEFORE the mr sidecar and pass their own view's last seq, append_best_effort flushes the full sidecar line before
      it writes the mr line  -> gen_racing_head_fixed (obligation gen_racing_head_ok)
  the same files: a checkpoint frame in flight (S25 fix): compaction_checkpoint_caches_behind_head_v1 has the body the
      model's `ckpts_seen true` states and both *_for_compile_v1 lookups ask the checkpoint caches only when it is false
      -> gen_racing_ckpt_fixed (obligation gen_racing_ckpt_ok)
  continuity_stream_cache.rs : the mr seek window is handed over only when `found_messages >= message_limit ||
      scan.complete`; at its scan bound it answers None (S26 fix) -> gen_window_accept_sound (obligation gen_window_accept_ok)
Emits coq/Gen/CompileConsts.v: gen_recent_limit, gen_max_refs : N, gen_ckpt_frame_rule, gen_ok_compile_consts : bool and the obligation
gen_compile_consts_ok.  The C08 theorems hold for every limit / level count; the case files evaluate the model at
the generated values.  A construct that is not found sets gen_ok_compile_consts := false (never guess)."""
import argparse, os, re, sys


def strip_comments(s):
    s = re.sub(r"//[^\n]*", "", s)
    return re.sub(r"/\*.*?\*/", "", s, flags=re.S)


def const(src, name):
    m = re.search(r"const\s+%s\s*:\s*usize\s*=\s*([0-9_]+)\s*;" % name, src)
    return int(m.group(1).replace("_", "")) if m else None


def main():
    ap = argparse.ArgumentParser()
    ap.add_argument("--repo", required=True)
    ap.add_argument("--out", required=True)
    a = ap.parse_args()
    notes, ok = [], True

    def rd(rel):
        try:
            return strip_comments(open(os.path.join(a.repo, rel)).read())
        except OSError as e:
            notes.append("cannot read %s: %s" % (rel, e))
            return ""

    cc = rd("crates/ripd/src/context_compiler.rs")
    se = rd("crates/ripd/src/session.rs")
    co = rd("crates/ripd/src/continuities.rs")
    limit = const(cc, "RECENT_MESSAGES_V1_LIMIT")
    refs = const(cc, "HIERARCHICAL_SUMMARIES_V1_MAX_REFS")
    if limit is None or refs is None:
        ok = False
        notes.append("limit constants not found")
    # every compile_* function selects with the limit constant (non-test part of the file)
    body = cc.split("#[cfg(test)]")[0]
    n_sel = len(re.findall(r"select_recent_messages(?:_after_seq)?\s*\((?:[^;]*?)RECENT_MESSAGES_V1_LIMIT\s*,?\s*\)", body, flags=re.S))
    if n_sel != 3:
        ok = False
        notes.append("expected 3 selections with RECENT_MESSAGES_V1_LIMIT, found %d" % n_sel)
    if not re.search(r"hierarchical_compaction_checkpoints_for_compile_v1\s*\(\s*&run\.continuity_id\s*,\s*input\.from_seq\s*,\s*HIERARCHICAL_SUMMARIES_V1_MAX_REFS\s*,?\s*\)", se):
        ok = False
        notes.append("compile_context_bundle_for_run: hierarchy call with HIERARCHICAL_SUMMARIES_V1_MAX_REFS at input.from_seq not found")
    if not re.search(r"latest_compaction_checkpoint_for_compile_v1\s*\(\s*&run\.continuity_id\s*,\s*input\.from_seq\s*\)", se):
        ok = False
        notes.append("compile_context_bundle_for_run: latest checkpoint call at input.from_seq not found")
    if not re.search(r"tail\.complete\s*\|\|\s*message_count\s*>=\s*RECENT_MESSAGES_V1_LIMIT", co):
        ok = False
        notes.append("tail acceptance `tail.complete || message_count >= RECENT_MESSAGES_V1_LIMIT` not found")
    if not re.search(r"window_recent_messages_v1_from_message_id\s*\(\s*continuity_id\s*,\s*anchor_message_id\s*,\s*RECENT_MESSAGES_V1_LIMIT\s*,?\s*\)", co):
        ok = False
        notes.append("window call with RECENT_MESSAGES_V1_LIMIT not found")
    # ---- what the acceptance test of an incomplete tail counts
    def fn_body0(src, name):
        m = re.search(r"fn\s+%s\s*\(" % name, src)
        if not m:
            return None
        i = src.find("{", m.end())
        depth, j = 1, i + 1
        while depth > 0 and j < len(src):
            depth += {"{": 1, "}": -1}.get(src[j], 0)
            j += 1
        return src[i:j]
    tail_count = None
    lb = fn_body0(co, "load_context_compile_input_recent_messages_v1")
    if lb is None:
        ok = False
        notes.append("load_context_compile_input_recent_messages_v1 not found")
    else:
        flat = re.sub(r'#\[cfg\(rip_verif\)\]rip_kernel::verif::point\("[^"]*"\);', "", re.sub(r"\s+", "", lb))
        exprs = re.findall(r"letmessage_count=([^;]*);", flat)
        if len(exprs) != 1:
            ok = False
            notes.append("expected exactly one `let message_count = ...;` in the tail path, found %d" % len(exprs))
        elif exprs[0] == "message_events.iter().filter(|(seq,_)|*seq<=from_seq).count()":
            tail_count = "CountUpToCut"
        elif exprs[0] == "message_events.len()":
            tail_count = "CountAll"
            notes.append("tail acceptance counts every message of the scanned tail (message_events.len()), not only those at or before the cut")
        else:
            ok = False
            notes.append("tail acceptance counts an expression this extractor does not know: %s" % exprs[0])
        # the names in that expression mean what the model takes them to mean
        needs = [
            (r"ifmatches!\(event\.kind,EventKind::ContinuityMessageAppended\{\.\.\}\)\{message_events\.push\(\(event\.seq,event\.id\.clone\(\)\)\);\}", "message_events = the message frames (seq, id)"),
            (r"foreventin&tail\.events\{ifmatches!\(event\.kind,EventKind::ContinuityMessageAppended", "message_events are collected over tail.events"),
            (r"ifletSome\(\(message_seq,from_seq\)\)=resolve_cutpoint_from_tail\(&message_events,head_seq,anchor_message_id\)\{", "from_seq = the cut resolve_cutpoint_from_tail returned"),
            (r"continuity_events:tail\.events,from_seq:from_seq\.max\(message_seq\),", "the accepted input is tail.events with that cut"),
        ]
        for pat, what in needs:
            if not re.search(pat, flat):
                ok = False
                notes.append("tail path: not found: %s" % what)
        if len(re.findall(r"message_events\.push\(", flat)) != 1 or len(re.findall(r"letmutmessage_events", flat)) != 1:
            ok = False
            notes.append("tail path: message_events is filled in more than one place")
    # ---- the head a reader of the mr sidecar uses while an append is in flight (S24)
    sc = rd("crates/ripd/src/continuity_stream_cache.rs")
    head_fixed = True
    def need(cond, what):
        nonlocal head_fixed
        if not cond:
            head_fixed = False
            notes.append("racing head: not found: %s" % what)
    # whitespace removed; rip_verif instrumentation points are not part of the logic
    flat_of = lambda b: re.sub(r'#\[cfg\(rip_verif\)\]rip_kernel::verif::point\("[^"]*"\);', "", re.sub(r"\s+", "", b or ""))
    hb = flat_of(fn_body0(sc, "head_seq_seen_by_messages_runs_v1"))
    need(hb == "{let(seq,in_messages_runs)=head;ifin_messages_runs&&mr_last_seq.is_none_or(|last|last<seq){seq.saturating_sub(1)}else{seq}}",
         "head_seq_seen_by_messages_runs_v1 with the body the model states")
    tb = flat_of(fn_body0(sc, "try_read_head_v1"))
    need('letin_messages_runs=header.event_type=="continuity_message_appended"||header.event_type=="continuity_run_ended";(header.seq,in_messages_runs)' in tb
         and "try_read_last_header_for_sidecar_path(continuity_id,&self.path_for(continuity_id))" in tb,
         "try_read_head_v1: last frame of the FULL sidecar, flag = message_appended | run_ended")
    ab = flat_of(fn_body0(sc, "append_messages_runs_best_effort_v1"))
    need("if!matches!(&event.kind,EventKind::ContinuityMessageAppended{..}|EventKind::ContinuityRunEnded{..}){return;}" in ab,
         "append_messages_runs_best_effort_v1 writes exactly message_appended | run_ended frames")
    pb = flat_of(fn_body0(sc, "append_best_effort"))
    i_flush, i_mr = pb.find("ifwriter.flush().is_err(){return;}"), pb.find("self.append_messages_runs_best_effort_v1(event);")
    need(0 <= i_flush < i_mr, "append_best_effort: full sidecar line flushed before the mr line is written")
    lbf = flat_of(lb)
    need("letfull_head=self.stream_cache.try_read_head_v1(continuity_id).ok().flatten();matchself.stream_cache.scan_tail_messages_runs_v1(" in lbf,
         "tail path: head read immediately before each tail scan")
    need("letmr_last_seq=tail.events.last().map(|event|event.seq);letfull_head_seq=full_head.map(|head|head_seq_seen_by_messages_runs_v1(head,mr_last_seq));" in lbf
         and "try_read_last_seq(" not in lbf,
         "tail path: head taken through head_seq_seen_by_messages_runs_v1 with the tail's own last seq")
    wb = flat_of(fn_body0(sc, "window_recent_messages_v1_from_message_id_messages_runs_v1"))
    i_head, i_seek = wb.find("letfull_head=self.try_read_head_v1(continuity_id).ok().flatten();"), wb.find("file.seek(SeekFrom::Start(anchor_offset))?;")
    need(0 <= i_head < i_seek, "mr window: head read before the forward scan of the mr sidecar")
    need("last_seq_seen=last_seq_seen.max(header.seq);" in wb and "full_head.map(|head|head_seq_seen_by_messages_runs_v1(head,Some(last_seq_seen)))" in wb
         and "ifn==0{boundary_pos=cur_offset;break;}" in wb and "try_read_last_seq(continuity_id)" not in wb,
         "mr window: head through head_seq_seen_by_messages_runs_v1 with the last seq its forward scan saw; backward scan bounded by that scan")
    # ---- a checkpoint frame in flight (S25): the *_for_compile_v1 lookups do not answer from checkpoint caches that lag behind the head
    ckpt_fixed = True
    def need2(cond, what):
        nonlocal ckpt_fixed
        if not cond:
            ckpt_fixed = False
            notes.append("racing checkpoint: not found: %s" % what)
    bb = flat_of(fn_body0(sc, "compaction_checkpoint_caches_behind_head_v1"))
    need2(bb.startswith("{lethead=self.try_read_last_header_for_sidecar_path(continuity_id,&self.path_for(continuity_id));letOk(Some(head))=headelse{returnfalse;};"
                        'ifhead.event_type!="continuity_compaction_checkpoint_created"{returnfalse;}')
          and "letsidecar_path=self.compaction_checkpoints_path_for_v1(continuity_id);ifsidecar_path.exists(){matchself.try_read_last_seq_for_sidecar_path(continuity_id,&sidecar_path){Ok(Some(seq))ifseq>=head.seq=>{}_=>returntrue,}}" in bb
          and "letindex_path=self.compaction_checkpoints_index_path_for_v1(continuity_id);ifindex_path.exists(){matchload_compaction_checkpoint_index_v1(&index_path){Ok(Some(entries))ifentries.iter().any(|entry|entry.seq>=head.seq)=>{}_=>returntrue,}}false}" in bb,
          "compaction_checkpoint_caches_behind_head_v1 with the body the model states")
    cb = flat_of(fn_body0(sc, "append_compaction_checkpoints_best_effort_v1"))
    need2("if!matches!(&event.kind,EventKind::ContinuityCompactionCheckpointCreated{..}){return;}" in cb,
          "append_compaction_checkpoints_best_effort_v1 writes exactly checkpoint_created frames")
    i_ck = pb.find("self.append_compaction_checkpoints_best_effort_v1(event);")
    need2(0 <= i_flush < i_ck, "append_best_effort: full sidecar line flushed before the checkpoint sidecar line is written")
    # (either the lookups as they are, or with the S9 repair of corpus/C08/s9_repair.patch: *_visible_at_v1(.., Some(from_seq)))
    for name, calls in (("latest_compaction_checkpoint_for_compile_v1",
                         ("latest_compaction_checkpoint_before_or_at_seq_v1(continuity_id,from_seq)",
                          "latest_compaction_checkpoint_visible_at_v1(continuity_id,from_seq,Some(from_seq))")),
                        ("hierarchical_compaction_checkpoints_for_compile_v1",
                         ("hierarchical_compaction_checkpoints_before_or_at_seq_v1(continuity_id,from_seq,max_levels,Some(COMPACTION_SUMMARY_KIND_CUMULATIVE_V1),)",
                          "hierarchical_compaction_checkpoints_visible_at_v1(continuity_id,from_seq,Some(from_seq),max_levels,Some(COMPACTION_SUMMARY_KIND_CUMULATIVE_V1),)"))):
        fb_ = flat_of(fn_body0(co, name))
        need2(any(("letcached=ifself.stream_cache.compaction_checkpoint_caches_behind_head_v1(continuity_id){Ok(None)}else{self.stream_cache.%s};ifletOk(Some(" % call) in fb_ for call in calls)
              and len(re.findall(r"self\.stream_cache\.(?:latest|hierarchical)_compaction_checkpoints?_\w+\(", fb_)) == 1,
              "%s: the cache is asked only when it does not lag behind the head" % name)
    # ---- the mr seek window hands over only a window that is complete or holds `limit` messages (S26 fix)
    window_sound = ("iffound_messages>=message_limit||scan.complete{selected_rev.reverse();returnOk(Some(ContinuityWindow{events:selected_rev,from_seq,from_message_id:Some(anchor_message_id.to_string()),}));}ifbackscan_bytes>=MAX_BACKSCAN_BYTES{returnOk(None);}" in wb
                    and wb.count("Ok(Some(ContinuityWindow{") == 1
                    and "ifevent.seq>from_seq{continue;}selected_rev.push(event.clone());ifmatches!(event.kind,EventKind::ContinuityMessageAppended{..}){found_messages=found_messages.saturating_add(1);iffound_messages>=message_limit{break;}}" in wb)
    if not window_sound:
        notes.append("mr seek window: the accept test `found_messages >= message_limit || scan.complete` (and None at the scan bound) / the counting loop not found")
    # checkpoint visibility rule of the two *_for_compile_v1 truth loops: `to_seq <= from_seq` alone (S9) or also the
    # checkpoint frame's own seq (`event.seq > from_seq` skipped).  Both loops must agree, else never guess.
    fn_body = fn_body0
    rule = None
    bodies = [fn_body(co, "latest_compaction_checkpoint_for_compile_v1"), fn_body(co, "hierarchical_compaction_checkpoints_for_compile_v1")]
    if any(b is None for b in bodies):
        ok = False
        notes.append("*_for_compile_v1 functions not found")
    else:
        has_to = [bool(re.search(r"\*to_seq\s*>\s*from_seq", b)) for b in bodies]
        has_own = [bool(re.search(r"event\.seq\s*>\s*from_seq", b)) for b in bodies]
        if not all(has_to):
            ok = False
            notes.append("`*to_seq > from_seq` filter not found in both truth loops")
        elif all(has_own):
            rule = True
        elif not any(has_own):
            rule = False
        else:
            ok = False
            notes.append("the two truth loops use different checkpoint visibility rules")
    # the two frames a run logs are a field-by-field copy of the compile outcome (session.rs, InputAction::Prompt)
    copies = [r"compiler_id\s*:\s*decision\.compiler_id", r"limits\s*:\s*decision\.limits",
              r"compaction_checkpoint\s*:\s*decision\.compaction_checkpoint\b", r"compaction_checkpoints\s*:\s*decision\.compaction_checkpoints",
              r"resets\s*:\s*decision\.resets", r"reason\s*:\s*decision\.reason",
              r"bundle_artifact_id\s*:\s*compiled\.bundle_artifact_id", r"from_seq\s*:\s*compiled\.from_seq",
              r"from_message_id\s*:\s*compiled\.from_message_id", r"compiler_strategy\s*:\s*decision\.compiler_strategy"]
    missing = [c for c in copies if not re.search(c, se)]
    if missing or not re.search(r"let\s+compiler_strategy\s*=\s*decision\.compiler_strategy\.clone\(\)", se):
        ok = False
        notes.append("selection_decided / context_compiled payloads are no longer a plain copy of the compile outcome: %s" % missing)
    os.makedirs(a.out, exist_ok=True)
    with open(os.path.join(a.out, "CompileConsts.v"), "w") as f:
        f.write("(* GENERATED by tools/gen/compile_consts.py from crates/ripd/src/{context_compiler,session,continuities}.rs — do not edit *)\n")
        f.write("From RipV Require Import Base.Prelude Model.Compile.\n")
        for n in notes:
            f.write("(* note: %s *)\n" % n.replace("*)", "* )"))
        f.write("Definition gen_recent_limit : N := %d.\n" % (limit or 0))
        f.write("Definition gen_max_refs : N := %d.\n" % (refs or 0))
        f.write("(* true: a checkpoint frame is visible only when its own seq is at or before the cut; false: `to_seq <= cut` alone (S9) *)\n")
        f.write("Definition gen_ckpt_frame_rule : bool := %s.\n" % ("true" if rule else "false"))
        f.write("(* what `let message_count = ...` of the tail path counts; an unknown expression is reported through gen_ok_compile_consts *)\n")
        f.write("Definition gen_tail_count : tail_count := %s.\n" % (tail_count or "CountAll"))
        f.write("(* the readers of the mr sidecar take the head through head_seq_seen_by_messages_runs_v1 as Model/Compile.v head_seen true states it (S24 fix) *)\n")
        f.write("Definition gen_racing_head_fixed : bool := %s.\n" % ("true" if head_fixed else "false"))
        f.write("(* the *_for_compile_v1 lookups skip checkpoint caches that lag behind the head (Model/Compile.v ckpts_seen true, S25 fix) *)\n")
        f.write("Definition gen_racing_ckpt_fixed : bool := %s.\n" % ("true" if ckpt_fixed else "false"))
        f.write("(* the mr seek window is handed over only when complete or holding `limit` messages at or before the cut (Model/Compile.v window_rev; S26 fix) *)\n")
        f.write("Definition gen_window_accept_sound : bool := %s.\n" % ("true" if window_sound else "false"))
        f.write("Definition gen_ok_compile_consts : bool := %s.\n" % ("true" if ok else "false"))
        f.write("Lemma gen_compile_consts_ok : gen_ok_compile_consts && (0 <? gen_recent_limit) && (0 <? gen_max_refs) = true.\n")
        f.write("Proof. vm_compute. reflexivity. Qed.\n")
        f.write("(* c08_racing_append_linearizes / c08_racing_compile_linearizes are about `head_seen true` *)\n")
        f.write("Lemma gen_racing_head_ok : gen_racing_head_fixed = true.\n")
        f.write("Proof. vm_compute. reflexivity. Qed.\n")
        f.write("(* c08_window_path_agrees is about the window loop without a scan bound *)\n")
        f.write("Lemma gen_window_accept_ok : gen_window_accept_sound = true.\n")
        f.write("Proof. vm_compute. reflexivity. Qed.\n")
        f.write("(* c08_racing_checkpoint_linearizes is about `ckpts_seen true` *)\n")
        f.write("Lemma gen_racing_ckpt_ok : gen_racing_ckpt_fixed = true.\n")
        f.write("Proof. vm_compute. reflexivity. Qed.\n")
        f.write("(* the hypothesis of c08_tail_path_rule_agrees, for the rule the source uses *)\n")
        f.write("Lemma gen_tail_count_ok : tail_count_sound gen_tail_count = true.\n")
        f.write("Proof. vm_compute. reflexivity. Qed.\n")
    for n in notes:
        print("note:", n)
    print("compile_consts: limit=%s max_refs=%s frame_rule=%s tail_count=%s racing_head_fixed=%s racing_ckpt_fixed=%s window_accept_sound=%s ok=%s" % (limit, refs, rule, tail_count, head_fixed, ckpt_fixed, window_sound, ok))
    return 0


if __name__ == "__main__":
    sys.exit(main())
