#!/usr/bin/env python3
"""T1 extractor for C08: the limits of the context compiler and where they are used.

Reads
  crates/ripd/src/context_compiler.rs : RECENT_MESSAGES_V1_LIMIT, HIERARCHICAL_SUMMARIES_V1_MAX_REFS, and that
      each of the three compile_* functions passes RECENT_MESSAGES_V1_LIMIT to its message selection
  crates/ripd/src/session.rs          : compile_context_bundle_for_run asks for the hierarchy with
      HIERARCHICAL_SUMMARIES_V1_MAX_REFS levels; the continuity_context_selection_decided / continuity_context_compiled
      payloads are built field by field from the compile outcome (decision.* / compiled.*)
  crates/ripd/src/continuities.rs     : the input producers accept a window on the same limit
      (`tail.complete || message_count >= RECENT_MESSAGES_V1_LIMIT`, window call with RECENT_MESSAGES_V1_LIMIT)
  crates/ripd/src/continuities.rs     : the checkpoint visibility rule of the two *_for_compile_v1 truth loops
      (`*to_seq > from_seq` alone, or also `event.seq > from_seq`)  -> gen_ckpt_frame_rule
  crates/ripd/src/continuities.rs     : WHAT the tail acceptance test counts: the expression bound by
      `let message_count = …;` in load_context_compile_input_recent_messages_v1 -> gen_tail_count
      (`message_events.iter().filter(|(seq, _)| *seq <= from_seq).count()` = CountUpToCut, the rule
      c08_tail_path_rule_agrees needs; `message_events.len()` = CountAll, refuted by c08_tail_count_all_refuted; any
      other expression is not guessed), that message_events are the message frames of tail.events, that from_seq in it
      is the cut resolve_cutpoint_from_tail returned and that the accepted input is tail.events itself
Emits coq/Gen/CompileConsts.v: gen_recent_limit, gen_max_refs : N, gen_ckpt_frame_rule, gen_ok_compile_consts : bool and the obligation
gen_compile_consts_ok.  The C08 theorems hold for every limit / level count; the case files evaluate the model at
the generated values.  A construct that is not found sets gen_ok_compile_consts := false (never guess)."""
import argparse, os, re, sys


def strip_comments(s):
    s = re.sub(r"//[^\n]*", "", s)
    return re.sub(r"/\*.*?\*/", "", s, flags=re.S)


def const(src, name):
    m = re.search(r"const\s+%s\s*:\s*usize\s*=\s*([0-9_]+)\s*;" % name, src)
    return int(m.group(1).replace("_", "")) if m else None


def main():
    ap = argparse.ArgumentParser()
    ap.add_argument("--repo", required=True)
    ap.add_argument("--out", required=True)
    a = ap.parse_args()
    notes, ok = [], True

    def rd(rel):
        try:
            return strip_comments(open(os.path.join(a.repo, rel)).read())
        except OSError as e:
            notes.append("cannot read %s: %s" % (rel, e))
            return ""

    cc = rd("crates/ripd/src/context_compiler.rs")
    se = rd("crates/ripd/src/session.rs")
    co = rd("crates/ripd/src/continuities.rs")
    limit = const(cc, "RECENT_MESSAGES_V1_LIMIT")
    refs = const(cc, "HIERARCHICAL_SUMMARIES_V1_MAX_REFS")
    if limit is None or refs is None:
        ok = False
        notes.append("limit constants not found")
    # every compile_* function selects with the limit constant (non-test part of the file)
    body = cc.split("#[cfg(test)]")[0]
    n_sel = len(re.findall(r"select_recent_messages(?:_after_seq)?\s*\((?:[^;]*?)RECENT_MESSAGES_V1_LIMIT\s*,?\s*\)", body, flags=re.S))
    if n_sel != 3:
        ok = False
        notes.append("expected 3 selections with RECENT_MESSAGES_V1_LIMIT, found %d" % n_sel)
    if not re.search(r"hierarchical_compaction_checkpoints_for_compile_v1\s*\(\s*&run\.continuity_id\s*,\s*input\.from_seq\s*,\s*HIERARCHICAL_SUMMARIES_V1_MAX_REFS\s*,?\s*\)", se):
        ok = False
        notes.append("compile_context_bundle_for_run: hierarchy call with HIERARCHICAL_SUMMARIES_V1_MAX_REFS at input.from_seq not found")
    if not re.search(r"latest_compaction_checkpoint_for_compile_v1\s*\(\s*&run\.continuity_id\s*,\s*input\.from_seq\s*\)", se):
        ok = False
        notes.append("compile_context_bundle_for_run: latest checkpoint call at input.from_seq not found")
    if not re.search(r"tail\.complete\s*\|\|\s*message_count\s*>=\s*RECENT_MESSAGES_V1_LIMIT", co):
        ok = False
        notes.append("tail acceptance `tail.complete || message_count >= RECENT_MESSAGES_V1_LIMIT` not found")
    if not re.search(r"window_recent_messages_v1_from_message_id\s*\(\s*continuity_id\s*,\s*anchor_message_id\s*,\s*RECENT_MESSAGES_V1_LIMIT\s*,?\s*\)", co):
        ok = False
        notes.append("window call with RECENT_MESSAGES_V1_LIMIT not found")
    # ---- what the acceptance test of an incomplete tail counts
    def fn_body0(src, name):
        m = re.search(r"fn\s+%s\s*\(" % name, src)
        if not m:
            return None
        i = src.find("{", m.end())
        depth, j = 1, i + 1
        while depth > 0 and j < len(src):
            depth += {"{": 1, "}": -1}.get(src[j], 0)
            j += 1
        return src[i:j]
    tail_count = None
    lb = fn_body0(co, "load_context_compile_input_recent_messages_v1")
    if lb is None:
        ok = False
        notes.append("load_context_compile_input_recent_messages_v1 not found")
    else:
        flat = re.sub(r"\s+", "", lb)
        exprs = re.findall(r"letmessage_count=([^;]*);", flat)
        if len(exprs) != 1:
            ok = False
            notes.append("expected exactly one `let message_count = ...;` in the tail path, found %d" % len(exprs))
        elif exprs[0] == "message_events.iter().filter(|(seq,_)|*seq<=from_seq).count()":
            tail_count = "CountUpToCut"
        elif exprs[0] == "message_events.len()":
            tail_count = "CountAll"
            notes.append("tail acceptance counts every message of the scanned tail (message_events.len()), not only those at or before the cut")
        else:
            ok = False
            notes.append("tail acceptance counts an expression this extractor does not know: %s" % exprs[0])
        # the names in that expression mean what the model takes them to mean
        needs = [
            (r"ifmatches!\(event\.kind,EventKind::ContinuityMessageAppended\{\.\.\}\)\{message_events\.push\(\(event\.seq,event\.id\.clone\(\)\)\);\}", "message_events = the message frames (seq, id)"),
            (r"foreventin&tail\.events\{ifmatches!\(event\.kind,EventKind::ContinuityMessageAppended", "message_events are collected over tail.events"),
            (r"ifletSome\(\(message_seq,from_seq\)\)=resolve_cutpoint_from_tail\(&message_events,head_seq,anchor_message_id\)\{", "from_seq = the cut resolve_cutpoint_from_tail returned"),
            (r"continuity_events:tail\.events,from_seq:from_seq\.max\(message_seq\),", "the accepted input is tail.events with that cut"),
        ]
        for pat, what in needs:
            if not re.search(pat, flat):
                ok = False
                notes.append("tail path: not found: %s" % what)
        if len(re.findall(r"message_events\.push\(", flat)) != 1 or len(re.findall(r"letmutmessage_events", flat)) != 1:
            ok = False
            notes.append("tail path: message_events is filled in more than one place")
    # checkpoint visibility rule of the two *_for_compile_v1 truth loops: `to_seq <= from_seq` alone (S9) or also the
    # checkpoint frame's own seq (`event.seq > from_seq` skipped).  Both loops must agree, else never guess.
    fn_body = fn_body0
    rule = None
    bodies = [fn_body(co, "latest_compaction_checkpoint_for_compile_v1"), fn_body(co, "hierarchical_compaction_checkpoints_for_compile_v1")]
    if any(b is None for b in bodies):
        ok = False
        notes.append("*_for_compile_v1 functions not found")
    else:
        has_to = [bool(re.search(r"\*to_seq\s*>\s*from_seq", b)) for b in bodies]
        has_own = [bool(re.search(r"event\.seq\s*>\s*from_seq", b)) for b in bodies]
        if not all(has_to):
            ok = False
            notes.append("`*to_seq > from_seq` filter not found in both truth loops")
        elif all(has_own):
            rule = True
        elif not any(has_own):
            rule = False
        else:
            ok = False
            notes.append("the two truth loops use different checkpoint visibility rules")
    # the two frames a run logs are a field-by-field copy of the compile outcome (session.rs, InputAction::Prompt)
    copies = [r"compiler_id\s*:\s*decision\.compiler_id", r"limits\s*:\s*decision\.limits",
              r"compaction_checkpoint\s*:\s*decision\.compaction_checkpoint\b", r"compaction_checkpoints\s*:\s*decision\.compaction_checkpoints",
              r"resets\s*:\s*decision\.resets", r"reason\s*:\s*decision\.reason",
              r"bundle_artifact_id\s*:\s*compiled\.bundle_artifact_id", r"from_seq\s*:\s*compiled\.from_seq",
              r"from_message_id\s*:\s*compiled\.from_message_id", r"compiler_strategy\s*:\s*decision\.compiler_strategy"]
    missing = [c for c in copies if not re.search(c, se)]
    if missing or not re.search(r"let\s+compiler_strategy\s*=\s*decision\.compiler_strategy\.clone\(\)", se):
        ok = False
        notes.append("selection_decided / context_compiled payloads are no longer a plain copy of the compile outcome: %s" % missing)
    os.makedirs(a.out, exist_ok=True)
    with open(os.path.join(a.out, "CompileConsts.v"), "w") as f:
        f.write("(* GENERATED by tools/gen/compile_consts.py from crates/ripd/src/{context_compiler,session,continuities}.rs — do not edit *)\n")
        f.write("From RipV Require Import Base.Prelude Model.Compile.\n")
        for n in notes:
            f.write("(* note: %s *)\n" % n.replace("*)", "* )"))
        f.write("Definition gen_recent_limit : N := %d.\n" % (limit or 0))
        f.write("Definition gen_max_refs : N := %d.\n" % (refs or 0))
        f.write("(* true: a checkpoint frame is visible only when its own seq is at or before the cut; false: `to_seq <= cut` alone (S9) *)\n")
        f.write("Definition gen_ckpt_frame_rule : bool := %s.\n" % ("true" if rule else "false"))
        f.write("(* what `let message_count = ...` of the tail path counts; an unknown expression is reported through gen_ok_compile_consts *)\n")
        f.write("Definition gen_tail_count : tail_count := %s.\n" % (tail_count or "CountAll"))
        f.write("Definition gen_ok_compile_consts : bool := %s.\n" % ("true" if ok else "false"))
        f.write("Lemma gen_compile_consts_ok : gen_ok_compile_consts && (0 <? gen_recent_limit) && (0 <? gen_max_refs) = true.\n")
        f.write("Proof. vm_compute. reflexivity. Qed.\n")
        f.write("(* the hypothesis of c08_tail_path_rule_agrees, for the rule the source uses *)\n")
        f.write("Lemma gen_tail_count_ok : tail_count_sound gen_tail_count = true.\n")
        f.write("Proof. vm_compute. reflexivity. Qed.\n")
    for n in notes:
        print("note:", n)
    print("compile_consts: limit=%s max_refs=%s frame_rule=%s tail_count=%s ok=%s" % (limit, refs, rule, tail_count, ok))
    return 0


if __name__ == "__main__":
    sys.exit(main())
