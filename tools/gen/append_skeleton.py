#!/usr/bin/env python3
"""T1 extractor for C01: the effect order of every continuity append path.

Reads crates/ripd/src/continuities.rs and turns the body of each of the 11 locked `append_*` functions and of
`create_continuity`, `create_continuity_locked`, `branch`, `handoff` into the micro-step list of
coq/Model/ContStore.v by the ORDER of the marker expressions:

  let mut next_seq = self.next_seq.lock()      -> MLock   (guard bound to the end of the function => MUnlock last)
  self.next_seq.lock() not bound that way      -> MUnknown (a temporary guard: the pre-3ef7dd4 shape of S5)
  drop(next_seq)                               -> MUnlock at that position
  next_seq.get(                                -> MChoose
  self.event_log.append(&e).map_err(..)?;      -> MLogAppend <kind> (event literal carries `seq,`)
                                                  MLogAppendFixed n <kind> (event literal carries `seq: n,`)
                                                  without the `?` -> MUnknown
  stream_cache.append_best_effort(             -> MSidecar
  sender.send(                                 -> MBcast
  next_seq.insert(.., seq + 1)                 -> MAdvance
  next_seq.insert(.., <literal n>)             -> MSetNext n
  index.continuities.insert(                   -> MIndexInsert
  unwrap_or_else(|| Uuid::new_v4()             -> MAlloc
  self.create_continuity_locked(               -> (the steps of create_continuity_locked)

Emits coq/Gen/AppendOps.v with the lists and the obligation `gen_append_skeletons_ok`: there are exactly 11
locked appends and each has the shape `locked_append <its kind> []`; create_continuity = `create_prog []`;
branch / handoff = `lineage_prog <kind> [] []` - the shapes c01_valid_all_schedules is proved for
(c01_call_skeletons_wf).  A function that is not found yields an empty list (never guess), so the obligation fails.
"""
import argparse, os, re, sys

LOCKED = ["append_message", "append_run_spawned", "append_context_selection_decided", "append_context_compiled",
          "append_provider_cursor_updated", "append_compaction_checkpoint_created",
          "append_compaction_auto_schedule_decided", "append_job_spawned", "append_job_ended", "append_run_ended",
          "append_tool_side_effects"]


def strip(s):
    s = re.sub(r"//[^\n]*", "", s)
    s = re.sub(r"/\*.*?\*/", "", s, flags=re.S)
    # verification hook points are not effects
    s = re.sub(r"#\[cfg\(rip_verif\)\]\s*rip_kernel::verif::point\([^)]*\);", "", s)
    return s


def fn_body(src, name):
    m = re.search(r"\bfn\s+" + name + r"\s*\(", src)
    if not m:
        return None
    i = src.index("{", _sig_end(src, m.end()))
    depth, j = 1, i + 1
    while depth > 0 and j < len(src):
        depth += {"{": 1, "}": -1}.get(src[j], 0)
        j += 1
    return src[i + 1:j - 1]


def _sig_end(src, j):
    """index just after the parameter list's closing parenthesis"""
    depth = 1
    while depth > 0 and j < len(src):
        depth += {"(": 1, ")": -1}.get(src[j], 0)
        j += 1
    return j


MARKERS = [
    ("LOCK", r"let\s+mut\s+next_seq\s*=\s*self\s*\.\s*next_seq\s*\.\s*lock\(\)"),
    ("ANYLOCK", r"self\s*\.\s*next_seq\s*\.\s*lock\(\)"),
    ("DROP", r"drop\(\s*next_seq\s*\)"),
    ("CHOOSE", r"next_seq\s*\.\s*get\("),
    ("APPEND", r"self\s*\.\s*event_log\s*\.\s*append\("),
    ("SIDECAR", r"stream_cache\s*\.\s*append_best_effort\("),
    ("BCAST", r"sender\s*\.\s*send\("),
    ("ADVANCE", r"next_seq\s*\.\s*insert\([^;]*?seq\s*\+\s*1\s*\)"),
    ("SETNEXT", r"next_seq\s*\.\s*insert\([^;]*?,\s*(\d+)\s*\)"),
    ("INDEX", r"index\s*\.\s*continuities\s*\.\s*insert\("),
    ("ALLOC", r"unwrap_or_else\(\s*\|\|\s*Uuid::new_v4\(\)"),
    ("CREATE", r"self\s*\.\s*create_continuity_locked\("),
    # a helper that is handed the guard (`self.take_seq(&mut next_seq, ..)`): its steps happen here
    ("HELPER", r"self\s*\.\s*(?!create_continuity_locked\b)(\w+)\s*\(\s*&mut\s+next_seq\b"),
]


def tokens(body):
    found = []
    for name, pat in MARKERS:
        for m in re.finditer(pat, body):
            found.append((m.start(), name, m))
    found.sort(key=lambda x: x[0])
    # a bound lock matches both LOCK and ANYLOCK (ANYLOCK starts later inside it): keep LOCK, drop that ANYLOCK
    out = []
    lock_spans = [(p, p + len(m.group(0))) for p, n, m in found if n == "LOCK"]
    for p, n, m in found:
        if n == "ANYLOCK" and any(a <= p < b for a, b in lock_spans):
            continue
        out.append((p, n, m))
    return out


SRC = [""]


def steps_of(body, create_locked_steps=None, depth=0):
    """-> (list of coq mstep terms, kind of the (last) appended event)"""
    if body is None:
        return [], None
    kinds = [(m.start(), m.group(1)) for m in re.finditer(r"kind:\s*EventKind::(\w+)", body)]
    seqs = [(m.start(), m.group(1)) for m in re.finditer(r"\bseq\s*:\s*(\d+)\s*,", body)]
    steps, bound, last_kind = [], False, None
    for pos, name, m in tokens(body):
        if name == "LOCK":
            steps.append("MLock")
            bound = True
        elif name == "ANYLOCK":
            steps.append("MUnknown")
        elif name == "DROP":
            steps.append("MUnlock")
            bound = False
        elif name == "CHOOSE":
            steps.append("MChoose")
        elif name == "APPEND":
            stmt = body[pos:body.index(";", pos) + 1]
            kind = max([k for k in kinds if k[0] < pos], default=(0, None))[1]
            last_kind = kind
            # literal seq of the event built just before this append (after the previous append)
            prev = max([p for p, n, _ in tokens(body) if n == "APPEND" and p < pos], default=-1)
            lit = [s for s in seqs if prev < s[0] < pos]
            if kind is None or not re.search(r"\)\s*\?\s*;\s*$", stmt):
                steps.append("MUnknown")
            elif lit:
                steps.append(f"MLogAppendFixed {lit[-1][1]} E{kind} []")
            else:
                steps.append(f"MLogAppend E{kind} []")
        elif name == "SIDECAR":
            steps.append("MSidecar")
        elif name == "BCAST":
            steps.append("MBcast")
        elif name == "ADVANCE":
            steps.append("MAdvance")
        elif name == "SETNEXT":
            # `insert(.., seq)` inside the cache-miss arm of the choose is part of MChoose, not a literal
            steps.append(f"MSetNext {m.group(1)}")
        elif name == "INDEX":
            steps.append("MIndexInsert")
        elif name == "ALLOC":
            steps.append("MAlloc")
        elif name == "CREATE":
            steps.extend(create_locked_steps if create_locked_steps is not None else ["MUnknown"])
        elif name == "HELPER":
            hb = fn_body(SRC[0], m.group(1)) if depth < 2 else None
            steps.extend(steps_of(hb, None, depth + 1)[0] if hb is not None else ["MUnknown"])
    if bound:
        steps.append("MUnlock")
    return steps, last_kind


def main():
    ap = argparse.ArgumentParser()
    ap.add_argument("--repo", required=True)
    ap.add_argument("--out", required=True)
    a = ap.parse_args()
    path = os.path.join(a.repo, "crates", "ripd", "src", "continuities.rs")
    src = strip(open(path).read()) if os.path.exists(path) else ""
    SRC[0] = src
    locked = []
    for name in LOCKED:
        st, kind = steps_of(fn_body(src, name))
        locked.append((name, kind, st))
    cl, _ = steps_of(fn_body(src, "create_continuity_locked"))
    create, _ = steps_of(fn_body(src, "create_continuity"), cl)
    branch, bk = steps_of(fn_body(src, "branch"), cl)
    handoff, hk = steps_of(fn_body(src, "handoff"), cl)
    # any further function that takes the seq mutex must be one of the above
    takers = set()
    for m in re.finditer(r"\bfn\s+(\w+)\s*\(", src):
        b = fn_body(src[m.start():], m.group(1))
        if b is not None and re.search(r"self\s*\.\s*next_seq\s*\.\s*(try_)?lock\(\)", b):
            takers.add(m.group(1))
    extra = sorted(takers - set(LOCKED) - {"create_continuity", "branch", "handoff", "verif_seq_free"})
    # A function that HOLDS the seq mutex without being a writer (ContinuityStore::replay_events since the S3-live repair:
    # the log read + sidecar rebuild of a reader whose try_replay was refused run under the writers' mutex) is a stutter
    # step of the store model as long as it reads only: the guard is bound to an `_name` that is never used, and neither
    # the function nor what it calls in this file touches the counters, appends to the log or the sidecar, or broadcasts.
    WRITES = (r"next_seq\s*\.\s*(insert|get|get_mut|remove|entry|contains_key)\s*\(|\.\s*append\s*\(|"
              r"sender\s*\.\s*send\s*\(|append_best_effort\s*\(|save_index\s*\(")

    def reads_only(name, depth=0):
        b = fn_body(src, name)
        if b is None or depth > 3 or re.search(WRITES, b):
            return False
        return all(reads_only(c, depth + 1) for c in set(re.findall(r"self\s*\.\s*(\w+)\s*\(", b)) if fn_body(src, c) is not None)

    holders = [n for n in extra
               if len(re.findall(r"next_seq\s*\.\s*(?:try_)?lock\(\)", fn_body(src, n))) == 1
               and re.search(r"let\s+_\w+\s*=\s*self\s*\.\s*next_seq\s*\.\s*lock\(\)", fn_body(src, n))
               and reads_only(n)]
    extra = [n for n in extra if n not in holders]

    # ---- TaskEmitter::emit (crates/ripd/src/tasks/mod.rs): extent of the seq guard
    tpath = os.path.join(a.repo, "crates", "ripd", "src", "tasks", "mod.rs")
    tsrc = strip(open(tpath).read()) if os.path.exists(tpath) else ""
    task_steps = []
    mi = re.search(r"impl\s+TaskEmitter\s*\{", tsrc)
    ebody = fn_body(tsrc[mi.start():], "emit") if mi else None
    if ebody is not None:
        tm = [("TLOCK", r"let\s+mut\s+seq\s*=\s*self\s*\.\s*seq\s*\.\s*lock\(\)\s*\.\s*await"),
              ("TANYLOCK", r"self\s*\.\s*seq\s*\.\s*(try_)?lock\(\)"),
              ("TCHOOSE", r"\*\s*seq\s*\+=\s*1"),
              ("TBCAST", r"self\s*\.\s*sender\s*\.\s*send\("),
              ("TAPPEND", r"self\s*\.\s*event_log\s*\.\s*append\("),
              ("TDROP", r"drop\(\s*seq\s*\)")]
        found = []
        for name, pat in tm:
            for m in re.finditer(pat, ebody):
                found.append((m.start(), name, m.end()))
        found.sort()
        spans = [(p0, e0) for p0, n0, e0 in found if n0 == "TLOCK"]
        bound = False
        for p0, n0, e0 in found:
            if n0 == "TANYLOCK" and any(a0 <= p0 < b0 for a0, b0 in spans):
                continue
            if n0 == "TLOCK":
                # the guard must be bound at the top level of the function body (not inside a block
                # that ends before the append)
                depth = ebody[:p0].count("{") - ebody[:p0].count("}")
                task_steps.append("MTaskLock" if depth == 0 else "MUnknown")
                bound = depth == 0
            elif n0 == "TANYLOCK":
                task_steps.append("MUnknown")
            elif n0 == "TCHOOSE":
                task_steps.append("MTaskChoose")
            elif n0 == "TBCAST":
                task_steps.append("MBcast")
            elif n0 == "TAPPEND":
                task_steps.append("MTaskAppend EToolTaskOutputDelta")
            elif n0 == "TDROP":
                task_steps.append("MTaskUnlock")
                bound = False
        if bound:
            task_steps.append("MTaskUnlock")

    # ---- SessionEngine::spawn_session (crates/ripd/src/runner.rs): the started-guard that makes a session
    # stream single-writer.  The FIRST statement of the function must test `handle.started` through ONE atomic
    # read-modify-write whose result is the tested value (swap(true, ..) / compare_exchange(false, true, ..) /
    # fetch_or(true, ..)) -> SgAtomicRmw;  `load` (set later by `store`) -> SgCheckThenSet;  the guarded block
    # returns false; the only tokio::spawn(run_session( follows the guard; no other access to `.started` in
    # the function body.  Anything else: not found (gen_ok_sess_guard = false), never guessed.
    rpath = os.path.join(a.repo, "crates", "ripd", "src", "runner.rs")
    rsrc = strip(open(rpath).read()) if os.path.exists(rpath) else ""
    rsrc = re.sub(r"#\[cfg\(rip_verif\)\]\s*rip_kernel::verif::point\(\s*\"[^\"]*\"\s*,?\s*\)\s*;", "", rsrc)
    sess_guard, sess_guard_why = None, ""
    sbody = fn_body(rsrc, "spawn_session")
    if sbody is None:
        sess_guard_why = "runner.rs: fn spawn_session not found"
    else:
        stmts = sbody.strip()
        gm = re.match(r"if\s+handle\s*\.\s*started\s*\.\s*(\w+)\s*\(", stmts)
        if gm is None:
            sess_guard_why = "the first statement of spawn_session is not a test of handle.started"
        else:
            op = gm.group(1)
            accesses = re.findall(r"\.\s*started\s*\.\s*(\w+)\s*\(", stmts)
            bi = stmts.index("{", gm.end())
            depth, bj = 1, bi + 1
            while depth > 0 and bj < len(stmts):
                depth += {"{": 1, "}": -1}.get(stmts[bj], 0)
                bj += 1
            block = stmts[bi + 1:bj - 1]
            spawns = [x.start() for x in re.finditer(r"tokio::spawn\s*\(\s*run_session\s*\(", stmts)]
            if re.fullmatch(r"\s*return\s+false\s*;\s*", block) is None:
                sess_guard_why = "the guarded block is not `return false;`"
            elif not (len(spawns) == 1 and spawns[0] > bj):
                sess_guard_why = "expected exactly one tokio::spawn(run_session( after the guard"
            elif op == "swap" and accesses == ["swap"] and re.match(r"if\s+handle\s*\.\s*started\s*\.\s*swap\s*\(\s*true\s*,[^)]*\)\s*\{", stmts):
                sess_guard = "SgAtomicRmw"
            elif op == "fetch_or" and accesses == ["fetch_or"] and re.match(r"if\s+handle\s*\.\s*started\s*\.\s*fetch_or\s*\(\s*true\s*,[^)]*\)\s*\{", stmts):
                sess_guard = "SgAtomicRmw"
            elif op == "compare_exchange" and accesses == ["compare_exchange"] and re.match(r"if\s+handle\s*\.\s*started\s*\.\s*compare_exchange\s*\(\s*false\s*,\s*true\s*,[^)]*\)\s*\.\s*is_err\s*\(\s*\)\s*\{", stmts):
                sess_guard = "SgAtomicRmw"
            elif op == "load":
                sess_guard = "SgCheckThenSet"
            else:
                sess_guard_why = "unrecognised guard .started.%s (accesses: %s)" % (op, " ".join(accesses))

    # ---- the run-local seq counter of a session stream (session.rs, threaded as `&mut u64` through the provider
    # pipe, the tool runner's `emit` and the frame mapper): every site that builds a frame from the counter
    # (`seq: *seq,` / `seq: *req.seq,` / `seq: *self.seq,` / `seq: self.seq,`) must be followed - before the next
    # such site of the same function, or the end of the function - by exactly ONE `<counter> += 1;`.  Bulk
    # sites (`emit_all(frames)`): frames renumbered by `frame.seq += self.seq_offset`, `frame_count =
    # frames.len()` taken before, exactly one `*self.seq += frame_count as u64;` after.  Reported as
    # (line, increments found); obligation: at least one site, every site 1.
    emit_sites, emit_notes = [], []
    pipe_cuts = []

    def blank_strings(t):
        out, i, n = [], 0, len(t)
        while i < n:
            c = t[i]
            if c == '"':
                j = i + 1
                while j < n and t[j] != '"':
                    j += 2 if t[j] == "\\" else 1
                out.append('"' + " " * max(0, j - i - 1) + '"')
                i = j + 1
            else:
                out.append(c)
                i += 1
        return "".join(out)

    def fn_extents(t):
        ext = []
        for fm in re.finditer(r"\bfn\s+\w+\s*(?:<[^>{;]*>)?\s*\(", t):
            try:
                bi = t.index("{", _sig_end(t, fm.end()))
            except ValueError:
                continue
            semi = t.find(";", _sig_end(t, fm.end()), bi)
            if semi != -1:
                continue
            depth, bj = 1, bi + 1
            while depth > 0 and bj < len(t):
                depth += {"{": 1, "}": -1}.get(t[bj], 0)
                bj += 1
            ext.append((bi, bj))
        return ext

    for rel, must in [("crates/ripd/src/session.rs", True), ("crates/rip-tools/src/runtime.rs", True),
                      ("crates/rip-provider-openresponses/src/lib.rs", True)]:
        fp = os.path.join(a.repo, rel)
        if not os.path.exists(fp):
            emit_notes.append(rel + " missing")
            emit_sites.append((0, 0))
            continue
        raw = open(fp).read()
        cut = re.search(r"#\[cfg\(test\)\]\s*mod\s+\w+", raw)
        raw = raw[:cut.start()] if cut else raw
        # keep line numbers: comments are replaced by blanks of the same shape
        t = re.sub(r"//[^\n]*", lambda m0: " " * len(m0.group(0)), raw)
        t = re.sub(r"/\*.*?\*/", lambda m0: re.sub(r"[^\n]", " ", m0.group(0)), t, flags=re.S)
        t = blank_strings(t)
        ext = fn_extents(t)
        reads = [(m0.start(), m0.end(), re.sub(r"\s+", "", m0.group(1))) for m0 in
                 re.finditer(r"(?<![\w.])seq\s*:\s*(\*\s*(?:req\s*\.\s*|self\s*\.\s*)?seq|self\s*\.\s*seq)\s*,", t)]
        found_here = 0
        for k0, (p0, e0, expr) in enumerate(reads):
            encl = [x for x in ext if x[0] <= p0 < x[1]]
            if not encl:
                continue
            fb, fe = max(encl, key=lambda x: x[0])
            # a read of the counter that is not a frame: the enclosing literal is not `Event {` / a dump input
            head = t[max(fb, p0 - 400):p0]
            lit = re.findall(r"(\w+)\s*\{", head)
            if not lit or lit[-1] not in ("Event", "OpenResponsesRequestDumpInput"):
                continue
            nxt = min([r0[0] for r0 in reads[k0 + 1:] if r0[0] < fe] + [fe])
            region = t[e0:nxt]
            incs = len(re.findall(re.escape(expr).replace("\\*", r"\*\s*").replace("\\.", r"\s*\.\s*") + r"\s*\+=\s*1\s*;", region))
            emit_sites.append((t.count("\n", 0, p0) + 1, incs))
            found_here += 1
        for bm in re.finditer(r"\.\s*emit_all\s*\(\s*frames\s*\)", t):
            encl = [x for x in ext if x[0] <= bm.start() < x[1]]
            if not encl:
                continue
            fb, fe = max(encl, key=lambda x: x[0])
            before, after = t[fb:bm.start()], t[bm.end():fe]
            ok = (len(re.findall(r"let\s+frame_count\s*=\s*frames\s*\.\s*len\(\)\s*;", before)) == 1
                  and len(re.findall(r"frame\s*\.\s*seq\s*\+=\s*self\s*\.\s*seq_offset\s*;", before)) == 1
                  and len(re.findall(r"\*\s*self\s*\.\s*seq\s*\+=\s*frame_count\s+as\s+u64\s*;", after)) == 1
                  and len(re.findall(r"self\s*\.\s*seq\s*[-+]?=", after)) == 1)
            emit_sites.append((t.count("\n", 0, bm.start()) + 1, 1 if ok else 0))
            found_here += 1
            # the count and the emitted list: nothing may touch `frames` between `frame_count = frames.len()`
            # and `emit_all(frames)` (a cut of the mapped frames after the count makes the counter run ahead
            # of what is emitted)
            cm = list(re.finditer(r"let\s+frame_count\s*=\s*frames\s*\.\s*len\(\)\s*;", before))
            if rel.endswith("session.rs"):
                if len(cm) != 1:
                    pipe_cuts.append(("unknown", t.count("\n", 0, bm.start()) + 1))
                else:
                    between = before[cm[0].end():]
                    touched = re.search(r"\bframes\b|\bframe_count\b", between) is not None
                    pipe_cuts.append(("CutFramesAfterCount" if touched else "CutParsed", t.count("\n", 0, bm.start()) + 1))
        if must and found_here == 0:
            emit_notes.append(rel + ": no emit site found")
            emit_sites.append((0, 0))

    def lst(xs):
        return "[" + "; ".join(xs) + "]"

    out = ["(* GENERATED by tools/gen/append_skeleton.py from crates/ripd/src/continuities.rs - do not edit.",
           "   Micro-step order of every continuity append path (C01, T1). *)",
           "From RipV Require Import Base.Prelude Model.Frames Model.Log Model.ContStore Model.SessGuard Model.SeqCount Model.SeqCreate.", "",
           "Definition gen_locked_ops : list (etype * list mstep) :=", "  ["]
    rows = []
    for name, kind, st in locked:
        k = f"E{kind}" if kind else "ESessionStarted"
        rows.append(f"   (* {name} *) ({k}, {lst(st)})")
    out.append(";\n".join(rows))
    out.append("  ].")
    out.append(f"Definition gen_create : list mstep := {lst(create)}.")
    out.append(f"Definition gen_branch : list mstep := {lst(branch)}.")
    out.append(f"Definition gen_handoff : list mstep := {lst(handoff)}.")
    out.append(f"Definition gen_other_seq_mutex_users : nat := {len(extra)}%nat.  (* {' '.join(extra)} *)")
    out.append(f"(* read-only holders of the seq mutex (guard never used; no counter access, log / sidecar append or broadcast in the function or its callees in continuities.rs): {' '.join(holders) or 'none'} *)")
    out.append(f"Definition gen_task_emit : list mstep := {lst(task_steps)}.")
    out.append("""
Definition mcode (m : mstep) : N :=
  match m with
  | MLock => 1 | MChoose => 2 | MLogAppend t _ => 100 + etype_code t | MSidecar => 4 | MBcast => 5
  | MAdvance => 6 | MUnlock => 7 | MAlloc => 8 | MLogAppendFixed n t _ => 1000 + 100 * n + etype_code t
  | MIndexInsert => 9 | MSetNext n => 20 + n | MTarget _ => 10 | MPickNewest => 11 | MRead => 12
  | MTaskLock => 13 | MTaskChoose => 14 | MTaskAppend _ => 15 | MTaskUnlock => 16
  | _ => 0
  end.
Definition same_shape (a b : list mstep) : bool := lN_eqb (map mcode a) (map mcode b).

Definition gen_append_skeletons_ok_b : bool :=
  Nat.eqb (length gen_locked_ops) 11
  && forallb (fun x => is_cont (fst x) && same_shape (snd x) (locked_append (fst x) [])) gen_locked_ops
  && same_shape gen_create (create_prog [])
  && same_shape gen_branch (lineage_prog EContinuityBranched [] [])
  && same_shape gen_handoff (lineage_prog EContinuityHandoffCreated [] [])
  && Nat.eqb gen_other_seq_mutex_users 0
  && same_shape gen_task_emit (task_emit EToolTaskOutputDelta).

Lemma gen_append_skeletons_ok : gen_append_skeletons_ok_b = true.
Proof. vm_compute. reflexivity. Qed.""")
    out.append("")
    out.append("(* the started-guard of SessionEngine::spawn_session (crates/ripd/src/runner.rs): %s *)" % (sess_guard_why or "found"))
    out.append("Definition gen_ok_sess_guard : bool := %s." % ("true" if sess_guard else "false"))
    out.append("Definition gen_sess_guard : sguard := %s." % (sess_guard or "SgCheckThenSet"))
    out.append("Lemma gen_sess_guard_ok : gen_ok_sess_guard && sg_eqb gen_sess_guard SESS_GUARD = true.")
    out.append("Proof. vm_compute. reflexivity. Qed.")
    out.append("Lemma gen_sess_guard_atomic : sg_atomic gen_sess_guard = true.")
    out.append("Proof. vm_compute. reflexivity. Qed.")
    out.append("")
    out.append("(* emit sites of the run-local seq counter (session.rs, rip-tools runtime.rs, the provider frame mapper):")
    out.append("   (line, `counter += 1` statements before the next site / the end of the function) %s *)" % "; ".join(emit_notes))
    out.append("Definition gen_emit_sites : list (N * N) := %s." % lst(["(%d, %d)" % x for x in emit_sites]))
    out.append("Lemma gen_emit_sites_ok : sites_ok gen_emit_sites = true.")
    out.append("Proof. vm_compute. reflexivity. Qed.")
    out.append("")
    out.append("(* a log append that fails (`event_log.append(&event)?` returns Err, the guard is dropped): every writer cut")
    out.append("   at its k-th log append must still be a well-formed program, i.e. no writer has touched the thread's")
    out.append("   counter (next_seq.insert(.., seq + 1) / a helper doing it) before the append it numbers has succeeded *)")
    out.append("""Definition gen_failed_append_ok_b : bool :=
  forallb (fun x => wf_prog (MTarget 0 :: fail_at 0 (snd x))) gen_locked_ops
  && forallb (fun k => wf_prog (fail_at k gen_create) && wf_prog (fail_at k gen_branch) && wf_prog (fail_at k gen_handoff))
             [0; 1; 2]%nat.
Lemma gen_failed_append_ok : gen_failed_append_ok_b = true.
Proof. vm_compute. reflexivity. Qed.""")
    out.append("")
    cut_ok = len(pipe_cuts) >= 1 and all(c[0] != "unknown" for c in pipe_cuts)
    cut = "CutParsed" if cut_ok and all(c[0] == "CutParsed" for c in pipe_cuts) else "CutFramesAfterCount"
    out.append("(* OpenResponsesSsePipe (session.rs), the bulk emit sites `emit_all(frames)`: is the list that is counted")
    out.append("   (`frame_count = frames.len()`) the list that is emitted - nothing touches `frames` in between?  %s *)" % "; ".join("%s at line %d" % c for c in pipe_cuts))
    out.append("Definition gen_ok_pipe_cut : bool := %s." % ("true" if cut_ok else "false"))
    out.append("Definition gen_pipe_cut : cutk := %s." % cut)
    out.append("Lemma gen_pipe_cut_ok : gen_ok_pipe_cut && cutk_eqb gen_pipe_cut PIPE_CUT = true.")
    out.append("Proof. vm_compute. reflexivity. Qed.")
    # ---- creating calls: every caller of create_continuity / create_continuity_locked creates ONCE per invocation.
    # create_continuity_locked writes a frame with the literal seq 0: calling it twice for one id (a retry of a creation
    # whose index save failed, a loop around it) writes the thread's seq 0 twice.  Per calling function: the number of call
    # sites and whether one of them sits inside a loop.
    create_callers = []
    for m in re.finditer(r"\bfn\s+(\w+)\s*[<(]", src):
        name = m.group(1)
        if name in ("create_continuity_locked",):
            continue
        b = fn_body(src[m.start():], name)
        if b is None:
            continue
        sites = [x.start() for x in re.finditer(r"\bcreate_continuity(_locked)?\s*\(", b)]
        if not sites:
            continue
        in_loop = False
        for lm in re.finditer(r"\b(loop|while\b[^{;]*|for\b[^{;]*\bin\b[^{;]*)\s*\{", b):
            lo = b.index("{", lm.start())
            depth, j = 1, lo + 1
            while depth > 0 and j < len(b):
                depth += {"{": 1, "}": -1}.get(b[j], 0)
                j += 1
            if any(lo < x < j for x in sites):
                in_loop = True
        create_callers.append((name, len(sites), in_loop))
    out.append("")
    out.append("(* callers of create_continuity / create_continuity_locked (continuities.rs): (call sites in the function, one of them")
    out.append("   inside a loop) - %s *)" % "; ".join("%s %d%s" % (n, k, " LOOP" if l else "") for n, k, l in create_callers))
    out.append("Definition gen_create_callers : list (N * bool) := %s." % lst(["(%d, %s)" % (k, "true" if l else "false") for _, k, l in create_callers]))
    out.append("Lemma gen_create_once_ok : create_calls_ok gen_create_callers = true.")
    out.append("Proof. vm_compute. reflexivity. Qed.")
    out.append("")
    out.append("(* a creating call whose `save_index(..)?` fails: every re-extracted creating skeleton cut at its index insert must still be")
    out.append("   a well-formed program - the seq-0 frame is logged, the sidecar line written, nothing has touched the counter of the new")
    out.append("   thread, the guard is dropped *)")
    out.append("Definition gen_failed_save_ok_b : bool :=")
    out.append("  wf_prog (fail_save gen_create) && wf_prog (MTarget 0 :: MRead :: fail_save gen_branch)")
    out.append("  && wf_prog (MTarget 0 :: MRead :: fail_save gen_handoff)")
    out.append("  && same_shape (fail_save gen_create) (create_save_failed []).")
    out.append("Lemma gen_failed_save_ok : gen_failed_save_ok_b = true.")
    out.append("Proof. vm_compute. reflexivity. Qed.")
    os.makedirs(a.out, exist_ok=True)
    open(os.path.join(a.out, "AppendOps.v"), "w").write("\n".join(out) + "\n")
    for name, kind, st in locked:
        print(f"{name:45s} {kind}: {' '.join(s.split()[0] for s in st)}")
    print("create_continuity :", " ".join(create))
    print("branch            :", " ".join(branch))
    print("handoff           :", " ".join(handoff))
    print("spawn_session guard:", sess_guard, sess_guard_why)
    print("run counter emit sites (line, increments):", emit_sites, emit_notes)
    print("other functions taking the seq mutex:", extra, "read-only holders:", holders)
    print("pipe: counted list vs emitted list:", pipe_cuts)
    print("TaskEmitter::emit :", " ".join(task_steps))
    print("callers of create_continuity(_locked):", create_callers)
    return 0


if __name__ == "__main__":
    sys.exit(main())
