#!/usr/bin/env python3
"""T1 extractor for C17: the refusal / failure sites of a background task.

Every way a task ends as `failed` without a process result goes through `fail_task(..)` (crates/ripd/src/tasks/mod.rs),
which sets the status and emits ONE `tool_task_status { status: Failed }`.  For the lifecycle clause of C17 (stream
opens with the spawn frame, exactly one terminal status frame, nothing after it) each call site must sit AFTER the
spawn-frame emit, BEFORE the Running emit (no pump is reading yet), and the function must return right after it.
This script reads, from comment/string-blanked source:

  run_task      (mod.rs)   the spawn-frame emit; every `fail_task(` call: after the spawn emit?  followed by
                           `.await; [finalize_snapshot(..).await;] return;`?  The calls of pipes::run_pipes_task /
                           pty::run_pty_task come after the spawn emit; run_task itself emits no ToolTaskStatus.
  run_pipes_task (pipes.rs), run_pty_task (pty.rs)
                           every `fail_task(` call: before the Running emit?  followed by `.await; return;`?
  fail_task     (mod.rs)   exactly one emit, of ToolTaskStatus with status Failed, awaited.

and writes coq/Gen/TaskFailSites.v: `gen_fail_sites : list fail_site` (+ a comment per site) and the obligations
`gen_fail_sites_found` and `gen_fail_sites_ok : sites_wf gen_fail_sites = true`.  The theorems are proved for every
site list satisfying sites_wf (and every other list is refuted: bad_site_refutes).  Nothing is guessed: a construct
that is not found makes `gen_ok_fail_sites` false.
"""
import argparse, os, re, sys

sys.path.insert(0, os.path.dirname(os.path.abspath(__file__)))
from pump_join import sanitize, match_close, depths  # noqa: E402


def fn_body(src, name):
    m = re.search(r"async\s+fn\s+" + name + r"\s*\(", src)
    if not m:
        return None
    sig_end = match_close(src, m.end() - 1)
    b0 = src.find("{", sig_end)
    if b0 < 0:
        return None
    return src[b0 + 1:match_close(src, b0) - 1]


RET = re.compile(r"\s*\.\s*await\s*;\s*(?:finalize_snapshot\s*\([^;]*\)\s*\.\s*await\s*;\s*)?return\s*;")


def sites_in(body, where_of):
    out = []
    for mm in re.finditer(r"\bfail_task\s*\(", body):
        end = match_close(body, mm.end() - 1)
        returns = RET.match(body[end:]) is not None
        out.append((where_of(mm.start()), returns, mm.start()))
    return out


def extract(repo):
    ok, notes, sites = True, [], []

    def miss(msg):
        nonlocal ok
        ok = False
        notes.append("NOT FOUND / UNEXPECTED: " + msg)

    base = os.path.join(repo, "crates", "ripd", "src", "tasks")
    srcs = {}
    for f in ("mod.rs", "pipes.rs", "pty.rs"):
        p = os.path.join(base, f)
        if not os.path.exists(p):
            return False, [], [f"crates/ripd/src/tasks/{f} not found"]
        srcs[f] = sanitize(open(p).read())

    # --- run_task
    rt = fn_body(srcs["mod.rs"], "run_task")
    if rt is None:
        return False, [], ["async fn run_task not found"]
    sp = [mm for mm in re.finditer(r"\.\s*emit\s*\(\s*EventKind::ToolTaskSpawned\s*\{", rt)]
    if len(sp) != 1:
        miss(f"exactly one emit of ToolTaskSpawned in run_task (found {len(sp)})")
        spawn_end = len(rt)
    else:
        e = match_close(rt, rt.find("(", sp[0].start()))
        if not re.match(r"\s*\.\s*await\b", rt[e:]) or depths(rt)[sp[0].start()] != 0:
            miss("the spawn-frame emit is not an awaited body-level statement")
        spawn_end = e
    if re.search(r"EventKind::ToolTaskStatus\b", rt):
        miss("run_task emits a ToolTaskStatus itself")
    for callee in ("run_pipes_task", "run_pty_task"):
        calls = [mm.start() for mm in re.finditer(r"\b" + callee + r"\s*\(", rt)]
        if len(calls) != 1 or calls[0] < spawn_end:
            miss(f"exactly one call of {callee} after the spawn emit")
    for w, r, pos in sites_in(rt, lambda p: "FAfterSpawn" if p > spawn_end else "FBeforeSpawn"):
        sites.append((w, r, f"run_task +{rt[:pos].count(chr(10))}"))

    # --- run_pipes_task / run_pty_task
    for f, name in (("pipes.rs", "run_pipes_task"), ("pty.rs", "run_pty_task")):
        body = fn_body(srcs[f], name)
        if body is None:
            miss(f"async fn {name}")
            continue
        run = [mm.start() for mm in re.finditer(r"EventKind::ToolTaskStatus\s*\{", body)
               if re.search(r"\bstatus\s*:\s*ToolTaskStatus::Running\b", body[mm.end():match_close(body, mm.end() - 1)])]
        if len(run) != 1:
            miss(f"exactly one Running emit in {name} (found {len(run)})")
            continue
        found = sites_in(body, lambda p, r0=run[0]: "FAfterSpawn" if p < r0 else "FAfterRunning")
        if not found:
            miss(f"no fail_task call in {name}")
        for w, r, pos in found:
            sites.append((w, r, f"{name} +{body[:pos].count(chr(10))}"))

    # --- fail_task
    ft = fn_body(srcs["mod.rs"], "fail_task")
    if ft is None:
        miss("async fn fail_task")
    else:
        emits = [mm for mm in re.finditer(r"\.\s*emit\s*\(", ft)]
        good = False
        if len(emits) == 1:
            op = ft.find("(", emits[0].start())
            e = match_close(ft, op)
            inner = ft[op:e]
            good = (re.search(r"EventKind::ToolTaskStatus\s*\{", inner) is not None
                    and re.search(r"\bstatus\s*:\s*ToolTaskStatus::Failed\b", inner) is not None
                    and re.match(r"\s*\.\s*await\b", ft[e:]) is not None)
        if not good:
            miss("fail_task: exactly one awaited emit of ToolTaskStatus { status: Failed }")
    if not sites:
        miss("no fail_task call site at all")
    return ok, sites, notes


def main():
    ap = argparse.ArgumentParser()
    ap.add_argument("--repo", required=True)
    ap.add_argument("--out", required=True)
    a = ap.parse_args()
    ok, sites, notes = extract(a.repo)
    lines = [
        "(* GENERATED by tools/gen/task_fail_sites.py from crates/ripd/src/tasks/{mod,pipes,pty}.rs on every ./check run",
        "   -- do not edit.  A committed copy serves as seed only.  Every fail_task(..) call site (C17, T1). *)",
        "From RipV Require Import Base.Prelude Model.TaskLifecycle.",
        "",
        f"Definition gen_ok_fail_sites : bool := {'true' if ok else 'false'}.",
        "",
    ]
    for n in notes:
        lines.append("(* " + n.replace("(*", "( *").replace("*)", "* )") + " *)")
    lines.append("Definition gen_fail_sites : list fail_site :=")
    items = [f"   {{| fs_where := {w}; fs_returns := {'true' if r else 'false'} |}}   (* {loc} *)" for w, r, loc in sites]
    if items:
        body = []
        for i, it in enumerate(items):
            head, comment = it.split("   (*")
            body.append(head.rstrip() + (";" if i + 1 < len(items) else "") + "   (*" + comment)
        lines.append("  [\n" + "\n".join(body) + "\n  ].")
    else:
        lines.append("  [].")
    lines.append("")
    lines.append("Lemma gen_fail_sites_found : gen_ok_fail_sites = true.")
    lines.append("Proof. vm_compute. reflexivity. Qed.")
    lines.append("Lemma gen_fail_sites_ok : sites_wf gen_fail_sites = true.")
    lines.append("Proof. vm_compute. reflexivity. Qed.")
    os.makedirs(a.out, exist_ok=True)
    open(os.path.join(a.out, "TaskFailSites.v"), "w").write("\n".join(lines) + "\n")
    for n in notes:
        print(n)
    print("ok:", ok, "sites:", [(w, r, loc) for w, r, loc in sites])
    return 0


if __name__ == "__main__":
    sys.exit(main())
