#!/usr/bin/env python3
"""T1 extractor for C07: the control skeleton of a run, re-read from the source on every check.

Reads
  crates/ripd/src/runner.rs   SessionEngine::spawn_session — the one-run-per-session guard: the FIRST statement
      tests `handle.started`; `swap` / `compare_exchange` / `fetch_or` (one atomic read-modify-write whose result is
      tested) -> GAtomicRmw; a `load` (test now, `store` later) -> GCheckThenSet; the guard precedes the only
      `tokio::spawn(run_session(`; no other access to `.started` in the function.
  crates/ripd/src/session.rs  run_session — single exit: no `return` and no `?` in the function; every
      `SessionEnded` frame the function itself emits is followed by `skip_runtime_loop = true` in the same block
      (else the kernel loop adds a second end frame); after the `match action` the closing steps come in the order
      0 `if !skip_runtime_loop { while let Some(event) = session.next_event()`, 1 `events.lock().await`,
      2 reason = `.iter().rev().find_map(… SessionEnded { reason } …)` (the LAST end frame of the buffer),
      3 `write_snapshot(`, 4 `if let Some(link) = continuity_run { … append_run_ended(… reason …)` — each exactly once,
      nothing but the closing brace after it.
  crates/ripd/src/session.rs  stream_openresponses_request, `if !status.is_success()`: the error text is
      format!("provider http error: {status}: {body}") with body = `response.text().await.unwrap_or_default()` verbatim
      (cap None), followed by `return Err("provider_error"…)`; run_session / run_openresponses_agent_loop /
      stream_openresponses_request contain no range-index expression (`x[..n]`, `x[a..]`, `x[a..b]`: a byte slice of a
      text panics off a character boundary and a panicking run task never reaches the single exit).
  crates/ripd/src/session.rs  run_openresponses_agent_loop — the tool budget's accounting: `tool_call_count` is declared
      once (`let mut tool_call_count: u64 = 0`), tested `>= DEFAULT_MAX_TOOL_CALLS` at the head of the `loop` and at the
      head of the `for call in tool_calls` body (each returning max_tool_calls_exceeded), and incremented
        - exactly once, as an unconditional statement of the loop body after that test and BEFORE the `allows_function`
          refusal branch (every drained call is paid for, refused or not)                  -> AcctEveryCall
        - only inside the dispatching branches of the `if !…allows_function(..) {refuse} else if … else …` chain,
          not in the refusing one                                                         -> AcctDispatchedOnly
      anything else (no increment, conditional increment elsewhere, a reset, `-=`) is "not found".  No `continue` in
      the function (a round that skipped the accounting).  DEFAULT_MAX_TOOL_CALLS from provider_openresponses.rs.
  crates/ripd/src/server.rs   thread_post_message — the suspension points of the handler: between `store.append_message(`
      and `.spawn_session(` (with `.append_run_spawned(` in between) there is no `.await` except inside the `Err` arm of
      the append_message match, which returns (nothing was appended) -> PoLockFirst; an `.await` in between (the session
      map's lock, a spawn_blocking, …) -> PoAppendFirst: a request future dropped there leaves a message without a run.
Emits coq/Gen/RunLifecycleGen.v: gen_guard, gen_exit_order, gen_returns, gen_end_frames, gen_end_frames_skipping,
gen_http_err_prefix, gen_http_err_sep, gen_http_err_cap, gen_run_path_slices, gen_acct, gen_max_tool_calls,
gen_loop_continues, gen_post_order, gen_post_awaits_between, gen_ok_run_lifecycle and the obligations gen_guard_ok /
gen_exit_ok / gen_http_err_ok / gen_budget_ok / gen_acct_all / gen_post_ok / gen_post_safe.  A construct that is not found sets gen_ok_run_lifecycle := false (never guess)."""
import argparse, os, re, sys


def strip_comments(s):
    s = re.sub(r"//[^\n]*", "", s)
    return re.sub(r"/\*.*?\*/", "", s, flags=re.S)


def blank_strings(s):
    """string literals replaced by same-length blanks (positions kept)"""
    return re.sub(r'"(?:[^"\\]|\\.)*"', lambda m: '"' + " " * (len(m.group(0)) - 2) + '"', s)


def fn_body(src, header_re):
    """text between the braces of the first fn whose header matches; None if absent"""
    m = re.search(header_re, src)
    if not m:
        return None
    # skip the parameter list / return type up to the opening brace at depth 0 of parentheses
    i, depth = m.end(), 0
    while i < len(src):
        c = src[i]
        if c in "(<[":
            depth += 1
        elif c in ")>]":
            depth -= 1
        elif c == "{" and depth <= 0:
            break
        i += 1
    if i >= len(src):
        return None
    depth, j = 1, i + 1
    while depth > 0 and j < len(src):
        depth += {"{": 1, "}": -1}.get(src[j], 0)
        j += 1
    return src[i + 1 : j - 1] if depth == 0 else None


def block_after(src, start):
    """the `{…}` block that opens at or after position `start`"""
    i = src.find("{", start)
    if i < 0:
        return None
    depth, j = 1, i + 1
    while depth > 0 and j < len(src):
        depth += {"{": 1, "}": -1}.get(src[j], 0)
        j += 1
    return src[i + 1 : j - 1] if depth == 0 else None


def coq_list(xs):
    return "[" + "; ".join(str(x) for x in xs) + "]"


def main():
    ap = argparse.ArgumentParser()
    ap.add_argument("--repo", required=True)
    ap.add_argument("--out", required=True)
    a = ap.parse_args()
    notes, ok = [], True

    def need(cond, what):
        nonlocal ok
        if not cond:
            ok = False
            notes.append(what)
        return cond

    def rd(rel):
        try:
            return strip_comments(open(os.path.join(a.repo, rel)).read())
        except OSError as e:
            notes.append("cannot read %s: %s" % (rel, e))
            return ""

    ru_raw = rd("crates/ripd/src/runner.rs")
    se_raw = rd("crates/ripd/src/session.rs")
    ru, se = blank_strings(ru_raw), blank_strings(se_raw)

    # ---------------------------------------------------------------- the guard of spawn_session
    guard = None
    body = fn_body(ru, r"pub\s+fn\s+spawn_session\s*\(")
    if need(body is not None, "runner.rs: fn spawn_session not found"):
        stmts = re.sub(r"#\[cfg\(rip_verif\)\]\s*rip_kernel::verif::point\(\s*\"[^\"]*\"\s*\)\s*;", "", body).strip()
        m = re.match(r"if\s+handle\s*\.\s*started\s*\.\s*(\w+)\s*\(", stmts)
        if need(m is not None, "spawn_session: the first statement is not a test of handle.started"):
            op = m.group(1)
            accesses = re.findall(r"\.\s*started\s*\.\s*(\w+)\s*\(", stmts)
            head = block_after(stmts, m.end())
            need(head is not None and re.fullmatch(r"\s*return\s+false\s*;\s*", head or "") is not None, "spawn_session: the guard does not `return false`")
            spawns = [x.start() for x in re.finditer(r"tokio::spawn\s*\(\s*run_session\s*\(", stmts)]
            need(len(spawns) == 1 and spawns[0] > m.start(), "spawn_session: expected exactly one tokio::spawn(run_session(…)) after the guard")
            if op in ("swap", "compare_exchange", "fetch_or") and accesses == [op]:
                # the tested value is the result of the read-modify-write itself
                if op == "swap":
                    need(re.match(r"if\s+handle\s*\.\s*started\s*\.\s*swap\s*\(\s*true\s*,", stmts) is not None, "spawn_session: swap does not set true")
                guard = "GAtomicRmw"
            elif op == "load":
                guard = "GCheckThenSet"
            else:
                need(False, "spawn_session: unrecognised guard `.started.%s` (accesses: %s)" % (op, accesses))

    # ---------------------------------------------------------------- single exit of run_session
    order, n_ret, n_end, n_end_skip, exit_gate = [], None, None, None, None
    rs = fn_body(se, r"pub\s+async\s+fn\s+run_session\s*\(")
    if need(rs is not None, "session.rs: fn run_session not found"):
        rs = re.sub(r"#\[cfg\(rip_verif\)\]\s*rip_kernel::verif::point\(\s*\"[^\"]*\"\s*\)\s*;", "", rs)
        n_ret = len(re.findall(r"\breturn\b", rs)) + len(re.findall(r"\)\s*\?|\w\s*\?\s*[;.)]", rs))
        # the end frames the function emits itself, each followed by `skip_runtime_loop = true` before its block closes
        ends = [x.start() for x in re.finditer(r"EventKind::SessionEnded\s*\{", rs)]
        m_tail = re.search(r"if\s+!skip_runtime_loop\s*\{\s*while\s+let\s+Some\(event\)\s*=\s*session\.next_event\(\)", rs)
        if need(m_tail is not None, "run_session: the kernel drain `if !skip_runtime_loop { while let Some(event) = session.next_event()` not found"):
            emitted = [e for e in ends if e < m_tail.start()]
            n_end = len(emitted)
            n_end_skip = 0
            for e in emitted:
                # from the frame to the end of the enclosing block: walk forward until depth drops below the depth at `emit_event(`
                em = rs.rfind("emit_event(", 0, e)
                depth, j, found = 0, em, False
                while j < len(rs) and j < m_tail.start():
                    c = rs[j]
                    if c == "{":
                        depth += 1
                    elif c == "}":
                        depth -= 1
                        if depth < 0:
                            break
                    if depth == 0 and rs.startswith("skip_runtime_loop = true;", j):
                        found = True
                        break
                    j += 1
                if em >= 0 and found:
                    n_end_skip += 1
            tail = rs[m_tail.start():]
            marks = [
                (0, r"if\s+!skip_runtime_loop\s*\{\s*while\s+let\s+Some\(event\)\s*=\s*session\.next_event\(\)"),
                (1, r"let\s+guard\s*=\s*events\.lock\(\)\.await\s*;"),
                (2, r"let\s+reason\s*=\s*guard\s*\.iter\(\)\s*\.rev\(\)\s*\.find_map\(\s*\|event\|\s*match\s+&event\.kind\s*\{\s*EventKind::SessionEnded\s*\{\s*reason\s*\}\s*=>\s*Some\(reason\.clone\(\)\)"),
                (3, r"write_snapshot\s*\("),
                (4, r"let\s+_\s*=\s*continuities\.append_run_ended\s*\(\s*&link\.continuity_id\s*,\s*&link\.message_id\s*,\s*&runtime_session_id\s*,\s*reason\s*,"),
            ]
            pos = []
            for k, rx in marks:
                hits = [x.start() for x in re.finditer(rx, tail)]
                if need(len(hits) == 1, "run_session: closing step %d found %d times" % (k, len(hits))):
                    pos.append((hits[0], k))
            need(len(re.findall(r"append_run_ended\s*\(", rs)) == 1, "run_session: append_run_ended is not called exactly once")
            # ---- the exit gate: what the append of run_ended is conditional on.
            #  * the blocks that enclose the call (outermost first), each with its header (the text in front of its `{`);
            #  * the statement that calls write_snapshot: `let _ = write_snapshot(..);` (result discarded) or
            #    `let <name> = write_snapshot(..);` (result kept under <name>).
            #  A header `if let Some(link) = continuity_run` is the link test (no side write).  A header that tests the kept
            #  snapshot result (`<name>` inside the header, e.g. `if let (Some(link), Ok(_)) = (continuity_run, <name>)`,
            #  `if <name>.is_ok()`, `if let Ok(..) = <name>`) or calls write_snapshot itself puts SwSnapshot into the gate.
            #  Any other header is not understood (not found).
            m4 = re.search(marks[4][1], tail)
            m3s = re.search(r"write_snapshot\s*\(", tail)
            if m4 and m3s:
                # the statement that holds the call: from the previous `;` `{` `}` to the next `;` outside parentheses
                st0 = max(tail.rfind(";", 0, m3s.start()), tail.rfind("}", 0, m3s.start()), tail.rfind("{", 0, m3s.start())) + 1
                j, depth = m3s.end(), 1
                while j < len(tail) and not (depth == 0 and tail[j] in ";{"):
                    depth += {"(": 1, ")": -1}.get(tail[j], 0)
                    j += 1
                stmt = re.sub(r"\s+", " ", tail[st0:j]).strip()
                call = r"write_snapshot\s*\((?:[^()]|\([^()]*\))*\)"
                mlet = re.fullmatch(r"let (?:mut )?(\w+)(?: ?: ?[^=]+)? ?= ?" + call + r"(?: ?\. ?ok ?\( ?\))?", stmt)
                snap_name = None
                if mlet:
                    snap_name = mlet.group(1)          # `_` or `_x`: discarded / kept under a name
                elif re.fullmatch(r"(?:_ ?= ?)?" + call + r"(?: ?\. ?ok ?\( ?\))?", stmt) or re.fullmatch(r"drop ?\( ?" + call + r" ?\)", stmt):
                    snap_name = "_"                     # `write_snapshot(..).ok();` / `_ = …;` / `drop(…)`: result discarded
                elif tail[j : j + 1] == "{":
                    snap_name = "_"                     # the call sits in a block header: judged with the headers below
                need(snap_name is not None, "run_session: the statement calling write_snapshot is not understood: `%s`" % stmt[:120])
                stack, depth_ok = [], True
                for i, c in enumerate(tail[: m4.start()]):
                    if c == "{":
                        stack.append(i)
                    elif c == "}":
                        if stack:
                            stack.pop()
                        else:
                            depth_ok = False
                need(depth_ok, "run_session: unbalanced braces in the closing steps")
                headers = []
                for b in stack:
                    j = max(tail.rfind(";", 0, b), tail.rfind("}", 0, b), tail.rfind("{", 0, b))
                    headers.append(re.sub(r"\s+", " ", tail[j + 1 : b]).strip())
                gate = []
                link_tests = 0
                for h in headers:
                    if re.fullmatch(r"if let Some\(link\) = continuity_run", h):
                        link_tests += 1
                    elif snap_name not in (None, "_") and re.search(r"\b%s\b" % re.escape(snap_name), h) and re.match(r"if\b", h) and not re.search(r"\b(is_err|Err)\b", h):
                        if "SwSnapshot" not in gate:
                            gate.append("SwSnapshot")
                        if re.search(r"\bcontinuity_run\b", h):
                            link_tests += 1
                    elif re.search(r"write_snapshot\s*\(", h) and re.match(r"if\b", h) and not re.search(r"\b(is_err|Err)\b", h):
                        if "SwSnapshot" not in gate:
                            gate.append("SwSnapshot")
                    else:
                        need(False, "run_session: append_run_ended sits in a block whose header is not understood: `%s`" % h[:120])
                need(link_tests == 1, "run_session: append_run_ended is not inside exactly one `if let Some(link) = continuity_run` test (%d)" % link_tests)
                exit_gate = gate
                # the closing step's position = the outermost block around the call; nothing but the closing brace after it
                if stack:
                    outer = stack[0]
                    j = max(tail.rfind(";", 0, outer), tail.rfind("}", 0, outer))
                    pos = [(q, k) for q, k in pos if k != 4] + [(j + 1, 4)]
                    blk = block_after(tail, outer)
                    rest = tail[outer + 1 + len(blk) + 1 :] if blk is not None else "?"
                    need(rest.strip() == "", "run_session: statements after the run_ended block")
                else:
                    need(False, "run_session: append_run_ended is not guarded by the link test")
            order = [k for _, k in sorted(pos)]

    need(exit_gate is not None, "run_session: the exit gate (what append_run_ended is conditional on) was not determined")

    # ---------------------------------------------------------------- HTTP error text, slices on the run path
    prefix, sep, cap_ok = None, None, False
    sr_raw = fn_body(se_raw, r"async\s+fn\s+stream_openresponses_request\s*<")
    sr = fn_body(se, r"async\s+fn\s+stream_openresponses_request\s*<")
    if need(sr is not None and sr_raw is not None, "session.rs: fn stream_openresponses_request not found"):
        m = re.search(r"if\s+!status\.is_success\(\)\s*", sr)
        if need(m is not None, "stream_openresponses_request: `if !status.is_success()` not found"):
            blk = block_after(sr, m.end() - 1)
            off = sr.find(blk, m.end() - 1) if blk is not None else -1
            blk_raw = sr_raw[off : off + len(blk)] if off >= 0 else ""
            if need(blk is not None, "stream_openresponses_request: error block not found"):
                shape = re.fullmatch(
                    r"\s*let\s+body\s*=\s*response\.text\(\)\.await\.unwrap_or_default\(\)\s*;\s*"
                    r"let\s+mut\s+pipe\s*=\s*OpenResponsesSsePipe::new\([^;]*\)\s*;\s*"
                    r"pipe\s*\.emit_transport_error\(\s*format!\(\s*\"[^\"]*\"\s*\)\s*\)\s*\.await\s*;\s*"
                    r"return\s+Err\(\s*\"[^\"]*\"\s*\.to_string\(\)\s*\)\s*;\s*",
                    blk,
                )
                cap_ok = need(shape is not None, "stream_openresponses_request: the non-2xx block is not `body = response.text() verbatim; emit_transport_error(format!(..)); return Err(..)`")
                fm = re.search(r"format!\(\s*\"((?:[^\"\\]|\\.)*)\"", blk_raw)
                if need(fm is not None, "error format string not found"):
                    parts = re.fullmatch(r"(.*)\{status\}(.*)\{body\}", fm.group(1), flags=re.S)
                    if need(parts is not None and "{" not in parts.group(1) + parts.group(2) and "\\" not in fm.group(1), "error format string is not `<prefix>{status}<sep>{body}`"):
                        prefix = list(parts.group(1).encode())
                        sep = list(parts.group(2).encode())
                need(re.search(r"return\s+Err\(\s*\"provider_error\"", blk_raw) is not None, "the non-2xx block does not return Err(\"provider_error\")")
    n_slices = None
    al = fn_body(se, r"async\s+fn\s+run_openresponses_agent_loop\s*[<(]")
    if need(al is not None, "session.rs: fn run_openresponses_agent_loop not found") and rs is not None and sr is not None:
        rng = r"\[[^\[\]]*\.\.[^\[\]]*\]"
        n_slices = sum(len(re.findall(r"[\w)\]]\s*" + rng, f)) for f in (rs, al, sr))

    # ---------------------------------------------------------------- the tool budget's accounting
    acct, max_calls, n_cont = None, None, None
    po = rd("crates/ripd/src/provider_openresponses.rs")
    mm = re.search(r"pub\s+const\s+DEFAULT_MAX_TOOL_CALLS\s*:\s*u64\s*=\s*([0-9_]+)\s*;", po)
    if need(mm is not None, "provider_openresponses.rs: `pub const DEFAULT_MAX_TOOL_CALLS: u64 = N;` not found"):
        max_calls = int(mm.group(1).replace("_", ""))
    if al is not None:
        hook = r"#\[cfg\(rip_verif\)\]\s*rip_kernel::verif::point\(\s*\"[^\"]*\"\s*\)\s*;"
        alc = re.sub(hook, "", al)
        n_cont = len(re.findall(r"\bcontinue\b", alc))
        bound_test = r"if\s+tool_call_count\s*>=\s*DEFAULT_MAX_TOOL_CALLS\s*\{\s*return\s+OpenResponsesLoopOutcome\s*\{[^{}]*\}\s*;\s*\}"
        inc = r"tool_call_count\s*\+=\s*1\s*;"
        mentions = len(re.findall(r"\btool_call_count\b", alc))
        incs = [x.start() for x in re.finditer(inc, alc)]
        need(len(re.findall(r"let\s+mut\s+tool_call_count\s*:\s*u64\s*=\s*0\s*;", alc)) == 1, "agent loop: `let mut tool_call_count: u64 = 0;` not found exactly once")
        need(len(re.findall(bound_test, alc)) == 2, "agent loop: expected the bound test `if tool_call_count >= DEFAULT_MAX_TOOL_CALLS { return … }` twice (loop head, call loop head)")
        need(mentions == 3 + len(incs), "agent loop: tool_call_count is used other than declaration / 2 bound tests / `+= 1` (%d mentions, %d increments)" % (mentions, len(incs)))
        need(re.search(r"\bloop\s*\{\s*" + bound_test, alc) is not None, "agent loop: the `loop` does not start with the bound test")
        # both bound tests return max_tool_calls_exceeded (strings are blanked in `al`: look in the raw text)
        al_raw = fn_body(se_raw, r"async\s+fn\s+run_openresponses_agent_loop\s*[<(]") or ""
        need(len(re.findall(r"if\s+tool_call_count\s*>=\s*DEFAULT_MAX_TOOL_CALLS\s*\{\s*return\s+OpenResponsesLoopOutcome\s*\{\s*reason\s*:\s*\"max_tool_calls_exceeded\"", al_raw)) == 2,
             "agent loop: a bound test does not return reason max_tool_calls_exceeded")
        mf = re.search(r"for\s+call\s+in\s+tool_calls\s*\{", alc)
        if need(mf is not None, "agent loop: `for call in tool_calls {` not found"):
            fb = block_after(alc, mf.start())
            if need(fb is not None, "agent loop: body of the call loop not found"):
                m0 = re.match(r"\s*" + bound_test + r"\s*", fb)
                if need(m0 is not None, "call loop: the body does not start with the bound test"):
                    rest = fb[m0.end():]
                    fincs = [x.start() for x in re.finditer(inc, fb)]
                    mref = re.search(r"if\s+!\s*tool_choice_enforcement\s*\.\s*allows_function\s*\(", fb)
                    if need(mref is not None and len(re.findall(r"allows_function\s*\(", alc)) == 1, "call loop: the refusal test `if !tool_choice_enforcement.allows_function(` not found exactly once"):
                        refuse_blk = block_after(fb, mref.start())
                        r0 = fb.find(refuse_blk, mref.start()) if refuse_blk is not None else -1
                        if need(refuse_blk is not None and "rejected_tool_invocation_events" in refuse_blk, "call loop: the refusing branch (rejected_tool_invocation_events) not found"):
                            r1 = r0 + len(refuse_blk)
                            # the rest of the chain: `else if … { … } else { … }` up to the `;` that closes `let output_value = if …`
                            chain_end, j, depth = None, r1 + 1, 0
                            while j < len(fb):
                                c = fb[j]
                                if c == "{":
                                    depth += 1
                                elif c == "}":
                                    depth -= 1
                                elif c == ";" and depth == 0:
                                    chain_end = j
                                    break
                                j += 1
                            need(chain_end is not None, "call loop: end of the dispatch chain not found")
                            in_refuse = [i for i in fincs if r0 <= i < r1]
                            in_chain = [i for i in fincs if chain_end is not None and r1 <= i < chain_end]
                            def depth_at(pos):
                                return fb.count("{", 0, pos) - fb.count("}", 0, pos)
                            # unconditional: a statement of the loop body itself (depth 0), after the bound test and before the refusal test
                            if len(incs) == 1 and len(fincs) == 1 and m0.end() <= fincs[0] < mref.start() and depth_at(fincs[0]) == 0:
                                acct = "AcctEveryCall"
                            elif len(incs) == len(fincs) == len(in_chain) >= 1 and not in_refuse and not re.match(inc, rest):
                                acct = "AcctDispatchedOnly"
                            else:
                                need(False, "call loop: unrecognised placement of `tool_call_count += 1` (%d in the function, %d in the call loop, %d in the refusing branch, %d in the dispatching branches)" % (len(incs), len(fincs), len(in_refuse), len(in_chain)))

    # ---------------------------------------------------------------- thread_post_message: suspension points between the appends
    post_order, n_between = None, None
    # (server.rs has quote characters in char literals: strings are blanked inside the function only)
    pm = fn_body(rd("crates/ripd/src/server.rs"), r"async\s+fn\s+thread_post_message\s*\(")
    pm = blank_strings(pm) if pm is not None else None
    if need(pm is not None, "server.rs: fn thread_post_message not found"):
        msgs = [x.start() for x in re.finditer(r"\bappend_message\s*\(", pm)]
        spw = [x.start() for x in re.finditer(r"\.\s*append_run_spawned\s*\(", pm)]
        sps = [x.start() for x in re.finditer(r"\.\s*spawn_session\s*\(", pm)]
        if need(len(msgs) == 1 and len(spw) == 1 and len(sps) == 1 and msgs[0] < spw[0] < sps[0],
                "thread_post_message: expected append_message, append_run_spawned, spawn_session once each, in that order"):
            blk = block_after(pm, msgs[0])
            b0 = pm.find(blk, msgs[0]) if blk is not None else -1
            if need(blk is not None and b0 < spw[0] and re.search(r"Ok\(\s*id\s*\)\s*=>\s*id\s*,", blk) is not None,
                    "thread_post_message: `match store.append_message(..) { Ok(id) => id, Err(..) => .. return .. }` not found"):
                arm = blk.find("Err(")
                arm_ok = arm >= 0 and "return" in blk[arm:]
                need(arm_ok, "thread_post_message: the Err arm of append_message does not return")
                lo, hi = b0 + (arm if arm >= 0 else len(blk)), b0 + len(blk)
                aw = [x.start() for x in re.finditer(r"\.\s*await\b", pm) if msgs[0] < x.start() < sps[0]]
                between = [x for x in aw if not (lo <= x < hi)]
                n_between = len(between)
                post_order = "PoLockFirst" if n_between == 0 else "PoAppendFirst"

    os.makedirs(a.out, exist_ok=True)
    with open(os.path.join(a.out, "RunLifecycleGen.v"), "w") as f:
        f.write("(* GENERATED by tools/gen/run_lifecycle.py from crates/ripd/src/{runner,session}.rs — do not edit *)\n")
        f.write("From RipV Require Import Base.Prelude Model.RunLifecycle.\n")
        for n in notes:
            f.write("(* NOTE: %s *)\n" % n.replace("*)", "* )"))
        f.write("Definition gen_ok_run_lifecycle : bool := %s.\n" % ("true" if ok else "false"))
        f.write("(* the started-guard of SessionEngine::spawn_session *)\n")
        f.write("Definition gen_guard : guard_kind := %s.\n" % (guard or "GCheckThenSet"))
        f.write("(* run_session: order of the closing steps, `return`/`?` count, end frames emitted / followed by skip_runtime_loop = true *)\n")
        f.write("Definition gen_exit_order : list N := %s.\n" % coq_list(order))
        f.write("Definition gen_returns : N := %d.\n" % (n_ret if n_ret is not None else 999))
        f.write("Definition gen_end_frames : N := %d.\n" % (n_end if n_end is not None else 999))
        f.write("Definition gen_end_frames_skipping : N := %d.\n" % (n_end_skip if n_end_skip is not None else 0))
        f.write("(* run_session: the side writes whose failure suppresses append_run_ended (the blocks around the call, the use of write_snapshot's result) *)\n")
        f.write("Definition gen_exit_gate : list side_write := %s.\n" % (coq_list(exit_gate) if exit_gate is not None else "[SwSnapshot; SwThreadCache; SwArtifacts; SwCheckpoints]"))
        f.write("(* the quoted HTTP error: format!(\"<prefix>{status}<sep>{body}\"), body verbatim => no cap *)\n")
        f.write("Definition gen_http_err_prefix : list N := %s.\n" % coq_list(prefix or []))
        f.write("Definition gen_http_err_sep : list N := %s.\n" % coq_list(sep or []))
        f.write("Definition gen_http_err_cap : option N := None.\n")
        f.write("Definition gen_http_err_verbatim : bool := %s.\n" % ("true" if cap_ok else "false"))
        f.write("(* range-index expressions in run_session / run_openresponses_agent_loop / stream_openresponses_request *)\n")
        f.write("Definition gen_run_path_slices : N := %d.\n" % (n_slices if n_slices is not None else 999))
        f.write("(* the tool budget: where `tool_call_count += 1` sits relative to the tool_choice refusal branch, the bound, `continue`s in the loop *)\n")
        f.write("Definition gen_acct : acct := %s.\n" % (acct or "AcctDispatchedOnly"))
        f.write("Definition gen_max_tool_calls : N := %d.\n" % (max_calls if max_calls is not None else 0))
        f.write("Definition gen_loop_continues : N := %d.\n" % (n_cont if n_cont is not None else 999))
        f.write("(* thread_post_message: `.await`s between append_message and spawn_session (outside the returning Err arm) *)\n")
        f.write("Definition gen_post_order : post_order := %s.\n" % (post_order or "PoAppendFirst"))
        f.write("Definition gen_post_awaits_between : N := %d.\n" % (n_between if n_between is not None else 999))
        f.write("Lemma gen_guard_ok : gen_ok_run_lifecycle && guard_atomic gen_guard && guard_kind_eqb gen_guard GUARD_KIND = true.\n")
        f.write("Proof. vm_compute. reflexivity. Qed.\n")
        f.write("Lemma gen_guard_atomic : guard_atomic gen_guard = true.\n")
        f.write("Proof. vm_compute. reflexivity. Qed.\n")
        f.write("Lemma gen_exit_ok : gen_ok_run_lifecycle && lN_eqb gen_exit_order EXIT_ORDER && (gen_returns =? 0) && (gen_end_frames =? gen_end_frames_skipping) = true.\n")
        f.write("Proof. vm_compute. reflexivity. Qed.\n")
        f.write("Lemma gen_exit_gate_ok : gen_ok_run_lifecycle && gate_eqb gen_exit_gate EXIT_GATE = true.\n")
        f.write("Proof. vm_compute. reflexivity. Qed.\n")
        f.write("Lemma gen_exit_gate_unconditional : gate_unconditional gen_exit_gate = true.\n")
        f.write("Proof. vm_compute. reflexivity. Qed.\n")
        f.write("Lemma gen_http_err_ok : gen_ok_run_lifecycle && gen_http_err_verbatim && lN_eqb gen_http_err_prefix HTTP_ERR_PREFIX && lN_eqb gen_http_err_sep HTTP_ERR_SEP && cap_eqb gen_http_err_cap HTTP_ERR_CAP && (gen_run_path_slices =? 0) = true.\n")
        f.write("Proof. vm_compute. reflexivity. Qed.\n")
        f.write("Lemma gen_budget_ok : gen_ok_run_lifecycle && acct_eqb gen_acct ACCT && (gen_max_tool_calls =? MAX_TOOL_CALLS) && (gen_loop_continues =? 0) = true.\n")
        f.write("Proof. vm_compute. reflexivity. Qed.\n")
        f.write("Lemma gen_acct_all : acct_all gen_acct = true.\n")
        f.write("Proof. vm_compute. reflexivity. Qed.\n")
        f.write("Lemma gen_post_ok : gen_ok_run_lifecycle && post_order_eqb gen_post_order POST_ORDER && (gen_post_awaits_between =? 0) = true.\n")
        f.write("Proof. vm_compute. reflexivity. Qed.\n")
        f.write("Lemma gen_post_safe : post_order_safe gen_post_order = true.\n")
        f.write("Proof. vm_compute. reflexivity. Qed.\n")
    for n in notes:
        print("run_lifecycle.py: " + n, file=sys.stderr)
    return 0


if __name__ == "__main__":
    sys.exit(main())
