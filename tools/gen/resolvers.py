#!/usr/bin/env python3
"""T1 extractor for C13 (and the path flow of C14): reads, from /repo's working tree,

  * the STEP LIST of every lexical resolver, in source order
      crates/rip-tools/src/builtins/mod.rs   resolve_path            (id 1)
      crates/ripd/src/tasks/logs.rs           resolve_path            (id 2)
      crates/rip-workspace/src/lib.rs         safe_join               (id 3)
      crates/rip-workspace/src/patch.rs       parse_rel_path          (id 4)
      crates/rip-workspace/src/lib.rs         to_relative             (id 5)
      crates/rip-tools/src/runtime.rs         files_for_invocation, "write" arm   (id 6)
    step codes (interpreted by Model/Paths.v `interp`):
      1 absolute guard, 2 ParentDir guard, 3 result root.join(x), 4 trim, 5 empty guard, 6 result x,
      7 x := if absolute then x else root.join(x), 8 x := strip_prefix(root) or refuse
  * ORDER facts (id, list of marker codes in source order)
      10 create_checkpoint: 1 to_relative(path)?  2 source = root.join(rel)  3 create_dir_all(files_root)
                            4 source.exists()  5 fs::read(&source)
      11 rewind_to_checkpoint: 1 target = root.join(file.path) (every occurrence)
      20.. path-taking tools: 1 = the resolver call on the argument, 2 = first file-system / process use
         20 read, 21 write, 22 ls, 23 grep, 24 shell (bash cwd), 25 tasks/pipes, 26 tasks/pty
      30 the set of builtin modules is the known one (1) or not (0)

and writes coq/Gen/Resolvers.v with the obligation  gen_resolvers_ok : resolvers_wf ... = true.
Pattern based on the whitespace-free source text; a function it cannot find makes gen_resolvers_found false (it never
guesses); a guard written differently is simply not recognised, so the step list comes out shorter and the obligation
fails.  Usage: resolvers.py --repo /repo --out coq/Gen"""
import re, sys, os, argparse


def strip_comments(src):
    return re.sub(r"//[^\n]*", "", src)


def fn_body(src, name, nth=0):
    """body of the nth `fn name` (brace matched), comments stripped, or None"""
    ms = list(re.finditer(r"\bfn\s+" + re.escape(name) + r"\b", src))
    if len(ms) <= nth:
        return None
    m = ms[nth]
    depth = 0
    k = src.find("(", m.end())
    if k < 0:
        return None
    while k < len(src):
        if src[k] == "(":
            depth += 1
        elif src[k] == ")":
            depth -= 1
            if depth == 0:
                break
        k += 1
    i = src.find("{", k)
    if i < 0:
        return None
    depth = 0
    j = i
    while j < len(src):
        if src[j] == "{":
            depth += 1
        elif src[j] == "}":
            depth -= 1
            if depth == 0:
                return src[i + 1:j]
        j += 1
    return None


def squash(s):
    return re.sub(r"\s+", "", s)


STEP_PATTERNS = [
    (1, r"if\w+\.is_absolute\(\)\{returnErr\("),
    (2, r"if\w+\.components\(\)\.any\(\|\w+\|matches!\(\w+,(?:std::path::)?Component::ParentDir\)\)\{returnErr\("),
    (3, r"Ok\((?:self\.)?root\.join\(&?\w+\)\)"),
    (4, r"let\w+=\w+\.trim\(\);"),
    (5, r"if\w+\.is_empty\(\)\{returnErr\("),
    (6, r"Ok\((?:Some\(vec!\[)?(?:path|rel\.to_path_buf\(\))(?:\]\))?\)"),
    (7, r"let\w+=if\w+\.is_absolute\(\)\{\w+\.to_path_buf\(\)\}else\{self\.root\.join\(\w+\)\};"),
    (8, r"\.strip_prefix\(&self\.root\)\.map_err\(\|_\|io::Error::new\(io::ErrorKind::InvalidInput,\"pathoutsideworkspace\"\)\)\?;"),
]


def steps_of(body):
    if body is None:
        return None
    b = squash(body)
    found = []
    for code, pat in STEP_PATTERNS:
        for m in re.finditer(pat, b):
            found.append((m.start(), code))
    found.sort()
    return [c for _, c in found]


def order_of(body, pats):
    """marker codes in source order (every occurrence)"""
    if body is None:
        return None
    b = squash(body)
    found = []
    for code, pat in pats:
        for m in re.finditer(pat, b):
            found.append((m.start(), code))
    found.sort()
    return [c for _, c in found]


def first_only(order):
    """[1,2] if the first resolver call precedes the first fs use, else what was seen (first of each)"""
    if order is None:
        return None
    out = []
    for c in order:
        if c not in out:
            out.append(c)
    return out


def coq_list(l):
    return "[" + "; ".join(str(x) for x in l) + "]"


def main():
    ap = argparse.ArgumentParser()
    ap.add_argument("--repo", required=True)
    ap.add_argument("--out", required=True)
    a = ap.parse_args()

    def rd(p):
        try:
            return strip_comments(open(os.path.join(a.repo, p)).read())
        except OSError:
            return ""

    builtins = rd("crates/rip-tools/src/builtins/mod.rs")
    logs = rd("crates/ripd/src/tasks/logs.rs")
    ws = rd("crates/rip-workspace/src/lib.rs")
    patch = rd("crates/rip-workspace/src/patch.rs")
    runtime = rd("crates/rip-tools/src/runtime.rs")
    # only the non-test part of each file
    cut = lambda s: s.split("#[cfg(test)]")[0]
    builtins, logs, ws, patch, runtime = map(cut, (builtins, logs, ws, patch, runtime))

    resolvers = []
    ok = True

    def add(i, steps):
        nonlocal ok
        if steps is None:
            ok = False
            steps = []
        resolvers.append((i, steps))

    add(1, steps_of(fn_body(builtins, "resolve_path")))
    add(2, steps_of(fn_body(logs, "resolve_path")))
    add(3, steps_of(fn_body(ws, "safe_join")))
    add(4, steps_of(fn_body(patch, "parse_rel_path")))
    add(5, steps_of(fn_body(ws, "to_relative")))
    ffi = fn_body(runtime, "files_for_invocation")
    write_arm = None
    if ffi is not None:
        m = re.search(r'"write"\s*=>\s*\{', ffi)
        n = re.search(r'"apply_patch"\s*=>', ffi)
        if m and n and m.end() < n.start():
            write_arm = ffi[m.end():n.start()]
    add(6, steps_of(write_arm))

    orders = []

    def addo(i, o):
        nonlocal ok
        if o is None:
            ok = False
            o = []
        orders.append((i, o))

    addo(10, order_of(fn_body(ws, "create_checkpoint"), [
        (1, r"self\.to_relative\(path\)\?"),
        (2, r"letsource=self\.root\.join\(&rel\);"),
        (3, r"fs::create_dir_all\(&files_root\)\?"),
        (4, r"if\w+\.exists\(\)\{"),
        (5, r"fs::read\(&?\w+\)\?"),
        (9, r"ifpath\.exists\(\)|fs::read\(path\)"),      # the raw path handed to the OS (pre-repair shape)
    ]))
    addo(11, order_of(fn_body(ws, "rewind_to_checkpoint"), [
        (1, r"lettarget_path=self\.root\.join\(&file\.path\);"),
        (9, r"lettarget_path=(?!self\.root\.join\(&file\.path\);)"),
    ]))
    fs_use = r"fs::\w+\(|File::open\(|OpenOptions::new\(|WalkBuilder::new\(|\.current_dir\(|\.spawn\(\)"
    tools = [
        (20, "crates/rip-tools/src/builtins/read.rs", "run_read", r"resolve_path\(&config\.workspace_root,&args\.path\)"),
        (21, "crates/rip-tools/src/builtins/write.rs", "run_write", r"resolve_path\(&config\.workspace_root,&args\.path\)"),
        (22, "crates/rip-tools/src/builtins/ls.rs", "run_ls", r"resolve_path\(&config\.workspace_root,&root\)"),
        (23, "crates/rip-tools/src/builtins/grep.rs", "run_grep", r"resolve_path\(&config\.workspace_root,&root\)"),
        (24, "crates/rip-tools/src/builtins/shell.rs", "run_command", r"resolve_path\(&config\.workspace_root,cwd\)"),
        (25, "crates/ripd/src/tasks/pipes.rs", None, r"resolve_path\(&config\.workspace_root,cwd\)"),
        (26, "crates/ripd/src/tasks/pty.rs", None, r"resolve_path\(&config\.workspace_root,cwd\)"),
    ]
    for i, path, fn, rpat in tools:
        src = cut(rd(path))
        body = fn_body(src, fn) if fn else None
        if fn is None:
            # the function that contains the resolver call: take the text from `if let Some(cwd)` back to its fn start
            sq = squash(src)
            m = re.search(rpat, sq)
            if m:
                # order inside the same statement group: the resolver result feeds current_dir; fs uses before it
                # in the same function concern the task's own log files (artifact store), not the argument
                seg = sq[m.start():m.start() + 400]
                o = order_of(seg, [(1, rpat), (2, r"\.current_dir\(|\.cwd\(")])
                addo(i, first_only(o))
            else:
                addo(i, None if not src else [])
            continue
        addo(i, first_only(order_of(body, [(1, rpat), (2, fs_use)])))
    mods = sorted(set(re.findall(r"^mod\s+(\w+);", builtins, re.M)))
    addo(30, [1 if mods == ["apply_patch", "artifact_fetch", "grep", "ls", "read", "shell", "write"] else 0])

    out = []
    out.append("(* GENERATED by tools/gen/resolvers.py from /repo's working tree — do not edit.")
    out.append("   Step lists of the lexical resolvers and order facts of the path-taking code (see the extractor's header). *)")
    out.append("From RipV Require Import Base.Prelude Base.Fs Model.Paths.")
    out.append(f"Definition gen_resolvers_found : bool := {'true' if ok else 'false'}.")
    out.append("Definition gen_resolver_steps : list (N * list N) := [" + "; ".join(f"({i}, {coq_list(s)})" for i, s in resolvers) + "].")
    out.append("Definition gen_path_orders : list (N * list N) := [" + "; ".join(f"({i}, {coq_list(s)})" for i, s in orders) + "].")
    out.append("Lemma gen_resolvers_ok : resolvers_wf gen_resolvers_found gen_resolver_steps gen_path_orders = true.")
    out.append("Proof. vm_compute. reflexivity. Qed.")
    os.makedirs(a.out, exist_ok=True)
    with open(os.path.join(a.out, "Resolvers.v"), "w") as f:
        f.write("\n".join(out) + "\n")
    print("resolvers:", resolvers)
    print("orders:", orders, "found:", ok)


if __name__ == "__main__":
    main()
