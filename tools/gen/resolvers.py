#!/usr/bin/env python3
"""T1 extractor for C13 (and the path flow of C14): reads, from /repo's working tree,

  * the STEP LIST of every lexical resolver, in source order
      crates/rip-tools/src/builtins/mod.rs   resolve_path            (id 1)
      crates/ripd/src/tasks/logs.rs           resolve_path            (id 2)
      crates/rip-workspace/src/lib.rs         safe_join               (id 3)
      crates/rip-workspace/src/patch.rs       parse_rel_path          (id 4)
      crates/rip-workspace/src/lib.rs         to_relative             (id 5)
      crates/rip-tools/src/runtime.rs         files_for_invocation, "write" arm   (id 6)
    step codes (interpreted by Model/Paths.v `interp`):
      1 absolute guard, 2 ParentDir guard, 3 result root.join(x), 4 trim, 5 empty guard, 6 result x,
      7 x := if absolute then x else root.join(x), 8 x := strip_prefix(root) or refuse
  * ORDER facts (id, list of marker codes in source order)
      10 create_checkpoint: 1 to_relative(path)?  2 source = root.join(rel)  3 create_dir_all(files_root)
                            4 source.exists()  5 fs::read(&source)
      11 rewind_to_checkpoint: 1 target = root.join(file.path) (every occurrence)
      20.. path-taking tools: 1 = the resolver call on the argument, 2 = first file-system / process use
         20 read, 21 write, 22 ls, 23 grep, 24 shell (bash cwd), 25 tasks/pipes, 26 tasks/pty
      30 the set of builtin modules is the known one (1) or not (0)
      11 also: 2 = the loop that sends every recorded path through safe_join, before the first join (1)
      12 store ids: 1 = a `.join(store_component(..)?)` of a session / checkpoint id, 9 = an id joined raw
  * TOOL PROGRAMS (id, list of (operation, derivation)) in source order: every file-system / process call of a
    path-taking function with the derivation of its argument from the resolver's result
      operations 1 open/read 2 stat 3 create_dir_all 4 write 5 append-open 6 remove_file 7 rename 8 walk 9 chdir
                 10 remove_empty_dirs 99 an fs call the extractor does not know
      derivations 0 the workspace root, 1 the resolver's result, 2 its parent behind a file-system check that it is
                 not the root, 12 its parent without one, 3/13 its with_extension likewise, 4 an entry of the walk
                 started at it, (5 a checkpoint-store path: left out), 99 anything else
      ids 20 read 21 write 22 ls 23 grep 24/27 bash with / without cwd 25/28 pipes 26/29 pty 40-43 patch headers
          44 checkpoint create 45 rewind 46 apply_patch's revert_paths

and writes coq/Gen/Resolvers.v with the obligation  gen_resolvers_ok : resolvers_wf ... = true.
Pattern based on the whitespace-free source text; a function it cannot find makes gen_resolvers_found false (it never
guesses); a guard written differently is simply not recognised, so the step list comes out shorter and the obligation
fails.  Usage: resolvers.py --repo /repo --out coq/Gen"""
import re, sys, os, argparse


def strip_comments(src):
    return re.sub(r"//[^\n]*", "", src)


def fn_body(src, name, nth=0):
    """body of the nth `fn name` (brace matched), comments stripped, or None"""
    ms = list(re.finditer(r"\bfn\s+" + re.escape(name) + r"\b", src))
    if len(ms) <= nth:
        return None
    m = ms[nth]
    depth = 0
    k = src.find("(", m.end())
    if k < 0:
        return None
    while k < len(src):
        if src[k] == "(":
            depth += 1
        elif src[k] == ")":
            depth -= 1
            if depth == 0:
                break
        k += 1
    i = src.find("{", k)
    if i < 0:
        return None
    depth = 0
    j = i
    while j < len(src):
        if src[j] == "{":
            depth += 1
        elif src[j] == "}":
            depth -= 1
            if depth == 0:
                return src[i + 1:j]
        j += 1
    return None


def squash(s):
    return re.sub(r"\s+", "", s)


STEP_PATTERNS = [
    (1, r"if\w+\.is_absolute\(\)\{returnErr\("),
    (2, r"if\w+\.components\(\)\.any\(\|\w+\|matches!\(\w+,(?:std::path::)?Component::ParentDir\)\)\{returnErr\("),
    (3, r"Ok\((?:self\.)?root\.join\(&?\w+\)\)"),
    (4, r"let\w+=\w+\.trim\(\);"),
    (5, r"if\w+\.is_empty\(\)\{returnErr\("),
    (6, r"Ok\((?:Some\(vec!\[)?(?:path|rel\.to_path_buf\(\))(?:\]\))?\)"),
    (7, r"let\w+=if\w+\.is_absolute\(\)\{\w+\.to_path_buf\(\)\}else\{self\.root\.join\(\w+\)\};"),
    (8, r"\.strip_prefix\(&self\.root\)\.map_err\(\|_\|io::Error::new\(io::ErrorKind::InvalidInput,\"pathoutsideworkspace\"\)\)\?;"),
]


def steps_of(body):
    if body is None:
        return None
    b = squash(body)
    found = []
    for code, pat in STEP_PATTERNS:
        for m in re.finditer(pat, b):
            found.append((m.start(), code))
    found.sort()
    return [c for _, c in found]


def order_of(body, pats):
    """marker codes in source order (every occurrence)"""
    if body is None:
        return None
    b = squash(body)
    found = []
    for code, pat in pats:
        for m in re.finditer(pat, b):
            found.append((m.start(), code))
    found.sort()
    return [c for _, c in found]


def first_only(order):
    """[1,2] if the first resolver call precedes the first fs use, else what was seen (first of each)"""
    if order is None:
        return None
    out = []
    for c in order:
        if c not in out:
            out.append(c)
    return out


def coq_list(l):
    return "[" + "; ".join(str(x) for x in l) + "]"


# ---------------------------------------------------------------- tool programs
CALLS = [
    (1, r"File::open\((?P<a>[^(),]*)\)"),
    (1, r"fs::read\((?P<a>[^(),]*)\)"),
    (2, r"(?:=if!?|if!?|=|\(|!|&&|\|\||\|)(?P<a>[a-z_]\w*)\.(?:exists|is_dir|is_file|metadata|symlink_metadata)\(\)"),
    (3, r"fs::create_dir_all\((?P<a>[^(),]*)\)"),
    (4, r"fs::write\((?P<a>[^(),]*),"),
    (5, r"OpenOptions::new\(\)(?:\.\w+\([^()]*\))*\.open\((?P<a>[^(),]*)\)"),
    (6, r"fs::remove_file\((?P<a>[^(),]*)\)"),
    (7, r"fs::rename\((?P<a>[^(),]*),(?P<b>[^(),]*)\)"),
    (8, r"WalkBuilder::new\((?P<a>[^(),]*)\)"),
    (9, r"cmd\.(?:current_dir|cwd)\((?P<a>[^(),]*)\)"),
    (10, r"remove_empty_dirs\((?P<a>[^(),]*)\)"),
    (99, r"fs::(?!read\(|create_dir_all\(|write\(|remove_file\(|rename\()\w+\((?P<a>[^(),]*)"),
]


def block_at(text, i):
    """text[i] == '{' -> index just past the matching '}'"""
    depth = 0
    j = i
    while j < len(text):
        if text[j] == "{":
            depth += 1
        elif text[j] == "}":
            depth -= 1
            if depth == 0:
                return j + 1
        j += 1
    return len(text)


def norm_arg(a):
    a = a.strip()
    while a.startswith("&"):
        a = a[1:]
    return a


def scan(text, env, binds, guards=None, inline=None):
    """left-to-right scan of the squashed text: `binds` = [(regex with group v (and optionally b), fn(env, m) -> deriv)]
    rebinding variables; CALLS produce (op, deriv of the argument); `inline` = {callee regex: [(op, deriv offset)]}"""
    env = dict(env)
    events = []
    for pat, fn in binds:
        for m in re.finditer(pat, text):
            events.append((m.start(), 0, "bind", m, fn))
    for op, pat in CALLS:
        for m in re.finditer(pat, text):
            events.append((m.start(), 1, "call", m, op))
    for pat, ops in (inline or {}).items():
        for m in re.finditer(pat, text):
            events.append((m.start(), 1, "inline", m, ops))
    events.sort(key=lambda e: (e[0], e[1]))
    out = []
    for pos, _, kind, m, x in events:
        if kind == "bind":
            env[m.group("v")] = x(env, m, text[:pos])
        elif kind == "call":
            args = [m.group("a")] + ([m.group("b")] if "b" in m.groupdict() else [])
            for a in args:
                d = env.get(norm_arg(a), 99)
                if d != -1:          # -1: not a path (the file type of a walk entry)
                    out.append((x, d))
        else:
            d = env.get(norm_arg(m.group("a")), 99)
            out.extend((op, d if dd == 1 else (99 if d != 1 else dd)) for op, dd in x)
    return out


def drop_store(prog):
    return [(o, d) for o, d in prog if d != 5]


def tool_programs(rd, cut, ws):
    progs = []
    ok = True

    def add(i, prog):
        nonlocal ok
        if prog is None:
            ok = False
            prog = []
        progs.append((i, prog))

    RESOLVE = r"let(?P<v>\w+)=matchresolve_path\(&config\.workspace_root,&(?:args\.path|root)\)\{Ok\(path\)=>path,"
    res1 = (RESOLVE, lambda env, m, before: 1)

    def parent_of(unguarded, guard_pat=None):
        def f(env, m, before):
            base = env.get(m.group("b"), 99)
            if base != 1:
                return 99
            if guard_pat and re.search(guard_pat.replace("BASE", re.escape(m.group("b"))), before):
                return 2
            return unguarded
        return f
    PARENT = r"ifletSome\((?P<v>\w+)\)=(?P<b>\w+)\.parent\(\)"

    # read
    b = fn_body(cut(rd("crates/rip-tools/src/builtins/read.rs")), "run_read")
    add(20, scan(squash(b), {}, [res1]) if b else None)
    # write: parent / tmp are unguarded by the file system; the refusal of a path without a file name must come first
    b = fn_body(cut(rd("crates/rip-tools/src/builtins/write.rs")), "run_write")
    if b:
        t = squash(b)
        guard = re.search(r"ifPath::new\(&args\.path\)\.file_name\(\)\.is_none\(\)\{returnToolOutput::failure\(", t)
        first_fs = min([m.start() for _, pat in CALLS for m in re.finditer(pat, t)] or [len(t)])
        tmp = (r"let(?P<v>\w+)=(?P<b>\w+)\.with_extension\(format!\(\"tmp-\{\}\",uuid::Uuid::new_v4\(\)\)\)", lambda env, m, before: 13 if env.get(m.group("b")) == 1 else 99)
        prog = scan(t, {}, [res1, (PARENT, parent_of(12)), tmp])
        if not (guard and guard.start() < first_fs):
            prog = [(99, 99)] + prog
        add(21, prog)
    else:
        add(21, None)
    # ls / grep
    walk_entry = (r"let(?P<v>\w+)=entry\.path\(\);", lambda env, m, before: 4 if re.search(r"letmutbuilder=WalkBuilder::new\(&root_path\);", before) and re.search(r"forentryinbuilder\.build\(\)\{", before) and env.get("root_path") == 1 else 99)
    for i, f, fn in [(22, "ls.rs", "run_ls"), (23, "grep.rs", "run_grep")]:
        b = fn_body(cut(rd("crates/rip-tools/src/builtins/" + f)), fn)
        add(i, scan(squash(b), {"ft": -1}, [res1, walk_entry]) if b else None)
    # the child's working directory: bash tool, pipes task, pty task
    for i_some, i_none, f in [(24, 27, "crates/rip-tools/src/builtins/shell.rs"), (25, 28, "crates/ripd/src/tasks/pipes.rs"), (26, 29, "crates/ripd/src/tasks/pty.rs")]:
        t = squash(cut(rd(f)))
        m = re.search(r"ifletSome\(cwd\)=args\.cwd\.as_deref\(\)\{", t)
        if not m:
            add(i_some, None)
            add(i_none, None)
            continue
        e = block_at(t, m.end() - 1)
        some = t[m.end() - 1:e]
        none = ""
        if t[e:e + 5] == "else{":
            none = t[e + 4:block_at(t, e + 4)]
        bind = (r"matchresolve_path\(&config\.workspace_root,cwd\)\{Ok\((?P<v>\w+)\)=>", lambda env, m2, before: 1)
        add(i_some, scan(some, {}, [bind]))
        add(i_none, scan(none, {"config.workspace_root": 0}, []))
    # apply_patch: the four headers, record_undo inlined
    b = fn_body(ws, "apply_patch")
    if b:
        t = squash(b)
        mclo = re.search(r"letmutrecord_undo=\|path:&PathBuf\|->io::Result<\(\)>\{", t)
        if mclo:
            ce = block_at(t, mclo.end() - 1)
            clo = scan(t[mclo.end() - 1:ce], {"path": 1}, [])
            pushes_param_only = len(re.findall(r"undo\.push\(", t)) == 1 and "undo.push((path.clone(),previous));" in t[mclo.end():ce]
            rest = t[ce:]
        else:
            clo, pushes_param_only, rest = None, False, t
        sj = (r"let(?P<v>dest|target)=self\.safe_join\((?:path|moved_to)\)\?;", lambda env, m, before: 1)
        par = (PARENT, parent_of(12, r"ifBASE\.exists\(\)\{returnErr\("))
        inline = {r"record_undo\((?P<a>[^()]*)\)\?": clo or [(99, 99)]}

        def arm(name):
            m = re.search(r"PatchOp::" + name + r"\{[^{}]*\}=>\{", rest)
            if not m:
                return None
            return rest[m.end() - 1:block_at(rest, m.end() - 1)]
        a_add, a_del, a_upd = arm("AddFile"), arm("DeleteFile"), arm("UpdateFile")
        add(40, scan(a_add, {}, [sj, par], inline=inline) if a_add and clo is not None else None)
        add(41, scan(a_del, {}, [sj, par], inline=inline) if a_del and clo is not None else None)
        if a_upd and clo is not None:
            mm = re.search(r"ifletSome\(moved_to\)=moved_to\{", a_upd)
            if mm:
                add(42, scan(a_upd[:mm.start()], {}, [sj, par], inline=inline))
                add(43, scan(a_upd[mm.start():], {"dest": 1}, [sj, par], inline=inline))
            else:
                add(42, None)
                add(43, None)
        else:
            add(42, None)
            add(43, None)
        revert_called_with_undo = "self.revert_paths(undo)" in t and pushes_param_only
    else:
        for i in (40, 41, 42, 43):
            add(i, None)
        revert_called_with_undo = False
    # checkpoint create: source side (store paths = 5, left out)
    b = fn_body(ws, "create_checkpoint")
    if b:
        t = squash(b)
        binds = [
            (r"let(?P<v>source)=self\.root\.join\(&rel\);", lambda env, m, before: 1 if "letrel=self.to_relative(path)?;" in before else 99),
            (r"let(?P<v>checkpoint_root)=self\.checkpoints_dir\.join\(", lambda env, m, before: 5),
            (r"let(?P<v>files_root)=checkpoint_root\.join\(\"files\"\);", lambda env, m, before: 5),
            (r"let(?P<v>dest)=files_root\.join\(&rel\);", lambda env, m, before: 5),
            (r"let(?P<v>metadata_path)=checkpoint_root\.join\(\"checkpoint\.json\"\);", lambda env, m, before: 5),
            (r"ifletSome\((?P<v>parent)\)=dest\.parent\(\)", lambda env, m, before: 5),
        ]
        add(44, drop_store(scan(t, {}, binds)))
    else:
        add(44, None)
    # rewind: snapshot loop, restore loop, undo loop.  The restore loop's parent is "behind a file-system check" when the
    # read of the stored copy succeeded before it with no file-system call or re-binding of the target in between (the
    # sha256 comparison of fix 138f7db sits there: pure, it can only return an error)
    b = fn_body(ws, "rewind_to_checkpoint")
    if b:
        t = squash(b)
        validated = r"forfilein&checkpoint\.files\{self\.safe_join\(Path::new\(&file\.path\)\)\?;\}"
        binds = [
            (r"let(?P<v>target_path)=self\.root\.join\(&file\.path\);", lambda env, m, before: 1 if re.search(validated, before) else 99),
            (r"let(?P<v>path)=self\.root\.join\(rel\);", lambda env, m, before: 1 if re.search(validated, before) and "for(rel,previous)inundo{" in before else 99),
            (r"let(?P<v>checkpoint_root)=self\.checkpoints_dir\.join\(", lambda env, m, before: 5),
            (r"let(?P<v>metadata_path)=checkpoint_root\.join\(\"checkpoint\.json\"\);", lambda env, m, before: 5),
            (r"let(?P<v>source_path)=checkpoint_root\.join\(\"files\"\)\.join\(&file\.path\);", lambda env, m, before: 5),
            (r"ifletSome\((?P<v>parent)\)=(?P<b>target_path)\.parent\(\)", parent_of(12, r"letbytes=fs::read\(&source_path\)\?;(?:(?!fs::|File::|OpenOptions|target_path=|\}else).)*$")),
            (r"ifletSome\((?P<v>parent)\)=(?P<b>path)\.parent\(\)", parent_of(12, r"Some\(bytes\)=>\{$")),
        ]
        add(45, drop_store(scan(t, {}, binds)))
    else:
        add(45, None)
    # revert_paths: only paths recorded by record_undo
    b = fn_body(ws, "revert_paths")
    if b and revert_called_with_undo:
        t = squash(b)
        binds = [
            (r"for\((?P<v>path),previous\)inundo\.into_iter\(\)\.rev\(\)\{", lambda env, m, before: 1),
            (PARENT, parent_of(12, r"Some\(bytes\)=>\{.*$")),
        ]
        prog = scan(t, {}, binds)
        # remove_empty_dirs walks below its argument: derivation 4 of a resolved path
        prog = [(o, 4 if (o == 10 and d == 1) else d) for o, d in prog]
        add(46, prog)
    else:
        add(46, None)
    return progs, ok


def main():
    ap = argparse.ArgumentParser()
    ap.add_argument("--repo", required=True)
    ap.add_argument("--out", required=True)
    a = ap.parse_args()

    def rd(p):
        try:
            return strip_comments(open(os.path.join(a.repo, p)).read())
        except OSError:
            return ""

    builtins = rd("crates/rip-tools/src/builtins/mod.rs")
    logs = rd("crates/ripd/src/tasks/logs.rs")
    ws = rd("crates/rip-workspace/src/lib.rs")
    patch = rd("crates/rip-workspace/src/patch.rs")
    runtime = rd("crates/rip-tools/src/runtime.rs")
    # only the non-test part of each file
    cut = lambda s: s.split("#[cfg(test)]")[0]
    builtins, logs, ws, patch, runtime = map(cut, (builtins, logs, ws, patch, runtime))

    resolvers = []
    ok = True

    def add(i, steps):
        nonlocal ok
        if steps is None:
            ok = False
            steps = []
        resolvers.append((i, steps))

    add(1, steps_of(fn_body(builtins, "resolve_path")))
    add(2, steps_of(fn_body(logs, "resolve_path")))
    add(3, steps_of(fn_body(ws, "safe_join")))
    add(4, steps_of(fn_body(patch, "parse_rel_path")))
    add(5, steps_of(fn_body(ws, "to_relative")))
    ffi = fn_body(runtime, "files_for_invocation")
    write_arm = None
    if ffi is not None:
        m = re.search(r'"write"\s*=>\s*\{', ffi)
        n = re.search(r'"apply_patch"\s*=>', ffi)
        if m and n and m.end() < n.start():
            write_arm = ffi[m.end():n.start()]
    add(6, steps_of(write_arm))

    orders = []

    def addo(i, o):
        nonlocal ok
        if o is None:
            ok = False
            o = []
        orders.append((i, o))

    addo(10, order_of(fn_body(ws, "create_checkpoint"), [
        (1, r"self\.to_relative\(path\)\?"),
        (2, r"letsource=self\.root\.join\(&rel\);"),
        (3, r"fs::create_dir_all\(&files_root\)\?"),
        (4, r"if\w+\.exists\(\)\{"),
        (5, r"fs::read\(&?\w+\)\?"),
        (9, r"ifpath\.exists\(\)|fs::read\(path\)"),      # the raw path handed to the OS (pre-repair shape)
    ]))
    addo(11, order_of(fn_body(ws, "rewind_to_checkpoint"), [
        (2, r"forfilein&checkpoint\.files\{self\.safe_join\(Path::new\(&file\.path\)\)\?;\}"),
        (1, r"lettarget_path=self\.root\.join\(&file\.path\);"),
        (9, r"lettarget_path=(?!self\.root\.join\(&file\.path\);)"),
    ]))
    addo(12, order_of(squash(ws), [
        (1, r"\.join\(store_component\((?:session_id|checkpoint_id)\)\?\)"),
        (9, r"\.join\((?:session_id|checkpoint_id)\)"),
    ]))
    fs_use = r"fs::\w+\(|File::open\(|OpenOptions::new\(|WalkBuilder::new\(|\.current_dir\(|\.spawn\(\)"
    tools = [
        (20, "crates/rip-tools/src/builtins/read.rs", "run_read", r"resolve_path\(&config\.workspace_root,&args\.path\)"),
        (21, "crates/rip-tools/src/builtins/write.rs", "run_write", r"resolve_path\(&config\.workspace_root,&args\.path\)"),
        (22, "crates/rip-tools/src/builtins/ls.rs", "run_ls", r"resolve_path\(&config\.workspace_root,&root\)"),
        (23, "crates/rip-tools/src/builtins/grep.rs", "run_grep", r"resolve_path\(&config\.workspace_root,&root\)"),
        (24, "crates/rip-tools/src/builtins/shell.rs", "run_command", r"resolve_path\(&config\.workspace_root,cwd\)"),
        (25, "crates/ripd/src/tasks/pipes.rs", None, r"resolve_path\(&config\.workspace_root,cwd\)"),
        (26, "crates/ripd/src/tasks/pty.rs", None, r"resolve_path\(&config\.workspace_root,cwd\)"),
    ]
    for i, path, fn, rpat in tools:
        src = cut(rd(path))
        body = fn_body(src, fn) if fn else None
        if fn is None:
            # the function that contains the resolver call: take the text from `if let Some(cwd)` back to its fn start
            sq = squash(src)
            m = re.search(rpat, sq)
            if m:
                # order inside the same statement group: the resolver result feeds current_dir; fs uses before it
                # in the same function concern the task's own log files (artifact store), not the argument
                seg = sq[m.start():m.start() + 400]
                o = order_of(seg, [(1, rpat), (2, r"\.current_dir\(|\.cwd\(")])
                addo(i, first_only(o))
            else:
                addo(i, None if not src else [])
            continue
        addo(i, first_only(order_of(body, [(1, rpat), (2, fs_use)])))
    mods = sorted(set(re.findall(r"^mod\s+(\w+);", builtins, re.M)))
    addo(30, [1 if mods == ["apply_patch", "artifact_fetch", "grep", "ls", "read", "shell", "write"] else 0])

    out = []
    out.append("(* GENERATED by tools/gen/resolvers.py from /repo's working tree — do not edit.")
    out.append("   Step lists of the lexical resolvers and order facts of the path-taking code (see the extractor's header). *)")
    out.append("From RipV Require Import Base.Prelude Base.Fs Model.Paths.")
    out.append(f"Definition gen_resolvers_found : bool := {'true' if ok else 'false'}.")
    out.append("Definition gen_resolver_steps : list (N * list N) := [" + "; ".join(f"({i}, {coq_list(s)})" for i, s in resolvers) + "].")
    out.append("Definition gen_path_orders : list (N * list N) := [" + "; ".join(f"({i}, {coq_list(s)})" for i, s in orders) + "].")
    out.append("Lemma gen_resolvers_ok : resolvers_wf gen_resolvers_found gen_resolver_steps gen_path_orders = true.")
    out.append("Proof. vm_compute. reflexivity. Qed.")
    progs, pok = tool_programs(rd, cut, ws)
    coq_prog = lambda pr: "[" + "; ".join(f"({o}, {d})" for o, d in pr) + "]"
    out.append(f"Definition gen_tools_found : bool := {'true' if pok else 'false'}.")
    out.append("Definition gen_tool_progs : list (N * list (N * N)) := [" + "; ".join(f"({i}, {coq_prog(pr)})" for i, pr in sorted(progs)) + "].")
    out.append("Lemma gen_tools_ok : tools_wf gen_tools_found gen_tool_progs = true.")
    out.append("Proof. vm_compute. reflexivity. Qed.")
    os.makedirs(a.out, exist_ok=True)
    with open(os.path.join(a.out, "Resolvers.v"), "w") as f:
        f.write("\n".join(out) + "\n")
    print("resolvers:", resolvers)
    print("orders:", orders, "found:", ok)
    print("tool programs:", sorted(progs), "found:", pok)


if __name__ == "__main__":
    main()
