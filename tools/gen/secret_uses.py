#!/usr/bin/env python3
"""T1 extractor for C19: every syntactic use of secret-bearing values in crates/ripd/src and
crates/rip-cli/src (non-test code), classified by the kind of use, and the Debug / Serialize / Display
capabilities of every type that (transitively) contains a secret.

Secrets (seeds): struct fields named `api_key` (not bool), fields named `headers` whose type is a
(String, String) map / list, the payload of `ApiKeySource::Inline`, and the result of reading an
environment variable whose name is a literal containing KEY / TOKEN / SECRET / PASSWORD or is not a literal.
A type is secret-bearing when it has a seed field or a field whose type mentions a secret-bearing type.

Taint is lexical and function-local: parameters typed with a secret-bearing type (carriers), `self` in an
impl of one, and everything bound (let / if let / while let / for / match arm / closure parameter /
assignment) from an expression containing a tainted path.  A path `x.f.g` stays tainted while its fields are
carrier fields (fields of secret-bearing type) or seed fields; any other field (`.endpoint`, `.model`) is a
public projection and ends it.  In a tuple pattern over `headers` the first component (the NAME) is public.

Every occurrence of a tainted path is classified by its innermost enclosing construct:
  format-like macro -> UFormat; json! / serde_json::to_* -> USerialize; `.bearer_auth(` -> UBearerAuth;
  `.header(` -> URequestHeader; `set_var(` -> UEnvSet; struct literal of a secret-bearing type, argument of an
  in-crate function that has a secret-bearing parameter, let / match / return / tail position -> UMove;
  `.is_some()/.is_none()/.is_empty()` chains -> UPresence; `headers ... .map(|(name, _)| name)` ->
  UNameProjection; methods of secret-bearing types (`resolve`, `description`) -> UResolve; secret env reads
  -> UEnvRead; field declarations -> UDecl; anything else (argument of an unknown function, field of a
  struct that is not secret-bearing such as an Event, an unknown method on a secret) -> UOther.

Errors of deserialisation (serde type errors QUOTE the offending scalar: `invalid type: string "...", expected a map`):
  a call `serde_json::from_value|from_str|from_slice|from_reader` whose target type (turbofish, `let` annotation, or the
  function's return type for a tail call) is a secret-bearing type is a SECRET DESERIALISATION SITE: its whole result -
  the Ok value AND the error - is secret-tainted.  The site itself is UDeserErrDropped when the error is discarded on the
  spot (`.unwrap_or_default()`, `.unwrap_or(..)`, `.ok()`, `.is_ok()`, `.is_err()`, `.unwrap_or_else(|_| ..)`), UFormat for
  `.unwrap()` / `.expect(..)` (the panic message prints the error), UOther when the error leaves the function through `?`;
  otherwise the bound error is tracked like any secret value (`Err(err) => Report { error: Some(err.to_string()) }` is a
  UOther: field of a struct that is not secret-bearing).  The arguments of such a site, and everything they were built
  from inside the function (backward through let / match / for / `f(&mut x, &y)`, stopping at file reads whose argument is
  the public path), are the configuration DOCUMENT (kind `doc`: the text / serde_json::Value of the config files, which
  holds the secrets); callee parameters receiving a doc are doc.  A doc may be moved, parsed and merged; formatting or
  serialising it, putting it into a struct that is not secret-bearing, or deserialising it into ANY typed target (not
  `Value`) and keeping the error are flagged the same way.  Errors of an untyped parse (target `Value`) carry positions
  only and are clean.

Emits coq/Gen/SecretUses.v: `gen_use_kinds : list N`, `gen_derives : list (str * N)`, `gen_found_all`, the
site list as a comment, and the obligation `uses_wf gen_use_kinds gen_derives gen_found_all = true`
(Model/SecretFlow.v: only the kinds of flow the model has; only the derives known today).  When an
anchor construct is not found `gen_found_all := false` and the obligation fails (never guess).
"""
import argparse, os, re, sys

KIND = {"UDecl": 0, "UMove": 1, "UResolve": 2, "UPresence": 3, "UBearerAuth": 4, "URequestHeader": 5,
        "UNameProjection": 6, "UEnvRead": 7, "UEnvSet": 8, "UTestOnly": 9, "UFormat": 10, "USerialize": 11,
        "UOther": 12, "UDeserErrDropped": 13}
DESER_FNS = {"from_value", "from_str", "from_slice", "from_reader"}
FILE_READERS = {"read_to_string", "read", "read_link", "read_dir", "open"}
ERR_DROPS = {"unwrap_or_default", "unwrap_or", "ok", "is_ok", "is_err"}
ERR_CLOSURES = {"map_err", "unwrap_or_else", "or_else", "inspect_err"}
FORMAT_MACROS = {"format", "print", "println", "eprint", "eprintln", "write", "writeln", "panic", "assert",
                 "assert_eq", "assert_ne", "debug_assert", "debug_assert_eq", "debug_assert_ne", "unreachable",
                 "todo", "unimplemented", "dbg", "info", "warn", "error", "debug", "trace", "event", "span",
                 "anyhow", "bail", "ensure", "format_args", "eyre", "log", "instrument", "compile_error"}
SERIALIZE_MACROS = {"json"}
SERIALIZE_FNS = {"to_string", "to_vec", "to_value", "to_writer", "to_string_pretty", "to_vec_pretty",
                 "to_writer_pretty", "serialize"}
# calls / methods through which a value passes unchanged (the classification is made further out)
TRANSPARENT = {"Some", "Ok", "Err", "new", "from", "into", "then", "then_some", "map", "and_then", "or_else",
               "or", "unwrap_or", "unwrap_or_else", "unwrap_or_default", "unwrap", "expect", "filter", "ok_or",
               "ok_or_else", "ok", "clone", "cloned", "copied", "as_deref", "as_ref", "as_str", "as_mut",
               "to_string", "to_owned", "iter", "into_iter", "collect", "trim", "get", "take", "flatten",
               "filter_map", "find", "first", "last", "next", "as_bytes", "borrow", "deref", "to_vec", "rev",
               "chain", "zip", "enumerate", "map_err", "is_some", "is_none", "is_empty", "eq", "ne", "starts_with"}
# observations that reveal no content: presence / emptiness / size / membership of a NAME
PRESENCE_END = {"is_some", "is_none", "is_empty", "len", "contains_key", "capacity", "count"}
VIEW = {"as_deref", "as_ref", "as_str", "trim", "clone", "as_mut", "iter"}
SECRET_ENV_RE = re.compile(r"(^|_)KEY($|_)|TOKEN|SECRET|PASSWORD|CREDENTIAL", re.I)
EXTRA_SEED_RE = re.compile(r"(secret|password|authorization|bearer)", re.I)


# ------------------------------------------------------------------------------------ lexer
class Tok:
    __slots__ = ("k", "s", "line")

    def __init__(self, k, s, line):
        self.k, self.s, self.line = k, s, line

    def __repr__(self):
        return f"{self.k}:{self.s}@{self.line}"


def lex(src):
    toks, i, n, line = [], 0, len(src), 1
    while i < n:
        c = src[i]
        if c == "\n":
            line += 1
            i += 1
        elif c.isspace():
            i += 1
        elif src.startswith("//", i):
            j = src.find("\n", i)
            i = n if j < 0 else j
        elif src.startswith("/*", i):
            depth, j = 1, i + 2
            while j < n and depth:
                if src.startswith("/*", j):
                    depth += 1
                    j += 2
                elif src.startswith("*/", j):
                    depth -= 1
                    j += 2
                else:
                    if src[j] == "\n":
                        line += 1
                    j += 1
            i = j
        elif c == '"' or (c in "br" and re.match(r'b?r?#*"', src[i:i + 8]) and re.match(r'(b|r|br)#*"|"', src[i:i + 8])):
            m = re.match(r'(b?)(r?)(#*)"', src[i:])
            raw, hashes = m.group(2) == "r", m.group(3)
            j = i + m.end()
            if raw:
                end = '"' + hashes
                e = src.find(end, j)
                e = n if e < 0 else e
                body = src[j:e]
                j = e + len(end)
            else:
                st = j
                while j < n and src[j] != '"':
                    j += 2 if src[j] == "\\" else 1
                body = src[st:j]
                j += 1
            toks.append(Tok("str", body, line))
            line += src[i:j].count("\n")
            i = j
        elif c == "'":
            m = re.match(r"'(\\.[^']*|[^'\\])'", src[i:])
            if m:
                toks.append(Tok("chr", m.group(0), line))
                i += m.end()
            else:
                m = re.match(r"'[A-Za-z_][A-Za-z0-9_]*", src[i:])
                toks.append(Tok("life", m.group(0) if m else "'", line))
                i += m.end() if m else 1
        elif c.isalpha() or c == "_":
            m = re.match(r"[A-Za-z_][A-Za-z0-9_]*", src[i:])
            toks.append(Tok("id", m.group(0), line))
            i += m.end()
        elif c.isdigit():
            m = re.match(r"[0-9][0-9A-Za-z_]*(\.[0-9][0-9A-Za-z_]*)?", src[i:])
            toks.append(Tok("num", m.group(0), line))
            i += m.end()
        else:
            for p in ("::", "=>", "->", "..=", "...", "..", "==", "!=", "<=", ">=", "&&", "||", "+=", "-=", "*=", "/="):
                if src.startswith(p, i):
                    toks.append(Tok("p", p, line))
                    i += len(p)
                    break
            else:
                toks.append(Tok("p", c, line))
                i += 1
    return toks


OPEN = {"(": ")", "[": "]", "{": "}"}
CLOSE = {")", "]", "}"}


def match_brackets(toks):
    """mate[i] = index of the matching bracket; parent[i] = index of the innermost enclosing opener (or -1)."""
    mate, parent, stack = {}, [-1] * len(toks), []
    for i, t in enumerate(toks):
        parent[i] = stack[-1] if stack else -1
        if t.k == "p" and t.s in OPEN:
            stack.append(i)
        elif t.k == "p" and t.s in CLOSE:
            if stack:
                o = stack.pop()
                mate[o] = i
                mate[i] = o
                parent[i] = stack[-1] if stack else -1
    return mate, parent


# ------------------------------------------------------------------------------------ items
class FileInfo:
    def __init__(self, rel, toks):
        self.rel, self.toks = rel, toks
        self.mate, self.parent = match_brackets(toks)
        self.test = [False] * len(toks)   # token belongs to test-only code
        self.mark_tests()

    def is_p(self, i, s):
        return 0 <= i < len(self.toks) and self.toks[i].k == "p" and self.toks[i].s == s

    def is_id(self, i, s=None):
        return 0 <= i < len(self.toks) and self.toks[i].k == "id" and (s is None or self.toks[i].s == s)

    def item_end(self, i):
        """index of the last token of the item starting at token i (first `{...}` block or `;` at depth 0)"""
        j = i
        while j < len(self.toks):
            t = self.toks[j]
            if t.k == "p" and t.s in OPEN:
                if t.s == "{":
                    return self.mate.get(j, len(self.toks) - 1)
                j = self.mate.get(j, j) + 1
                continue
            if t.k == "p" and t.s == ";":
                return j
            j += 1
        return len(self.toks) - 1

    def mark_tests(self):
        i = 0
        while i < len(self.toks):
            if self.is_p(i, "#") and self.is_p(i + 1, "["):
                close = self.mate.get(i + 1)
                if close is None:
                    break
                text = " ".join(t.s for t in self.toks[i + 2:close])
                is_test = (re.search(r"\bcfg\b.*\btest\b", text) and not re.search(r"not \( test \)", text)) or text.strip() == "test" \
                    or text.strip().endswith(":: test")
                if is_test:
                    # skip following attributes, then the item
                    j = close + 1
                    while self.is_p(j, "#") and self.is_p(j + 1, "["):
                        j = self.mate.get(j + 1, j + 1) + 1
                    end = self.item_end(j)
                    for k in range(i, end + 1):
                        self.test[k] = True
                    i = end + 1
                    continue
                i = close + 1
                continue
            i += 1


def attrs_before(fi, i):
    """derive names in the attributes immediately preceding token i (skipping `pub`, `pub(crate)`)."""
    derives = []
    j = i - 1
    while j >= 0:
        if fi.is_p(j, ")") and fi.is_id(fi.mate.get(j, -1) - 1, "pub"):
            j = fi.mate[j] - 2
            continue
        if fi.is_id(j, "pub"):
            j -= 1
            continue
        if fi.is_p(j, "]") and fi.is_p(fi.mate.get(j, -1) - 1, "#"):
            o = fi.mate[j]
            if fi.is_id(o + 1, "derive") or (fi.is_id(o + 1, "cfg_attr")):
                derives += [t.s for t in fi.toks[o + 2:j] if t.k == "id" and t.s not in ("derive", "cfg_attr")]
            j = o - 2
            continue
        break
    return derives


def split_top(fi, lo, hi, sep=","):
    """token index ranges [a,b) between top-level separators inside (lo,hi)"""
    out, a, j, angle = [], lo, lo, 0
    while j < hi:
        t = fi.toks[j]
        if t.k == "p" and t.s in OPEN:
            j = fi.mate.get(j, j) + 1
            continue
        if t.k == "p" and t.s == "<":
            angle += 1
        elif t.k == "p" and t.s == ">" and angle > 0:
            angle -= 1
        elif t.k == "p" and t.s == "->":
            pass
        elif t.k == "p" and t.s == sep and angle == 0:
            out.append((a, j))
            a = j + 1
        j += 1
    if a < hi:
        out.append((a, hi))
    return out


class TypeInfo:
    def __init__(self, name, rel, line):
        self.name, self.rel, self.line = name, rel, line
        self.derives, self.fields, self.kind = [], [], "struct"   # fields: (name, [type idents], type text, line)
        self.variants = []


def collect_types(files):
    types = {}
    for fi in files:
        toks = fi.toks
        for i, t in enumerate(toks):
            if fi.test[i] or t.k != "id" or t.s not in ("struct", "enum") or not fi.is_id(i + 1):
                continue
            if i > 0 and toks[i - 1].k == "id" and toks[i - 1].s not in ("pub",) and not fi.is_p(i - 1, ")"):
                pass
            name = toks[i + 1].s
            ti = TypeInfo(name, fi.rel, t.line)
            ti.kind = t.s
            ti.derives = attrs_before(fi, i)
            j = i + 2
            if fi.is_p(j, "<"):       # generics
                depth = 0
                while j < len(toks):
                    if fi.is_p(j, "<"):
                        depth += 1
                    elif fi.is_p(j, ">"):
                        depth -= 1
                        if depth == 0:
                            j += 1
                            break
                    j += 1
            while j < len(toks) and not (toks[j].k == "p" and toks[j].s in ("{", "(", ";")):
                j += 1
            if j >= len(toks) or fi.is_p(j, ";"):
                types[name] = ti
                continue
            close = fi.mate.get(j)
            if close is None:
                continue
            if t.s == "struct" and fi.is_p(j, "{"):
                for a, b in split_top(fi, j + 1, close):
                    k = a
                    while k < b and (fi.is_p(k, "#") or fi.is_p(k, "[")):
                        k = fi.mate.get(k + 1, k) + 1 if fi.is_p(k, "#") else fi.mate.get(k, k) + 1
                    if fi.is_id(k, "pub"):
                        k += 1
                        if fi.is_p(k, "("):
                            k = fi.mate.get(k, k) + 1
                    if fi.is_id(k) and fi.is_p(k + 1, ":"):
                        ty = toks[k + 2:b]
                        ti.fields.append((toks[k].s, [x.s for x in ty if x.k == "id"], " ".join(x.s for x in ty), toks[k].line))
            elif t.s == "struct":
                for n, (a, b) in enumerate(split_top(fi, j + 1, close)):
                    ty = toks[a:b]
                    ti.fields.append((str(n), [x.s for x in ty if x.k == "id"], " ".join(x.s for x in ty), t.line))
            else:
                for a, b in split_top(fi, j + 1, close):
                    k = a
                    while k < b and fi.is_p(k, "#"):
                        k = fi.mate.get(k + 1, k) + 1
                    if fi.is_id(k):
                        payload = toks[k + 1:b]
                        ti.variants.append((toks[k].s, " ".join(x.s for x in payload)))
                        ti.fields.append((toks[k].s, [x.s for x in payload if x.k == "id"], " ".join(x.s for x in payload), toks[k].line))
            types[name] = ti
    return types


def is_seed_field(fname, type_ids, type_text):
    if fname == "api_key":
        return type_ids != ["bool"]
    if fname == "headers":
        return type_ids.count("String") == 2 and set(type_ids) <= {"BTreeMap", "HashMap", "Vec", "String", "std", "collections"}
    if EXTRA_SEED_RE.search(fname) and "String" in type_ids:
        return True
    return False


def secret_closure(types):
    secret = set()
    if "ApiKeySource" in types:
        secret.add("ApiKeySource")
    for n, ti in types.items():
        if ti.kind == "struct" and any(is_seed_field(f, ids, tx) for f, ids, tx, _ in ti.fields):
            secret.add(n)
    changed = True
    while changed:
        changed = False
        for n, ti in types.items():
            if n not in secret and any(set(ids) & secret for _, ids, _, _ in ti.fields):
                secret.add(n)
                changed = True
    seed_fields, carrier_fields = set(), set()
    for n in secret:
        for f, ids, tx, _ in types[n].fields:
            if types[n].kind == "struct" and is_seed_field(f, ids, tx):
                seed_fields.add(f)
            elif types[n].kind == "struct" and set(ids) & secret:
                carrier_fields.add(f)
    return secret, seed_fields, carrier_fields


# ------------------------------------------------------------------------------------ functions
class Fn:
    def __init__(self, fi, name, i_fn, params, ret, body, impl_type):
        self.fi, self.name, self.i_fn, self.params, self.ret, self.body, self.impl_type = fi, name, i_fn, params, ret, body, impl_type


def collect_fns(files):
    fns = []
    for fi in files:
        toks = fi.toks
        impls = []   # (open, close, type name)
        for i, t in enumerate(toks):
            if t.k == "id" and t.s == "impl" and not fi.test[i]:
                j = i + 1
                hdr = []
                while j < len(toks) and not fi.is_p(j, "{") and not fi.is_p(j, ";"):
                    if fi.is_p(j, "(") or fi.is_p(j, "["):
                        j = fi.mate.get(j, j) + 1
                        continue
                    hdr.append(toks[j])
                    j += 1
                if fi.is_p(j, "{") and j in fi.mate:
                    ids = [h.s for h in hdr if h.k == "id"]
                    ty = None
                    if "for" in ids:
                        after = ids[ids.index("for") + 1:]
                        after = [x for x in after if x not in ("where",)]
                        ty = after[0] if after else None
                        trait = [x for x in ids[:ids.index("for")] if x[0].isupper()]
                        impls.append((j, fi.mate[j], ty, trait[-1] if trait else None))
                    else:
                        cand = [x for x in ids if x[0].isupper()]
                        ty = cand[0] if cand else None
                        impls.append((j, fi.mate[j], ty, None))
        fi.impls = impls
        for i, t in enumerate(toks):
            if t.k == "id" and t.s == "fn" and fi.is_id(i + 1) and not fi.test[i]:
                name = toks[i + 1].s
                j = i + 2
                if fi.is_p(j, "<"):
                    depth = 0
                    while j < len(toks):
                        if fi.is_p(j, "<"):
                            depth += 1
                        elif fi.is_p(j, ">"):
                            depth -= 1
                            if depth == 0:
                                j += 1
                                break
                        j += 1
                if not fi.is_p(j, "(") or j not in fi.mate:
                    continue
                pc = fi.mate[j]
                k = pc + 1
                ret = []
                while k < len(toks) and not fi.is_p(k, "{") and not fi.is_p(k, ";"):
                    if fi.is_p(k, "(") or fi.is_p(k, "["):
                        ret += toks[k:fi.mate.get(k, k) + 1]
                        k = fi.mate.get(k, k) + 1
                        continue
                    ret.append(toks[k])
                    k += 1
                if not fi.is_p(k, "{") or k not in fi.mate:
                    continue
                impl_type = None
                for (o, c, ty, _tr) in impls:
                    if o < i < c:
                        impl_type = ty
                fns.append(Fn(fi, name, i, (j, pc), [x.s for x in ret if x.k == "id"], (k, fi.mate[k]), impl_type))
    return fns


def pattern_idents(toks):
    """identifiers bound by a pattern (lower-case identifiers that are not field labels `f:` nor paths)"""
    out = []
    for n, t in enumerate(toks):
        if t.k != "id" or t.s in ("mut", "ref", "Some", "Ok", "Err", "None", "_", "box", "if", "let", "true", "false", "self", "Self"):
            continue
        if not (t.s[0].islower() or t.s[0] == "_"):
            continue
        nxt = toks[n + 1] if n + 1 < len(toks) else None
        prv = toks[n - 1] if n > 0 else None
        if nxt is not None and nxt.k == "p" and nxt.s in (":", "::", "("):
            if nxt.s == ":" :
                continue
            continue
        if prv is not None and prv.k == "p" and prv.s == "::":
            continue
        out.append(t.s)
    return out


CLOSURE_MAPPERS = {"map", "and_then", "filter_map", "map_or", "map_or_else", "flat_map", "unwrap_or_else", "or_else"}
CLOSURE_TAKERS = CLOSURE_MAPPERS | {"filter", "then", "for_each", "find", "any", "all", "inspect", "find_map", "position",
                                    "retain", "take_while", "skip_while", "fold", "is_some_and", "is_none_or"}
KEYWORDS = {"if", "while", "match", "for", "in", "return", "let", "else", "loop", "move", "as", "mut", "ref", "fn",
            "async", "await", "unsafe", "break", "continue", "where", "impl", "dyn", "pub", "use", "mod", "struct", "enum"}


class Analyzer:
    def __init__(self, files, types, secret, seed_fields, carrier_fields, fns):
        self.files, self.types, self.secret = files, types, secret
        self.seed_fields, self.carrier_fields, self.fns = seed_fields, carrier_fields, fns
        self.secret_methods = {fn.name for fn in fns if fn.impl_type in secret}
        self.fn_takes, self.fn_returns = set(), set()
        for fn in fns:
            a, b = fn.params
            for (x, y) in split_top(fn.fi, a + 1, b):
                ids = [t.s for t in fn.fi.toks[x:y] if t.k == "id"]
                if set(ids[1:]) & secret:
                    self.fn_takes.add(fn.name)
            if set(fn.ret) & secret or (fn.impl_type in secret and "Self" in fn.ret):
                self.fn_returns.add((fn.impl_type, fn.name))
        self.raw_returning = set()
        self.env_wrappers = set()
        for _ in range(4):
            for fn in fns:
                if fn.impl_type is not None:
                    continue
                pn = self.param_names(fn)
                lo, hi = fn.body
                for i in range(lo + 1, hi):
                    if self.is_env_reader(fn.fi, i) and fn.fi.is_p(i + 1, "("):
                        c = fn.fi.mate.get(i + 1)
                        args = [x for x in (fn.fi.toks[i + 2:c] if c else []) if not (x.k == "p" and x.s == "&")]
                        if len(args) == 1 and args[0].k == "id" and args[0].s in pn:
                            self.env_wrappers.add(fn.name)
        self.sites = {}
        self.shadow_cache = {}
        self.cur_fn = None
        self.cur_tainted = None
        self.doc_params = set()      # (free fn name, parameter index) receiving the configuration document
        self.free_fns = {}
        for fn in fns:
            if fn.impl_type is None:
                self.free_fns.setdefault(fn.name, fn)
        self.err_tainted_fns = set()  # free fns with a typed deserialisation whose error is not dropped
        for fn in fns:
            lo, hi = fn.body
            for i in range(lo + 1, hi):
                d = self.deser_site(fn.fi, i, fn)
                if d and d[2] != "untyped" and self.deser_error_fate(fn.fi, d)[0] != "dropped":
                    self.err_tainted_fns.add(fn.name)

    # ------------------------------------------------------------------ small helpers
    def param_names(self, fn):
        a, b = fn.params
        out = set()
        for (x, y) in split_top(fn.fi, a + 1, b):
            seg = fn.fi.toks[x:y]
            if seg and seg[0].k == "id" and len(seg) > 1 and seg[1].k == "p" and seg[1].s == ":":
                out.add(seg[0].s)
        return out

    def is_env_reader(self, fi, i):
        t = fi.toks[i]
        if t.k != "id" or fi.is_p(i - 1, ".") or fi.is_id(i - 1, "fn"):
            return False
        if t.s in ("var", "var_os"):
            return fi.is_p(i - 1, "::") and fi.is_id(i - 2, "env")
        return t.s in self.env_wrappers

    def is_secret_env_read(self, fi, i, fn):
        toks = fi.toks
        if not self.is_env_reader(fi, i) or not fi.is_p(i + 1, "("):
            return False
        c = fi.mate.get(i + 1)
        if c is None:
            return False
        args = [x for x in toks[i + 2:c] if not (x.k == "p" and x.s == "&")]
        if len(args) == 1 and args[0].k == "str":
            return SECRET_ENV_RE.search(args[0].s) is not None
        if len(args) == 1 and args[0].k == "id" and args[0].s.isupper():
            return SECRET_ENV_RE.search(args[0].s) is not None
        if len(args) == 1 and args[0].k == "id" and fn is not None and fn.impl_type is None and args[0].s in self.param_names(fn):
            return False    # an environment wrapper: judged at its call sites
        return True         # computed name: possibly a secret variable

    def call_key(self, fi, i, fn):
        q = None
        if fi.is_p(i - 1, "::") and fi.is_id(i - 2):
            q = fi.toks[i - 2].s
            if q == "Self" and fn is not None:
                q = fn.impl_type
            if q is not None and not q[0].isupper():
                q = None
        return (q, fi.toks[i].s)


    # ------------------------------------------------------------------ deserialisation sites
    def deser_site(self, fi, i, fn):
        """`path::from_value::<T>(args)` at token i -> (open paren, close paren, class, type ids);
        class: 'secret' (T secret-bearing), 'untyped' (serde_json::Value), 'typed' (anything else / unknown)"""
        toks = fi.toks
        t = toks[i]
        if t.k != "id" or t.s not in DESER_FNS or not fi.is_p(i - 1, "::") or fi.test[i]:
            return None
        j, tids = i + 1, []
        if fi.is_p(j, "::") and fi.is_p(j + 1, "<"):
            k, depth = j + 1, 0
            while k < len(toks):
                if fi.is_p(k, "<"):
                    depth += 1
                elif fi.is_p(k, ">"):
                    depth -= 1
                    if depth == 0:
                        break
                elif toks[k].k == "id":
                    tids.append(toks[k].s)
                k += 1
            j = k + 1
        if not fi.is_p(j, "(") or j not in fi.mate:
            return None
        if not tids:
            k = i
            while fi.is_p(k - 1, "::") and fi.is_id(k - 2):
                k -= 2
            if fi.is_p(k - 1, "=") and not fi.is_p(k - 2, "="):
                q, colon = k - 2, None
                while q >= 0 and not fi.is_id(q, "let") and not (toks[q].k == "p" and toks[q].s in (";", "{", "}")):
                    if toks[q].k == "p" and toks[q].s in CLOSE and q in fi.mate:
                        q = fi.mate[q] - 1
                        continue
                    if fi.is_p(q, ":"):
                        colon = q
                    q -= 1
                if fi.is_id(q, "let") and colon is not None:
                    tids = [x.s for x in toks[colon + 1:k - 1] if x.k == "id"]
            elif fn is not None and (fi.is_p(k - 1, ";") or fi.is_p(k - 1, "{") or fi.is_p(k - 1, "}") or fi.is_id(k - 1, "return")):
                tids = list(fn.ret)
        if set(tids) & self.secret:
            cls = "secret"
        elif "Value" in tids:
            cls = "untyped"
        else:
            cls = "typed"
        return j, fi.mate[j], cls, tids

    def deser_error_fate(self, fi, d):
        """what happens to the error right at the site: ('dropped'|'panic'|'escapes'|'tracked', text)"""
        chain, end = self.chain_methods(fi, d[1] + 1)
        k = d[1] + 1
        if fi.is_p(k, "?"):
            return "escapes", "`?` right after the call"
        for m, o, c in chain:
            if m in ERR_DROPS:
                return "dropped", f".{m}()"
            if m in ("unwrap_or_else", "or_else", "map_err", "inspect_err"):
                cl = self.closure_at(fi, o, c)
                if cl and (cl[0][1] == cl[0][0] or all(x.s.startswith("_") for x in fi.toks[cl[0][0]:cl[0][1]] if x.k == "id")):
                    if m in ("unwrap_or_else", "or_else"):
                        return "dropped", f".{m}(|_| ..)"
                    continue
                if fi.is_p(c + 1, "?"):
                    return "escapes", f".{m}(..)?"
                return "tracked", f".{m}(|e| ..)"
            if m in ("unwrap", "expect", "unwrap_err", "expect_err"):
                return "panic", f".{m}()"
            if m in ("context", "with_context"):
                if fi.is_p(c + 1, "?"):
                    return "escapes", f".{m}(..)?"
                continue
            break
        if fi.is_p(end, "?"):
            return "escapes", "`?` after the call chain"
        return "tracked", "bound / matched"

    def local_ids(self, fi, a, b):
        """identifiers used as values in [a, b): not call / macro / path heads, not fields, not inside the argument list of a
        file read (whose argument is the public path)"""
        out, toks, i = [], fi.toks, a
        while i < b:
            t = toks[i]
            if t.k == "id" and t.s in FILE_READERS and fi.is_p(i + 1, "(") and (i + 1) in fi.mate:
                i = fi.mate[i + 1] + 1
                continue
            if t.k == "id" and t.s not in KEYWORDS and (t.s[0].islower() or t.s[0] == "_") and t.s not in ("self", "true", "false") \
                    and not fi.is_p(i + 1, "(") and not fi.is_p(i + 1, "::") and not fi.is_p(i + 1, "!") \
                    and not fi.is_p(i - 1, ".") and not fi.is_p(i - 1, "::"):
                out.append(t.s)
            i += 1
        return out

    def doc_seeds(self, fn):
        """identifiers holding the configuration document in fn: arguments of secret deserialisation sites, closed
        backward through bindings"""
        fi, toks = fn.fi, fn.fi.toks
        lo, hi = fn.body
        doc = set()
        a, b = fn.params
        for n, (x, y) in enumerate(split_top(fi, a + 1, b)):
            if (fn.name, n) in self.doc_params and fn.impl_type is None:
                seg = toks[x:y]
                if seg and seg[0].k == "id":
                    doc.add(seg[1].s if seg[0].s == "mut" and len(seg) > 1 else seg[0].s)
        for i in range(lo + 1, hi):
            d = self.deser_site(fi, i, fn)
            if d and d[2] == "secret":
                doc.update(self.local_ids(fi, d[0] + 1, d[1]))
        if not doc:
            return doc
        for _ in range(6):
            before = set(doc)
            i = lo + 1
            while i < hi:
                t = toks[i]
                if t.k == "id" and t.s == "let":
                    eq = i + 1
                    while eq < hi and not (fi.is_p(eq, "=") or fi.is_p(eq, ";")):
                        eq = fi.mate.get(eq, eq) + 1 if (toks[eq].k == "p" and toks[eq].s in OPEN) else eq + 1
                    if eq < hi and fi.is_p(eq, "="):
                        end = eq + 1
                        while end < hi and not fi.is_p(end, ";") and not (fi.is_p(end, "{") and self.is_block(fi, end) and (fi.is_id(i - 1, "if") or fi.is_id(i - 1, "while"))):
                            end = fi.mate.get(end, end) + 1 if (toks[end].k == "p" and toks[end].s in OPEN) else end + 1
                        if set(pattern_idents(toks[i + 1:eq])) & doc:
                            doc.update(self.local_ids(fi, eq + 1, end))
                elif t.k == "id" and t.s in ("match", "for"):
                    k = i + 1
                    while k < hi and not (fi.is_p(k, "{") and self.is_block(fi, k)) and not fi.is_p(k, ";"):
                        k = fi.mate.get(k, k) + 1 if (toks[k].k == "p" and toks[k].s in OPEN and not (toks[k].s == "{" and self.is_block(fi, k))) else k + 1
                    if k < hi and fi.is_p(k, "{") and k in fi.mate:
                        if t.s == "for":
                            j = i + 1
                            while j < k and not fi.is_id(j, "in"):
                                j += 1
                            if set(pattern_idents(toks[i + 1:j])) & doc:
                                doc.update(self.local_ids(fi, j + 1, k))
                        else:
                            close, st, m = fi.mate[k], k + 1, k + 1
                            while m < close:
                                if toks[m].k == "p" and toks[m].s in OPEN:
                                    m = fi.mate.get(m, m) + 1
                                    continue
                                if fi.is_p(m, "=>"):
                                    pat = toks[st:m]
                                    head = next((x.s for x in pat if x.k == "id"), "")
                                    if head != "Err" and set(pattern_idents(pat)) & doc:
                                        doc.update(self.local_ids(fi, i + 1, k))
                                    m += 1
                                    if fi.is_p(m, "{") and m in fi.mate:
                                        m = fi.mate[m] + 1
                                    else:
                                        while m < close and not fi.is_p(m, ","):
                                            m = fi.mate.get(m, m) + 1 if (toks[m].k == "p" and toks[m].s in OPEN) else m + 1
                                    if fi.is_p(m, ","):
                                        m += 1
                                    st = m
                                    continue
                                m += 1
                elif t.k == "p" and t.s == "(" and i in fi.mate and fi.is_id(i - 1) and toks[i - 1].s not in KEYWORDS:
                    # f(&mut x, &y) with x a doc: y flows into it
                    args = split_top(fi, i + 1, fi.mate[i])
                    muts = [n for n, (x, y) in enumerate(args) if fi.is_p(x, "&") and fi.is_id(x + 1, "mut") and fi.is_id(x + 2) and toks[x + 2].s in doc]
                    if muts:
                        for n, (x, y) in enumerate(args):
                            if n not in muts:
                                doc.update(self.local_ids(fi, x, y))
                i += 1
            if doc == before:
                break
        return doc

    def note_doc_args(self, fn, tainted):
        """in-crate free functions called with a doc argument: their parameter becomes doc"""
        fi, toks = fn.fi, fn.fi.toks
        lo, hi = fn.body
        for i in range(lo + 1, hi):
            if toks[i].k == "id" and toks[i].s in self.free_fns and fi.is_p(i + 1, "(") and (i + 1) in fi.mate and not fi.is_p(i - 1, "."):
                for n, (x, y) in enumerate(split_top(fi, i + 2, fi.mate[i + 1])):
                    ids = [t.s for t in toks[x:y] if t.k == "id" and t.s not in ("mut", "clone", "as_str", "as_ref", "to_string", "to_owned")]
                    if len(ids) == 1 and tainted.get(ids[0]) == "doc":
                        self.doc_params.add((toks[i].s, n))

    def scrutinee_err_tainted(self, fi, a, b, fn):
        """does the expression [a, b) yield an Err that may quote its input?"""
        for i in range(a, b):
            d = self.deser_site(fi, i, fn)
            if d and d[2] != "untyped":
                return True
            t = fi.toks[i]
            if t.k == "id" and t.s in self.err_tainted_fns and fi.is_p(i + 1, "(") and not fi.is_p(i - 1, "."):
                return True
        return False

    def source_at(self, fi, i, fn):
        """a call producing a secret: (end index exclusive, kind)"""
        t = fi.toks[i]
        if t.k == "id" and t.s in DESER_FNS:
            d = self.deser_site(fi, i, fn)
            if d and d[2] == "secret":
                return d[1] + 1, "carrier"      # Ok value and error of a secret deserialisation
            if d and d[2] == "typed" and self.cur_tainted is not None \
                    and any(self.cur_tainted.get(x) == "doc" for x in self.local_ids(fi, d[0] + 1, d[1])):
                return d[1] + 1, "doc"          # typed deserialisation of the configuration document
            return None
        if t.k != "id" or not fi.is_p(i + 1, "(") or fi.is_p(i - 1, ".") or (i + 1) not in fi.mate or fi.is_id(i - 1, "fn"):
            return None
        if self.is_env_reader(fi, i):
            return (fi.mate[i + 1] + 1, "raw") if self.is_secret_env_read(fi, i, fn) else None
        key = self.call_key(fi, i, fn)
        if key in self.raw_returning:
            return fi.mate[i + 1] + 1, "raw"
        if key in self.fn_returns:
            return fi.mate[i + 1] + 1, "carrier"
        return None

    def path_end(self, fi, i, kind):
        toks = fi.toks
        j, cur = i + 1, kind
        while fi.is_p(j, ".") and (fi.is_id(j + 1) or (j + 1 < len(toks) and toks[j + 1].k == "num")) and not fi.is_p(j + 2, "("):
            f = toks[j + 1].s
            if cur == "carrier":
                if f == "headers":
                    cur = "hdrs"
                elif f in self.seed_fields:
                    cur = "raw"
                elif f in self.carrier_fields:
                    cur = "carrier"
                else:
                    return j + 2, None
            j += 2
        return j, cur

    def closure_shadow(self, fi, i, name, tainted):
        """the identifier at i is a parameter of an enclosing closure whose receiver is not tainted"""
        p = fi.parent[i]
        while p >= 0:
            if fi.toks[p].s == "(" and p in fi.mate:
                cl = self.closure_at(fi, p, fi.mate[p])
                if cl and cl[0][0] <= i < cl[0][1]:
                    return False          # the parameter list itself
                if cl and name in pattern_idents(fi.toks[cl[0][0]:cl[0][1]]):
                    if not (fi.is_id(p - 1) and fi.is_p(p - 2, ".")):
                        return True       # closure passed to a plain function: parameters are fresh values
                    key = (fi.rel, p)
                    if key not in self.shadow_cache:
                        self.shadow_cache[key] = None     # cycle guard
                        start = self.chain_start(fi, p - 2)
                        outer = {k: v for k, v in tainted.items() if k != name}
                        self.shadow_cache[key] = self.expr_kind(fi, start, p - 2, outer, self.cur_fn)
                    return self.shadow_cache[key] is None
            p = fi.parent[p]
        return False

    def occurrence_at(self, fi, i, tainted):
        toks = fi.toks
        t = toks[i]
        if t.k == "id" and t.s in tainted and not fi.is_p(i - 1, ".") and not fi.is_p(i - 1, "::") and not fi.is_p(i + 1, "::") \
                and not fi.is_p(i + 1, "!") and not self.closure_shadow(fi, i, t.s, tainted):
            if fi.is_p(i + 1, ":") and fi.parent[i] >= 0 and toks[fi.parent[i]].s == "{" and not self.is_block(fi, fi.parent[i]):
                return None     # field label in a struct literal / pattern
            j, kind = self.path_end(fi, i, tainted[t.s])
            return None if kind is None else (j, kind)
        if t.k == "p" and t.s == "." and fi.is_id(i + 1) and not fi.is_p(i + 2, "("):
            f = toks[i + 1].s
            k = "hdrs" if (f == "headers" and fi.mentions_secret) else ("raw" if (f in self.seed_fields and f != "headers") else None)
            if k:
                # receiver root tainted -> already handled through path_end from the root
                r = i - 1
                while r >= 0 and (fi.is_p(r, ".") or toks[r].k == "num" or (fi.is_id(r) and fi.is_p(r - 1, "."))):
                    r -= 1
                if fi.is_id(r) and toks[r].s in tainted and not fi.is_p(r - 1, "::"):
                    j, kind = self.path_end(fi, r, tainted[toks[r].s])
                    if kind is not None and j >= i + 2:
                        return None
                return i + 2, k
        return None

    def chain_methods(self, fi, j):
        out, toks = [], fi.toks
        while True:
            if fi.is_p(j, "?"):
                j += 1
                continue
            if fi.is_p(j, ".") and fi.is_id(j + 1, "await"):
                j += 2
                continue
            if fi.is_p(j, ".") and fi.is_id(j + 1) and fi.is_p(j + 2, "(") and (j + 2) in fi.mate:
                out.append((toks[j + 1].s, j + 2, fi.mate[j + 2]))
                j = fi.mate[j + 2] + 1
                continue
            if fi.is_p(j, ".") and fi.is_id(j + 1) and fi.is_p(j + 2, "::") and fi.is_p(j + 3, "<"):
                k, depth = j + 3, 0
                while k < len(toks):
                    if fi.is_p(k, "<"):
                        depth += 1
                    elif fi.is_p(k, ">"):
                        depth -= 1
                        if depth == 0:
                            break
                    k += 1
                if fi.is_p(k + 1, "(") and (k + 1) in fi.mate:
                    out.append((toks[j + 1].s, k + 1, fi.mate[k + 1]))
                    j = fi.mate[k + 1] + 1
                    continue
            break
        return out, j

    def closure_at(self, fi, o, c):
        """`( [move] |params| body )` -> (param span, body span) or None"""
        k = o + 1
        if fi.is_id(k, "move"):
            k += 1
        if fi.is_p(k, "||"):
            return (k + 1, k + 1), (k + 1, c)
        if not fi.is_p(k, "|"):
            return None
        j = k + 1
        while j < c and not fi.is_p(j, "|"):
            if fi.toks[j].k == "p" and fi.toks[j].s in OPEN:
                j = fi.mate.get(j, j) + 1
                continue
            j += 1
        if j >= c:
            return None
        return (k + 1, j), (j + 1, c)

    def closure_presence(self, fi, o, c):
        s = " ".join(t.s for t in fi.toks[o + 1:c])
        return re.fullmatch(r"\| (\w+) \| !? ?\1( \. (trim|as_str|as_ref|as_deref) \( \))* \. (is_empty|is_some|is_none) \( \)", s) is not None

    def is_block(self, fi, p):
        """the `{` at p opens a block (fn body, if/match/loop body, closure body, unsafe/async) rather than a struct literal
        or pattern"""
        toks = fi.toks
        q = p - 1
        if fi.is_id(q) and toks[q].s[0].isupper() and not self.block_after_keyword(fi, p):
            return False
        return True

    def block_after_keyword(self, fi, p):
        """`match e {`, `if e {`, `while e {`, `for x in e {`, `impl T {`, `-> T {` ..."""
        toks = fi.toks
        k, par = p - 1, fi.parent[p]
        while k > par:
            t = toks[k]
            if t.k == "p" and t.s in CLOSE:
                k = fi.mate.get(k, k) - 1
                continue
            if t.k == "p" and t.s in (";", "{", "}", ",", "=>", "=", "|", "||"):
                return False
            if t.k == "p" and t.s == "->":
                return True
            if t.k == "id" and t.s in ("match", "if", "while", "for", "in", "impl", "struct", "enum", "trait", "mod", "union", "else"):
                return True
            k -= 1
        return False

    def struct_literal_type(self, fi, p, fn):
        """for a `{` at p that is a struct literal / struct pattern: (owner, name)"""
        toks = fi.toks
        q = p - 1
        if not (fi.is_id(q) and toks[q].s[0].isupper()) or self.block_after_keyword(fi, p):
            return None
        name = toks[q].s
        owner = toks[q - 2].s if fi.is_p(q - 1, "::") and fi.is_id(q - 2) else None
        if name == "Self" and fn is not None and fn.impl_type:
            name = fn.impl_type
        if owner == "Self" and fn is not None and fn.impl_type:
            owner = fn.impl_type
        return owner, name

    def callee(self, fi, o):
        toks = fi.toks
        if fi.is_p(o - 1, "!") and fi.is_id(o - 2):
            return ("macro", toks[o - 2].s, [])
        k = o - 1
        if fi.is_p(k, ">"):
            depth = 0
            while k >= 0:
                if fi.is_p(k, ">"):
                    depth += 1
                elif fi.is_p(k, "<"):
                    depth -= 1
                    if depth == 0:
                        break
                k -= 1
            k -= 1
            if fi.is_p(k, "::"):
                k -= 1
        if fi.is_id(k) and toks[k].s not in KEYWORDS:
            name = toks[k].s
            if fi.is_p(k - 1, "."):
                return ("method", name, [])
            path = [name]
            while fi.is_p(k - 1, "::") and fi.is_id(k - 2):
                path.append(toks[k - 2].s)
                k -= 2
            return ("call", name, path)
        return None

    # ------------------------------------------------------------------ value flow
    def apply_chain(self, fi, pos, kind, tainted, fn, limit=None):
        """kind of the value after the method chain starting at pos; None when the secret does not flow through"""
        chain, _ = self.chain_methods(fi, pos)
        k = kind
        for m, o, c in chain:
            if limit is not None and o >= limit:
                break
            if m in PRESENCE_END:
                return None
            if k == "hdrs" and m == "keys":
                return None
            if m in CLOSURE_MAPPERS:
                cl = self.closure_at(fi, o, c)
                if cl:
                    (pa, pb), (ba, bb) = cl
                    local = dict(tainted)
                    self.bind(fi, fi.toks[pa:pb], k, local, fn, force=True)
                    k2 = self.expr_kind(fi, ba, bb, local, fn)
                    if m in ("unwrap_or_else", "or_else"):
                        k2 = k2 or k
                    if k2 is None:
                        return None
                    k = k2
                continue
            if m in TRANSPARENT or m in CLOSURE_TAKERS:
                continue
            if k == "doc":
                continue                     # whatever is computed from the document is (part of) the document
            if m in self.secret_methods:
                ret = [key for key in (self.fn_returns | self.raw_returning) if key[1] == m and key[0] in self.secret]
                if any(key in self.raw_returning for key in ret):
                    k = "raw"
                    continue
                if ret:
                    k = "carrier"
                    continue
                return None
            return None
        return k

    def flows(self, fi, i, j, kind, a, tainted, fn, limit=None):
        """does the value of the occurrence [i, j) reach the top level of the expression span starting at a?"""
        k = self.apply_chain(fi, j, kind, tainted, fn, limit)
        if k is None:
            return None
        p = fi.parent[i]
        while p >= a:
            t = fi.toks[p]
            close = fi.mate.get(p)
            if close is None:
                return k
            if t.s == "(":
                cal = self.callee(fi, p)
                if cal:
                    typ, name, path = cal
                    if typ == "macro":
                        if name in ("vec", "matches"):
                            pass
                        elif name in ("format", "format_args", "concat", "anyhow", "eyre"):
                            k = "raw"        # the formatted text contains the value
                        else:
                            return None
                    elif name in TRANSPARENT or name in CLOSURE_TAKERS:
                        if self.closure_at(fi, p, close) and name not in CLOSURE_MAPPERS and name not in ("then", "then_some"):
                            return None      # boolean-valued / unit closures (filter, find, any, for_each ..)
                    elif typ == "call" and name[0].isupper():
                        if name in self.secret or (len(path) > 1 and path[1] in self.secret):
                            k = "carrier" if name in self.secret else k
                        elif name in ("Some", "Ok", "Box", "Arc", "Rc") or k == "doc":
                            pass
                        else:
                            return None
                    elif k == "doc" and name not in FILE_READERS and name not in PRESENCE_END:
                        pass                 # a function of the document (parse, strip, merge ..) yields document
                    else:
                        return None
            elif t.s == "{":
                lit = None if self.is_block(fi, p) else self.struct_literal_type(fi, p, fn)
                if lit:
                    owner, name = lit
                    if name in self.secret or owner in self.secret:
                        k = "carrier"
                    else:
                        return None
            k = self.apply_chain(fi, close + 1, k, tainted, fn, limit)
            if k is None:
                return None
            p = fi.parent[p]
        return k

    def expr_kind(self, fi, a, b, tainted, fn):
        i = a
        while i < b:
            occ = self.occurrence_at(fi, i, tainted)
            if occ and not self.is_definition_site(fi, i):
                j, kind = occ
                k = self.flows(fi, i, j, kind, a, tainted, fn, b)
                if k:
                    return k
                i = max(j, i + 1)
                continue
            src = self.source_at(fi, i, fn)
            if src:
                j, kind = src
                k = self.flows(fi, i, j, kind, a, tainted, fn, b)
                if k:
                    return k
            t = fi.toks[i]
            if t.k == "str" and "{" in t.s:
                p = fi.parent[i]
                if p >= a and fi.is_p(p - 1, "!") and fi.is_id(p - 2) and fi.toks[p - 2].s in ("format", "format_args", "anyhow", "eyre"):
                    for m in re.finditer(r"\{\s*([A-Za-z_][A-Za-z0-9_]*)\s*(:[^}]*)?\}", t.s.replace("{{", "").replace("}}", "")):
                        if m.group(1) in tainted and not self.closure_shadow(fi, i, m.group(1), tainted):
                            k = self.flows(fi, p - 2, fi.mate.get(p, p) + 1, "raw", a, tainted, fn, b)
                            if k:
                                return k
            i += 1
        return None

    # ------------------------------------------------------------------ binding
    def bind(self, fi, pat, kind, tainted, fn, force=False):
        """taint the identifiers a pattern binds from a value of `kind`"""
        text = " ".join(t.s for t in pat)
        if re.search(r"\bEnv\b", text) and ("ApiKeySource" in text or "Self" in text):
            return          # `ApiKeySource::Env { env }` binds the public variable NAME
        def put(nm, k):
            if force or nm not in tainted:
                tainted[nm] = k
        if kind == "hdrs":
            m = re.search(r"\( (?:& )?(?:ref )?(\w+) , (?:& )?(?:ref )?(\w+) \)", text)
            if m:
                if not m.group(2).startswith("_"):
                    put(m.group(2), "raw")
                if force and m.group(1) in tainted:
                    del tainted[m.group(1)]
                return
            for nm in pattern_idents(pat):
                put(nm, "hdrs")
            return
        # struct pattern of a secret-bearing type: only the secret / carrier fields bind tainted names
        m = re.match(r"(?:& )?(?:(\w+) :: )?(\w+) \{", text)
        if m and kind == "carrier":
            name = m.group(2)
            if name == "Self" and fn is not None and fn.impl_type:
                name = fn.impl_type
            if name in self.secret and self.types[name].kind == "struct":
                brace = next(n for n, t in enumerate(pat) if t.k == "p" and t.s == "{")
                depth, entry, entries = 0, [], []
                for t in pat[brace + 1:]:
                    if t.k == "p" and t.s in OPEN:
                        depth += 1
                    elif t.k == "p" and t.s in CLOSE:
                        if depth == 0:
                            break
                        depth -= 1
                    if t.k == "p" and t.s == "," and depth == 0:
                        entries.append(entry)
                        entry = []
                    else:
                        entry.append(t)
                if entry:
                    entries.append(entry)
                for e in entries:
                    ids = [t for t in e if t.k == "id" and t.s not in ("ref", "mut")]
                    if not ids:
                        continue
                    f = ids[0].s
                    fk = "hdrs" if f == "headers" and f in self.seed_fields else ("raw" if f in self.seed_fields else ("carrier" if f in self.carrier_fields else None))
                    if fk is None:
                        continue
                    colon = next((n for n, t in enumerate(e) if t.k == "p" and t.s == ":"), None)
                    names = pattern_idents(e[colon + 1:]) if colon is not None else [f]
                    for nm in names:
                        put(nm, fk)
                return
        for nm in pattern_idents(pat):
            put(nm, kind)

    def is_definition_site(self, fi, i):
        toks = fi.toks
        k = i - 1
        while k >= 0 and (fi.is_id(k, "mut") or fi.is_id(k, "ref") or fi.is_p(k, "&")):
            k -= 1
        if fi.is_id(k, "let") or fi.is_id(k, "for"):
            return True
        if fi.is_p(k, "|") and (fi.is_p(i + 1, "|") or fi.is_p(i + 1, ",") or fi.is_p(i + 1, ":")):
            return True
        if fi.is_p(i + 1, "|") and fi.is_p(i - 1, ","):
            return True
        if fi.is_p(i + 1, "=>") :
            return True
        p = fi.parent[i]
        while p >= 0 and toks[p].s in ("(", "{", "[") and not (toks[p].s == "{" and self.is_block(fi, p)):
            c = fi.mate.get(p)
            if c is None:
                break
            # constructor-like pattern head: `Some(`, `Self::Inline(`, `T {`, or a bare tuple
            q = p - 1
            while q >= 0 and (fi.is_id(q) or fi.is_p(q, "::")):
                q -= 1
            head_lo = q + 1
            before = q
            while before >= 0 and (fi.is_id(before, "mut") or fi.is_id(before, "ref") or fi.is_p(before, "&")):
                before -= 1
            after = c + 1
            is_pat = False
            if fi.is_id(before, "let") or fi.is_id(before, "for"):
                is_pat = True
            elif fi.is_p(after, "=>") or (fi.is_id(after, "if") and self.in_match_arm_head(fi, p)):
                is_pat = True
            elif fi.is_p(before, "|") and fi.is_p(after, "|"):
                is_pat = True
            elif fi.is_p(after, "=") and not fi.is_p(after + 1, "=") and fi.is_id(before, "let"):
                is_pat = True
            if is_pat:
                return True
            p = fi.parent[p]
        return False

    def in_match_arm_head(self, fi, p):
        par = fi.parent[p]
        return par >= 0 and fi.toks[par].s == "{" and self.block_after_keyword(fi, par)

    # ------------------------------------------------------------------ classification of one occurrence
    def classify(self, fi, i, j, kind, fn, tainted):
        toks = fi.toks
        chain, _ = self.chain_methods(fi, j)
        names = [m for m, _, _ in chain]
        k = 0
        while k < len(names) and names[k] in VIEW:
            k += 1
        if k < len(names) and names[k] in PRESENCE_END:
            return "UPresence", "presence test"
        if k < len(names) and names[k] in ("map", "is_some_and") and self.closure_presence(fi, chain[k][1], chain[k][2]):
            return "UPresence", "presence test in closure"
        if kind == "hdrs":
            k2 = 0
            while k2 < len(names) and names[k2] in ("iter", "into_iter", "clone", "as_ref"):
                k2 += 1
            if k2 < len(names) and names[k2] == "keys":
                return "UNameProjection", "keys()"
            if k2 < len(names) and names[k2] == "map":
                cl = self.closure_at(fi, chain[k2][1], chain[k2][2])
                if cl:
                    local = dict(tainted)
                    self.bind(fi, toks[cl[0][0]:cl[0][1]], "hdrs", local, fn, force=True)
                    if self.expr_kind(fi, cl[1][0], cl[1][1], local, fn) is None and re.search(r"\( (?:& )?\w+ , _", " ".join(t.s for t in toks[cl[0][0]:cl[0][1]])):
                        return "UNameProjection", "map(|(name, _)| ..name..)"
        for m, o, c in chain:
            if m in TRANSPARENT or m in CLOSURE_TAKERS:
                continue
            if m in self.secret_methods:
                return "UResolve", f"method {m} of a secret-bearing type"
            if m in ("bearer_auth", "header"):
                break
            if kind in ("carrier", "doc"):
                return "UMove", f"method .{m}() on a {kind}"
            return "UOther", f"method .{m}() applied to a secret value"
        p = fi.parent[i]
        while p >= 0:
            t = toks[p]
            if t.s == "(":
                cal = self.callee(fi, p)
                if cal:
                    typ, name, path = cal
                    if typ == "macro":
                        if name in SERIALIZE_MACROS:
                            return "USerialize", f"{name}!"
                        if name in FORMAT_MACROS:
                            return "UFormat", f"{name}!"
                        if name in ("matches", "vec"):
                            p = fi.parent[p]
                            continue
                        return "UOther", f"argument of macro {name}!"
                    if name == "bearer_auth":
                        return "UBearerAuth", "bearer_auth"
                    if name == "header" and typ == "method":
                        return "URequestHeader", "request.header"
                    if name == "set_var":
                        return "UEnvSet", "env::set_var"
                    if name in SERIALIZE_FNS and ("serde_json" in path or "serde" in path or name.startswith("to_writer")):
                        return "USerialize", "serde_json::" + name
                    if name in ("to_string", "to_vec", "to_value", "to_string_pretty") and typ == "call":
                        return "USerialize", "::".join(reversed(path))
                    if name in TRANSPARENT or name in CLOSURE_TAKERS:
                        p = fi.parent[p]
                        continue
                    if typ == "call" and name[0].isupper():
                        if name in self.secret or (len(path) > 1 and path[1] in self.secret) or name in ("Box", "Arc", "Rc", "Mutex", "RwLock") \
                                or (kind == "doc" and (name == "Value" or "Value" in path)):
                            p = fi.parent[p]
                            continue
                        return "UOther", f"payload of {'::'.join(reversed(path))}(..) which is not secret-bearing"
                    if kind in ("carrier", "doc"):
                        return "UMove", f"{kind} passed to {name}(..)"
                    if name in self.secret_methods or name in self.env_wrappers:
                        return "UMove", f"argument of {name}"
                    return "UOther", f"secret value passed to {name}(..)"
                p = fi.parent[p]
                continue
            if t.s == "[":
                p = fi.parent[p]
                continue
            if t.s == "{":
                if not self.is_block(fi, p):
                    lit = self.struct_literal_type(fi, p, fn)
                    if lit:
                        owner, name = lit
                        if name in self.secret or owner in self.secret:
                            return "UMove", f"field of {name} {{..}}"
                        return "UOther", f"field of {(owner + '::') if owner else ''}{name} {{..}} which is not secret-bearing"
                    p = fi.parent[p]
                    continue
                # a block: its value may be an argument of an enclosing call / macro (json!({..}), f(if c { x } else { y }))
                if fn is not None and p <= fn.body[0]:
                    return "UMove", "binding / return position"
                q = fi.parent[p]
                if q >= 0 and toks[q].s in ("(", "[") and not self.closure_at(fi, q, fi.mate.get(q, q)):
                    p = q
                    continue
                return "UMove", "binding / return position"
        return "UMove", "binding / return position"

    # ------------------------------------------------------------------ one function
    def analyse_fn(self, fn, record):
        fi, toks = fn.fi, fn.fi.toks
        tainted = {}
        self.cur_fn = fn
        self.shadow_cache = {}
        a, b = fn.params
        for (x, y) in split_top(fi, a + 1, b):
            seg = toks[x:y]
            ids = [t.s for t in seg if t.k == "id"]
            if not ids:
                continue
            colon = next((n for n, t in enumerate(seg) if t.k == "p" and t.s == ":"), None)
            if "self" in ids[:3] and (colon is None or ids[0] == "self" or ids[:2] == ["mut", "self"]):
                if fn.impl_type in self.secret:
                    tainted["self"] = "carrier"
                continue
            if colon is None:
                continue
            ty = [t.s for t in seg[colon + 1:] if t.k == "id"]
            if set(ty) & self.secret:
                self.bind(fi, seg[:colon], "carrier", tainted, fn)
        lo, hi = fn.body
        for nm in sorted(self.doc_seeds(fn)):
            tainted.setdefault(nm, "doc")
        self.cur_tainted = tainted

        def skip_to(k, stops, brace_stops=False):
            while k < hi:
                t = toks[k]
                if t.k == "p" and t.s == "{" and brace_stops and self.is_block(fi, k):
                    return k
                if t.k == "p" and t.s in OPEN:
                    k = fi.mate.get(k, k) + 1
                    continue
                if t.k == "p" and t.s in stops:
                    return k
                k += 1
            return k

        for _round in range(8):
            before = dict(tainted)
            self.shadow_cache = {}
            i = lo + 1
            while i < hi:
                t = toks[i]
                if t.k == "id" and t.s == "let":
                    eq = skip_to(i + 1, ("=", ";"))
                    if eq < hi and fi.is_p(eq, "="):
                        colon = None
                        k = i + 1
                        while k < eq:
                            if toks[k].k == "p" and toks[k].s in OPEN:
                                k = fi.mate.get(k, k) + 1
                                continue
                            if fi.is_p(k, ":"):
                                colon = k
                                break
                            k += 1
                        pat_end = colon if colon is not None else eq
                        cond = fi.is_id(i - 1, "if") or fi.is_id(i - 1, "while") or fi.is_p(i - 1, "&&")
                        end = skip_to(eq + 1, (";",), brace_stops=cond)
                        if not cond:
                            # let-else: `let PAT = EXPR else { diverge };` — the else block is not part of the value
                            k = eq + 1
                            while k < end:
                                if toks[k].k == "p" and toks[k].s in OPEN:
                                    k = fi.mate.get(k, k) + 1
                                    continue
                                if fi.is_id(k, "else") and not fi.is_p(k - 1, "}"):
                                    end = k
                                    break
                                k += 1
                        kind = self.expr_kind(fi, eq + 1, end, tainted, fn)
                        if colon is not None and set(x.s for x in toks[colon + 1:eq] if x.k == "id") & self.secret:
                            kind = kind or "carrier"
                        if kind == "doc" and fi.is_id(i + 1, "Err") and not self.scrutinee_err_tainted(fi, eq + 1, end, fn):
                            kind = None     # error of an untyped parse: positions only
                        if kind:
                            self.bind(fi, toks[i + 1:pat_end], kind, tainted, fn)
                elif t.k == "id" and t.s == "for" and not fi.is_p(i + 1, "<"):
                    j = i + 1
                    while j < hi and not fi.is_id(j, "in"):
                        if toks[j].k == "p" and toks[j].s in OPEN:
                            j = fi.mate.get(j, j) + 1
                            continue
                        j += 1
                    k = skip_to(j + 1, (";",), brace_stops=True)
                    if j < hi and k < hi:
                        kind = self.expr_kind(fi, j + 1, k, tainted, fn)
                        if kind:
                            self.bind(fi, toks[i + 1:j], kind, tainted, fn)
                elif t.k == "id" and t.s == "match":
                    k = skip_to(i + 1, (";",), brace_stops=True)
                    if k < hi and fi.is_p(k, "{") and k in fi.mate:
                        kind = self.expr_kind(fi, i + 1, k, tainted, fn)
                        clean_err = kind == "doc" and not self.scrutinee_err_tainted(fi, i + 1, k, fn)
                        if kind:
                            close = fi.mate[k]
                            st = m = k + 1
                            while m < close:
                                if toks[m].k == "p" and toks[m].s in OPEN:
                                    m = fi.mate.get(m, m) + 1
                                    continue
                                if fi.is_p(m, "=>"):
                                    pat = toks[st:m]
                                    guard = next((n for n, x in enumerate(pat) if x.k == "id" and x.s == "if"), None)
                                    if not (clean_err and pat and pat[0].k == "id" and pat[0].s == "Err"):
                                        self.bind(fi, pat[:guard] if guard is not None else pat, kind, tainted, fn)
                                    m += 1
                                    if fi.is_p(m, "{") and m in fi.mate:
                                        m = fi.mate[m] + 1
                                        if fi.is_p(m, ","):
                                            m += 1
                                    else:
                                        while m < close and not fi.is_p(m, ","):
                                            if toks[m].k == "p" and toks[m].s in OPEN:
                                                m = fi.mate.get(m, m) + 1
                                                continue
                                            m += 1
                                        m += 1
                                    st = m
                                    continue
                                m += 1
                elif t.k == "p" and t.s == "|" and (fi.is_p(i - 1, "(") or fi.is_id(i - 1, "move")):
                    o = i - 1 if fi.is_p(i - 1, "(") else i - 2
                    if fi.is_p(o, "(") and o in fi.mate and fi.is_id(o - 1) and fi.is_p(o - 2, "."):
                        cl = self.closure_at(fi, o, fi.mate[o])
                        if cl and cl[0][1] > cl[0][0]:
                            start = self.chain_start(fi, o - 2)
                            kind = self.expr_kind(fi, start, o - 2, tainted, fn)
                            if kind == "doc" and toks[o - 1].s in ERR_CLOSURES and not self.scrutinee_err_tainted(fi, start, o - 2, fn):
                                kind = None
                            if kind:
                                self.bind(fi, toks[cl[0][0]:cl[0][1]], kind, tainted, fn)
                elif t.k == "id" and fi.is_p(i + 1, "=") and not fi.is_p(i + 2, "=") and t.s not in KEYWORDS \
                        and (fi.is_p(i - 1, ";") or fi.is_p(i - 1, "{") or fi.is_p(i - 1, "}")):
                    end = skip_to(i + 2, (";",))
                    kind = self.expr_kind(fi, i + 2, end, tainted, fn)
                    if kind and t.s not in tainted:
                        tainted[t.s] = kind
                i += 1
            if tainted == before:
                break
        self.note_doc_args(fn, tainted)

        if record is None:
            # does the function return a raw secret?
            if not any(x in ("String", "str") for x in fn.ret) or fn.name in self.env_wrappers:
                return False
            if set(fn.ret) & self.secret:
                return False
            self.shadow_cache = {}
            spans = []
            # `return e;` anywhere in the body
            for i in range(lo + 1, hi):
                if fi.is_id(i, "return"):
                    spans.append((i + 1, skip_to(i + 1, (";", ","))))
            # tail expression: after the last top-level `;` of the body
            k, last = lo + 1, lo + 1
            while k < hi:
                if toks[k].k == "p" and toks[k].s in OPEN:
                    nxt = fi.mate.get(k, k) + 1
                    if toks[k].s == "{" and self.is_block(fi, k) and nxt < hi and not fi.is_p(nxt, ".") and not fi.is_id(nxt, "else"):
                        last = nxt if nxt < hi else last
                    k = nxt
                    continue
                if fi.is_p(k, ";"):
                    last = k + 1
                k += 1
            if last < hi:
                spans.append((last, hi))
            return any(self.expr_kind(fi, x, y, tainted, fn) == "raw" for x, y in spans)

        i = lo + 1
        while i < hi:
            if fi.test[i]:
                i += 1
                continue
            occ = self.occurrence_at(fi, i, tainted)
            if occ:
                j, kind = occ
                if not self.is_definition_site(fi, i):
                    cls, why = self.classify(fi, i, j, kind, fn, tainted)
                    text = "".join(x.s if x.k != "str" else '"…"' for x in toks[i:j])
                    record((fi.rel, i), cls, toks[i].line, f"{fn.name}: `{text}` ({kind}) - {why}")
                i = max(j, i + 1)
                continue
            t = toks[i]
            if t.k == "id" and t.s in DESER_FNS:
                d = self.deser_site(fi, i, fn)
                docarg = d is not None and any(tainted.get(x) == "doc" for x in self.local_ids(fi, d[0] + 1, d[1]))
                if d and (d[2] == "secret" or (d[2] == "typed" and docarg)):
                    fate, how = self.deser_error_fate(fi, d)
                    cls = {"dropped": "UDeserErrDropped", "panic": "UFormat", "escapes": "UOther", "tracked": "UMove"}[fate]
                    what = "secret-bearing " + "/".join(x for x in d[3] if x in self.secret) if d[2] == "secret" else "typed target, configuration document as input"
                    record((fi.rel, i, "deser"), cls, t.line,
                           f"{fn.name}: `{t.s}` deserialisation ({what}); error {fate}: {how}")
            if t.k == "id" and fi.is_p(i + 1, "(") and self.is_secret_env_read(fi, i, fn):
                record((fi.rel, i), "UEnvRead", t.line, f"{fn.name}: `{t.s}(..)` - secret environment read")
            if t.k == "str" and "{" in t.s:
                p = fi.parent[i]
                if p >= 0 and fi.is_p(p - 1, "!") and fi.is_id(p - 2):
                    mac = toks[p - 2].s
                    for m in re.finditer(r"\{\s*([A-Za-z_][A-Za-z0-9_]*)\s*(:[^}]*)?\}", t.s.replace("{{", "").replace("}}", "")):
                        if m.group(1) in tainted and not self.closure_shadow(fi, i, m.group(1), tainted):
                            cls = "USerialize" if mac in SERIALIZE_MACROS else "UFormat"
                            record((fi.rel, i, m.start()), cls, t.line,
                                   f"{fn.name}: `{{{m.group(1)}{m.group(2) or ''}}}` captured by {mac}! ({tainted[m.group(1)]})")
            i += 1

    def chain_start(self, fi, r):
        toks = fi.toks
        k = r - 1
        while k >= 0:
            t = toks[k]
            if t.k == "p" and t.s in (")", "]"):
                k = fi.mate.get(k, k) - 1
                continue
            if t.k == "p" and t.s == "}":
                o = fi.mate.get(k, k)
                if self.is_block(fi, o):
                    break
                k = o - 1
                continue
            if t.k in ("id", "num", "str") or (t.k == "p" and t.s in (".", "::", "?", "&")):
                if t.k == "id" and t.s in KEYWORDS:
                    break
                k -= 1
                continue
            break
        return k + 1

    def run(self):
        for _ in range(5):
            before = set(self.raw_returning)
            for fn in self.fns:
                if self.analyse_fn(fn, None):
                    self.raw_returning.add((fn.impl_type, fn.name))
            if before == self.raw_returning:
                break

        def record(key, cls, line, text):
            if key not in self.sites:
                self.sites[key] = (cls, line, text)
        for fn in sorted(self.fns, key=lambda f: f.body[1] - f.body[0]):
            self.analyse_fn(fn, record)
        return self.sites


# ------------------------------------------------------------------------------------ main
# ------------------------------------------------------------------------------------ the spawn path (tool environment)
MEMO_IDS = {"static", "OnceLock", "OnceCell", "Lazy", "LazyLock", "LazyCell", "lazy_static", "thread_local", "once_cell",
            "Once", "get_or_init", "get_or_try_init", "get_or_insert_with", "get_or_insert", "call_once", "cached", "memoize"}
KEY_VAR_RE = re.compile(r"^[A-Z][A-Z0-9_]*_(KEY|TOKEN|SECRET|PASSWORD|PASSWD|CREDENTIALS?)$")
SHRINK_IDS = {"clear", "remove", "retain", "take", "drain", "replace", "pop_first", "pop_last", "split_off", "swap",
              "truncate", "mem"}


def load_rs(repo, crate):
    out = []
    root = os.path.join(repo, "crates", crate, "src")
    for dp, dn, fn in os.walk(root):
        dn.sort()
        for f in sorted(fn):
            if not f.endswith(".rs"):
                continue
            rel = os.path.relpath(os.path.join(dp, f), os.path.join(repo, "crates"))
            if f.endswith("_tests.rs") or f == "tests.rs" or "/tests/" in rel or rel.endswith("verif.rs"):
                continue
            try:
                out.append(FileInfo(rel, lex(open(os.path.join(dp, f), encoding="utf-8", errors="replace").read())))
            except OSError:
                pass
    return out


def spawn_path_facts(repo):
    """What the model of the tool environment over time (Model/SecretFlow.v: registry, reg_load, spawn_env) assumes of
    rip-tools/src/secret_env.rs, ripd/src/config.rs, ripd/src/runner.rs and the subprocess spawn sites.  Returns
    (fixed_names, fresh, grows_only, load_registers, loaders_found, n_sites, n_stripping, notes)."""
    notes = []
    tools = load_rs(repo, "rip-tools")
    ripd = load_rs(repo, "ripd")
    fns = collect_fns(tools + ripd)

    def fn_named(name, rel_end=None, impl=None):
        return [f for f in fns if f.name == name and (rel_end is None or f.fi.rel.endswith(rel_end)) and (impl is None or f.impl_type == impl)]

    def body_ids(f):
        o, c = f.body
        return [(k, f.fi.toks[k]) for k in range(o + 1, c) if not f.fi.test[k]]

    def calls(f, name):
        """token indices in f's body where `name (` occurs"""
        return [k for k, t in body_ids(f) if t.k == "id" and t.s == name and f.fi.is_p(k + 1, "(")]

    se = [fi for fi in tools if fi.rel.endswith("secret_env.rs")]
    fixed, fresh, grows = [], False, False
    if not se:
        notes.append("rip-tools/src/secret_env.rs not found")
    else:
        fi = se[0]
        # (1) const PROVIDER_KEY_ENV_VARS: [&str; N] = [ "..", .. ];
        for i, t in enumerate(fi.toks):
            if t.k == "id" and t.s == "PROVIDER_KEY_ENV_VARS" and fi.is_id(i - 1, "const"):
                j = i
                while j < len(fi.toks) and not fi.is_p(j, "="):
                    j += 1
                if fi.is_p(j + 1, "[") and (j + 1) in fi.mate:
                    fixed = [x.s for x in fi.toks[j + 2:fi.mate[j + 1]] if x.k == "str"]
                    if any(x.k not in ("str", "p") for x in fi.toks[j + 2:fi.mate[j + 1]]):
                        notes.append("PROVIDER_KEY_ENV_VARS is not a list of string literals")
                        fixed = []
        if not fixed:
            notes.append("const PROVIDER_KEY_ENV_VARS = [..string literals..] not found")
        # (2) secret_env_names(): rebuilt from the registry on EVERY call
        sn = fn_named("secret_env_names", "secret_env.rs")
        if len(sn) != 1:
            notes.append("fn secret_env_names not found (or not unique) in secret_env.rs")
        else:
            ids = [t.s for _, t in body_ids(sn[0]) if t.k == "id"]
            memo = sorted(set(ids) & MEMO_IDS)
            if memo:
                notes.append("secret_env_names() holds state across calls (memoisation): " + ", ".join(memo))
            reads_registry = bool(calls(sn[0], "registered"))
            if not reads_registry:
                notes.append("secret_env_names() does not read the registry (`registered()`) in its body")
            if "PROVIDER_KEY_ENV_VARS" not in ids:
                notes.append("secret_env_names() does not start from PROVIDER_KEY_ENV_VARS")
            # the only `static` of the file is the registry itself (inside fn registered)
            statics = [i for i, t in enumerate(fi.toks) if t.k == "id" and t.s == "static" and not fi.test[i]]
            reg = fn_named("registered", "secret_env.rs")
            inside = [i for i in statics if reg and reg[0].body[0] < i < reg[0].body[1]]
            if len(statics) != len(inside) or len(statics) != 1:
                notes.append(f"secret_env.rs has {len(statics)} statics, {len(inside)} of them the registry in fn registered (expected exactly the one)")
            # no other fn hands out a cached copy: every pub fn returning names is secret_env_names
            fresh = not memo and reads_registry and "PROVIDER_KEY_ENV_VARS" in ids and len(statics) == 1 and len(inside) == 1
        # (3) the registry only grows
        rg = fn_named("register_secret_env_names", "secret_env.rs")
        if len(rg) != 1:
            notes.append("fn register_secret_env_names not found in secret_env.rs")
        else:
            ids = [t.s for _, t in body_ids(rg[0]) if t.k == "id"]
            shrink = sorted({t.s for i, t in enumerate(fi.toks) if t.k == "id" and t.s in SHRINK_IDS and not fi.test[i]
                             and (fi.is_p(i - 1, ".") or fi.is_p(i - 1, "::"))})
            if shrink:
                notes.append("secret_env.rs removes / replaces registry entries: " + ", ".join(shrink))
            adds = "extend" in ids or "insert" in ids
            if not adds:
                notes.append("register_secret_env_names does not extend / insert into the registry")
            writes = bool(calls(rg[0], "registered"))
            grows = adds and writes and not shrink

    # (4) load_effective_config registers the names of what it loaded, unconditionally, on every call
    load_registers = False
    le = fn_named("load_effective_config", "ripd/src/config.rs")
    if len(le) != 1:
        notes.append("fn load_effective_config not found in ripd/src/config.rs")
    else:
        f = le[0]
        cs = calls(f, "register_secret_env_names")
        if not cs:
            notes.append("load_effective_config does not call register_secret_env_names")
        else:
            k = cs[0]
            # innermost enclosing brace of the call is the fn body (not inside if / match / loop / closure block)
            par = f.fi.parent[k]
            while par != -1 and not f.fi.is_p(par, "{"):
                par = f.fi.parent[par]
            top = par == f.body[0]
            early = [t.s for kk, t in body_ids(f) if kk < k and ((t.k == "id" and t.s == "return") or (t.k == "p" and t.s == "?"))]
            arg_close = f.fi.mate.get(k + 1, k + 1)
            arg_ids = {t.s for t in f.fi.toks[k + 2:arg_close] if t.k == "id"}
            names_ok = "Env" in arg_ids and "provider" in arg_ids and "api_key" in arg_ids
            guard = sorted({t.s for t in f.fi.toks[f.body[0]:f.body[1]] if t.k == "id"} & MEMO_IDS)
            if not top:
                notes.append("the register_secret_env_names call in load_effective_config is conditional (nested block)")
            if early:
                notes.append("load_effective_config can leave before it registers (return / ? before the call)")
            if not names_ok:
                notes.append("register_secret_env_names is not given the ApiKeySource::Env names of config.provider")
            if guard:
                notes.append("load_effective_config holds state across calls: " + ", ".join(guard))
            load_registers = top and not early and names_ok and not guard
    # (5) who loads: the per-request resolution, the engine start, the doctor
    loaders = True
    rs = fn_named("resolve_openresponses_config", "ripd/src/config.rs")
    if len(rs) != 1 or not calls(rs[0], "load_effective_config"):
        notes.append("resolve_openresponses_config does not call load_effective_config")
        loaders = False
    ne = fn_named("new", "ripd/src/runner.rs", "SessionEngine")
    if len(ne) != 1 or not calls(ne[0], "load_effective_config"):
        notes.append("SessionEngine::new does not call load_effective_config")
        loaders = False
    doc = [f for f in fns if f.fi.rel.endswith("ripd/src/server.rs") and "doctor" in f.name]
    if not any(calls(f, "resolve_openresponses_config") or calls(f, "load_effective_config") for f in doc):
        notes.append("the doctor handler in server.rs does not load the configuration")
        loaders = False

    # (6) every subprocess spawn site of rip-tools and ripd removes secret_env_names() from the child environment,
    #     before the call's own `env` is applied and before the spawn
    n_sites, n_strip = 0, 0
    site_programs = []   # (file, fn name, [step names]) per spawn site: the ORDER of the steps between construction and spawn
    for fi in tools + ripd:
        toks = fi.toks
        has_proc = any(toks[i].k == "id" and toks[i].s == "process" and fi.is_p(i + 1, "::") and fi.is_id(i + 2, "Command") for i in range(len(toks)))
        for i, t in enumerate(toks):
            if fi.test[i] or t.k != "id" or not fi.is_p(i + 1, "::") or not fi.is_id(i + 2, "new") or not fi.is_p(i + 3, "("):
                continue
            if not ((t.s == "Command" and has_proc) or t.s == "CommandBuilder"):
                continue
            n_sites += 1
            encl = [f for f in fns if f.fi is fi and f.body[0] < i < f.body[1]]
            if not encl:
                notes.append(f"{fi.rel}:{t.line} spawn site outside any function")
                continue
            f = min(encl, key=lambda f: f.body[1] - f.body[0])
            site_programs.append((fi.rel, f.name, site_steps(fi, f, i)))
            ok, why = False, "no secret_env_names() + env_remove between the construction and the spawn"
            spawns = [x for x in range(i, f.body[1]) if toks[x].k == "id" and toks[x].s in ("spawn", "spawn_command") and fi.is_p(x - 1, ".") and fi.is_p(x + 1, "(")]
            if not spawns:
                why = "no .spawn( / .spawn_command( after the construction"
            else:
                sp = spawns[0]
                names_calls = [k for k in calls(f, "secret_env_names") if i < k < sp]
                removes = [x for x in range(i, sp) if toks[x].k == "id" and toks[x].s == "env_remove" and fi.is_p(x - 1, ".") and fi.is_p(x + 1, "(")]
                if not names_calls:
                    why = "secret_env_names() is not asked between the construction and the spawn"
                elif not [x for x in removes if x > names_calls[0]]:
                    why = "no env_remove after secret_env_names() and before the spawn"
                else:
                    rm = [x for x in removes if x > names_calls[0]][0]
                    # unconditional: every block between the env_remove and the function body is a `for` loop or a closure
                    cond = None
                    for blk in [names_calls[0], rm]:
                        par = fi.parent[blk]
                        while par != -1 and par != f.body[0]:
                            if fi.is_p(par, "{"):
                                h = par - 1
                                while h > f.body[0] and not (toks[h].k == "p" and toks[h].s in (";", "{", "}")):
                                    h -= 1
                                head = [x.s for x in toks[h + 1:par] if x.k == "id"]
                                closure = fi.is_p(par - 1, "|")
                                if not closure and (not head or head[0] != "for"):
                                    cond = " ".join(head[:3]) or "block"
                            par = fi.parent[par]
                    own_env_before = [x for x in range(i, rm) if toks[x].k == "id" and toks[x].s in ("envs", "env") and fi.is_p(x - 1, ".") and fi.is_p(x + 1, "(")]
                    if cond:
                        why = f"the removal is conditional (inside `{cond} ..`)"
                    elif own_env_before:
                        why = "the call's own env is applied before the removal (an explicit env must win)"
                    else:
                        ok = True
            if ok:
                n_strip += 1
            else:
                notes.append(f"{fi.rel}:{t.line} spawn site in fn {f.name}: {why}")
    if n_sites == 0:
        notes.append("no subprocess spawn site found in rip-tools/src or ripd/src")
    # (7) no credential-shaped variable name outside the fixed list (a fallback variable the spawn path does not know)
    unlisted = set()
    for fi in tools + ripd + load_rs(repo, "rip-cli") + load_rs(repo, "rip-provider-openresponses"):
        for i, t in enumerate(fi.toks):
            if t.k == "str" and not fi.test[i] and KEY_VAR_RE.match(t.s) and t.s not in fixed:
                unlisted.add(t.s)
                notes.append(f"{fi.rel}:{t.line} credential-shaped variable name {t.s!r} is not in PROVIDER_KEY_ENV_VARS")
    site_programs.sort()
    return fixed, fresh, grows, load_registers, loaders, n_sites, n_strip, len(unlisted), notes, site_programs


def site_steps(fi, f, i):
    """The step ORDER of one spawn site (function f of file fi, command constructed at token i), as the model's `sstep`
    names: SCwd (the `if let Some(cwd) .. { resolve_path .. current_dir } else { current_dir(root) }` statement at the top
    level of the function), SStrip (the removal loop over secret_env_names() at the top level, `for` loops / closures allowed
    around it), SStripIfCwd / SStripIfNoCwd (the loop sits in the then- / else-block of the cwd statement), SStripCond (under any
    other condition), SOwnEnv (the call's own `env`: .envs( / .env( ), SSpawn.  Anything not found is simply absent from the
    list (the obligation compares the list with the model's order)."""
    toks = fi.toks
    body_open, body_close = f.body
    spawns = [x for x in range(i, body_close) if toks[x].k == "id" and toks[x].s in ("spawn", "spawn_command") and fi.is_p(x - 1, ".") and fi.is_p(x + 1, "(")]
    sp = spawns[0] if spawns else body_close
    events = []

    def enclosing_brace(x):
        par = fi.parent[x]
        while par != -1 and not fi.is_p(par, "{"):
            par = fi.parent[par]
        return par

    # the cwd statement
    cwd_then, cwd_else = None, None
    for x in range(i, sp):
        if toks[x].k == "id" and toks[x].s == "if" and enclosing_brace(x) == body_open and not (x > 0 and fi.is_id(x - 1, "else")):
            a = x + 1
            while a < sp and not (fi.is_p(a, "{") and fi.parent[a] == fi.parent[x]):
                a += 1
            if a >= sp or a not in fi.mate:
                continue
            head = [t.s for t in toks[x + 1:a] if t.k == "id"]
            if "cwd" not in head:
                continue
            b = fi.mate[a]
            then_ids = [t.s for t in toks[a:b] if t.k == "id"]
            if "resolve_path" not in then_ids or not ({"current_dir", "cwd"} & set(then_ids)):
                continue
            if fi.is_id(b + 1, "else") and fi.is_p(b + 2, "{") and (b + 2) in fi.mate:
                c, d = b + 2, fi.mate[b + 2]
                else_calls = [y for y in range(c, d) if toks[y].k == "id" and toks[y].s in ("current_dir", "cwd") and fi.is_p(y - 1, ".") and fi.is_p(y + 1, "(")]
                if else_calls:
                    cwd_then, cwd_else = (a, b), (c, d)
                    events.append((x, "SCwd"))
                    break
    # the removal loops
    for k in range(i, sp):
        if not (toks[k].k == "id" and toks[k].s == "secret_env_names" and fi.is_p(k + 1, "(")):
            continue
        rms = [x for x in range(k, sp) if toks[x].k == "id" and toks[x].s == "env_remove" and fi.is_p(x - 1, ".") and fi.is_p(x + 1, "(")]
        if not rms:
            continue
        rm = rms[0]
        kind = "SStrip"
        par = fi.parent[rm]
        while par != -1 and par != body_open:
            if fi.is_p(par, "{"):
                if cwd_then and par == cwd_then[0]:
                    kind = "SStripIfCwd" if kind == "SStrip" else kind
                elif cwd_else and par == cwd_else[0]:
                    kind = "SStripIfNoCwd" if kind == "SStrip" else kind
                else:
                    h = par - 1
                    while h > body_open and not (toks[h].k == "p" and toks[h].s in (";", "{", "}")):
                        h -= 1
                    head = [x.s for x in toks[h + 1:par] if x.k == "id"]
                    closure = fi.is_p(par - 1, "|")
                    if not closure and (not head or head[0] != "for"):
                        kind = "SStripCond"
            par = fi.parent[par]
        events.append((rm, kind))
    # the call's own env
    own = [x for x in range(i, sp) if toks[x].k == "id" and toks[x].s in ("envs", "env") and fi.is_p(x - 1, ".") and fi.is_p(x + 1, "(")]
    if own:
        events.append((own[0], "SOwnEnv"))
    if spawns:
        events.append((sp, "SSpawn"))
    events.sort()
    return [name for _, name in events]



def coq_lit(s):
    return '(lit "%s")' % s.replace('"', '""')


def main():
    ap = argparse.ArgumentParser()
    ap.add_argument("--repo", required=True)
    ap.add_argument("--out", required=True)
    ap.add_argument("--verbose", action="store_true")
    a = ap.parse_args()
    roots = [os.path.join(a.repo, "crates", "ripd", "src"), os.path.join(a.repo, "crates", "rip-cli", "src")]
    files, problems = [], []
    for root in roots:
        if not os.path.isdir(root):
            problems.append(f"missing source dir {root}")
            continue
        for dp, dn, fn in os.walk(root):
            dn.sort()
            for f in sorted(fn):
                if not f.endswith(".rs"):
                    continue
                rel = os.path.relpath(os.path.join(dp, f), os.path.join(a.repo, "crates"))
                if f.endswith("_tests.rs") or f == "tests.rs" or "/tests/" in rel or rel.endswith("verif.rs"):
                    continue
                try:
                    src = open(os.path.join(dp, f), encoding="utf-8", errors="replace").read()
                except OSError as e:
                    problems.append(f"unreadable {rel}: {e}")
                    continue
                files.append(FileInfo(rel, lex(src)))
    types = collect_types(files)
    secret, seed_fields, carrier_fields = secret_closure(types)
    for fi in files:
        ids = {t.s for t in fi.toks if t.k == "id"}
        fi.mentions_secret = bool(ids & secret)
    fns = collect_fns(files)
    an = Analyzer(files, types, secret, seed_fields, carrier_fields, fns)
    sites = an.run()

    # field declarations
    decls = []
    for n in sorted(secret):
        ti = types[n]
        for f, ids, tx, line in ti.fields:
            if ti.kind == "struct" and (is_seed_field(f, ids, tx) or set(ids) & secret):
                decls.append((ti.rel, line, f"{n}.{f} : {tx}"))
    # derives / Display impls on secret-bearing types
    derives = []
    for n in sorted(secret):
        ti = types[n]
        if "Debug" in ti.derives:
            derives.append((n, 0))
        if "Serialize" in ti.derives:
            derives.append((n, 1))
    for fi in files:
        for (o, c, ty, trait) in getattr(fi, "impls", []):
            if ty in secret and trait in ("Display", "Debug", "Serialize") and not fi.test[o]:
                derives.append((ty, {"Debug": 0, "Serialize": 1, "Display": 2}[trait]))
    derives = sorted(set(derives))

    # anchors
    def has_fields(name, *fs):
        return name in types and all(any(f == x[0] for x in types[name].fields) for f in fs)
    kinds_found = {}
    for key, (cls, line, text) in sites.items():
        kinds_found.setdefault(cls, []).append((key[0], line, text))
    if not has_fields("OpenResponsesConfig", "api_key", "headers"):
        problems.append("struct OpenResponsesConfig {api_key, headers} not found")
    if not has_fields("OpenResponsesResolvedConfig", "api_key", "headers", "api_key_source"):
        problems.append("struct OpenResponsesResolvedConfig {api_key, headers, api_key_source} not found")
    if not has_fields("ProviderConfig", "api_key", "headers"):
        problems.append("struct ProviderConfig {api_key, headers} not found")
    if "ApiKeySource" not in types or sorted(v[0] for v in types["ApiKeySource"].variants) != ["Env", "Inline"]:
        problems.append("enum ApiKeySource { Inline(String), Env { env } } not found in that shape")
    for k, what in (("UBearerAuth", "request.bearer_auth(key)"), ("URequestHeader", "request.header(name, value)"),
                    ("UPresence", "has_api_key presence test"), ("UNameProjection", "header-name projection"),
                    ("UResolve", "ApiKeySource::resolve"), ("UEnvRead", "secret environment read")):
        if k not in kinds_found:
            problems.append(f"anchor use not found: {what}")
    if not any("deserialisation (secret-bearing" in text for _, (cls, line, text) in sites.items()):
        problems.append("anchor use not found: typed deserialisation of the merged configuration (serde_json::from_value::<RipConfig>)")
    if not any(r.startswith("ripd/src/server.rs") for r, _, _ in kinds_found.get("UPresence", [])):
        problems.append("anchor use not found: presence test in server.rs (doctor)")

    sp_fixed, sp_fresh, sp_grows, sp_load, sp_loaders, sp_sites, sp_strip, sp_unlisted, sp_notes, sp_programs = spawn_path_facts(a.repo)

    def cb(b):
        return "true" if b else "false"

    uses = [(rel, line, KIND["UDecl"], "UDecl", text) for rel, line, text in decls]
    for key, (cls, line, text) in sites.items():
        uses.append((key[0], line, KIND[cls], cls, text))
    uses.sort()
    found_all = not problems

    os.makedirs(a.out, exist_ok=True)
    out = []
    out.append("(* GENERATED by tools/gen/secret_uses.py from crates/ripd/src and crates/rip-cli/src on every ./check run -")
    out.append("   do not edit.  Every syntactic use of a secret-bearing value (api_key / header values / secret")
    out.append("   environment reads and the structs that carry them) in non-test code, classified by kind, and the")
    out.append("   Debug / Serialize / Display capabilities of every secret-bearing type. *)")
    out.append("From Coq Require Import Strings.String Strings.Ascii.")
    out.append("From RipV Require Import Base.Prelude Model.SecretFlow Proofs.SecretFlowProofs.")
    out.append("")
    out.append("(* secret-bearing types: " + ", ".join(sorted(secret)) + " *)")
    out.append("(* seed fields: " + ", ".join(sorted(seed_fields)) + "; carrier fields: " + ", ".join(sorted(carrier_fields)) + " *)")
    for p in problems:
        out.append("(* PROBLEM: " + p.replace("*)", "* )") + " *)")
    out.append("")
    out.append("Definition gen_found_all : bool := %s." % ("true" if found_all else "false"))
    out.append("")
    out.append("(* (kind code) per use site; the site is in the comment *)")
    out.append("Definition gen_use_kinds : list N := [")
    for n, (rel, line, code, cls, text) in enumerate(uses):
        sep = ";" if n + 1 < len(uses) else ""
        out.append("  %d%s  (* %s:%d %s %s *)" % (code, sep, rel, line, cls, text.replace("*)", "* )").replace("(*", "( *")))
    out.append("].")
    out.append("")
    out.append("Definition gen_derives : list (str * N) := [")
    for n, (ty, d) in enumerate(derives):
        sep = ";" if n + 1 < len(derives) else ""
        out.append("  (%s, %d)%s" % (coq_lit(ty), d, sep))
    out.append("].")
    out.append("")
    out.append("(* obligation: only the kinds of flow the model has (resolution, copies between the secret-bearing")
    out.append("   records, presence tests, bearer_auth, request.header, header-name projection, env read / set),")
    out.append("   no formatting / serialising / unclassifiable use; only the derives known today *)")
    out.append("Lemma gen_secret_uses_ok : uses_wf gen_use_kinds gen_derives gen_found_all = true.")
    out.append("Proof. vm_compute. reflexivity. Qed.")
    out.append("")
    out.append("(* the SPAWN PATH (rip-tools/src/secret_env.rs, ripd/src/config.rs load_effective_config, ripd/src/runner.rs,")
    out.append("   the subprocess spawn sites of rip-tools and ripd): the list removed from a subprocess environment is")
    out.append("   rebuilt from the registry at every spawn (no memoisation), the registry only grows, every load registers. *)")
    for nt in sp_notes:
        out.append("(* SPAWN-PATH PROBLEM: " + nt.replace("*)", "* )").replace("(*", "( *") + " *)")
    out.append("Definition gen_spawn_facts : spawn_facts :=")
    out.append("  mkSpawnFacts [%s] %s %s %s %s %d %d %d." % ("; ".join(coq_lit(x) for x in sp_fixed), cb(sp_fresh), cb(sp_grows), cb(sp_load), cb(sp_loaders), sp_sites, sp_strip, sp_unlisted))
    out.append("Lemma gen_spawn_facts_ok : spawn_facts_wf gen_spawn_facts = true.")
    out.append("Proof. vm_compute. reflexivity. Qed.")
    out.append("Lemma gen_spawn_path_as_modelled :")
    out.append("  sf_fixed_names gen_spawn_facts = [E_API_KEY; E_OPENAI; E_OPENROUTER]")
    out.append("  /\\ sf_names_fresh gen_spawn_facts = true /\\ sf_registry_grows_only gen_spawn_facts = true")
    out.append("  /\\ sf_load_registers gen_spawn_facts = true /\\ sf_loaders_found gen_spawn_facts = true")
    out.append("  /\\ 1 <= sf_spawn_sites gen_spawn_facts /\\ sf_spawn_sites gen_spawn_facts = sf_spawn_sites_stripping gen_spawn_facts")
    out.append("  /\\ sf_unlisted_key_vars gen_spawn_facts = 0.")
    out.append("Proof. exact (spawn_facts_wf_sound _ gen_spawn_facts_ok). Qed.")
    out.append("")
    out.append("(* the STEP ORDER of every subprocess spawn site, read from the source (file, function, steps between the construction")
    out.append("   of the command and the spawn): cwd statement, removal loop over secret_env_names() and WHERE it sits (top level of")
    out.append("   the function / then- or else-block of the cwd statement / under another condition), the call's own env, spawn.")
    out.append("   Obligation: the sites are the three the model has, each with the model's order [SCwd; SStrip; SOwnEnv; SSpawn]. *)")
    out.append("Definition gen_spawn_site_steps : list (str * str * list sstep) := [")
    for n, (rel, fname, steps) in enumerate(sp_programs):
        sep = ";" if n + 1 < len(sp_programs) else ""
        out.append("  (%s, %s, [%s])%s" % (coq_lit(rel), coq_lit(fname), "; ".join(steps), sep))
    out.append("].")
    out.append("Lemma gen_spawn_site_steps_ok : site_steps_wf gen_spawn_site_steps = true.")
    out.append("Proof. vm_compute. reflexivity. Qed.")
    out.append("Lemma gen_spawn_sites_as_modelled :")
    out.append("  map fst gen_spawn_site_steps = modelled_spawn_sites")
    out.append("  /\\ Forall (fun s => forall m r e q, run_steps (snd s) m r q (cmd_new e) = site_cmd true m r e q) gen_spawn_site_steps.")
    out.append("Proof. exact (site_steps_wf_sound _ gen_spawn_site_steps_ok). Qed.")
    out.append("")
    out.append("Lemma gen_uses_within_model_flows :")
    out.append("  gen_found_all = true")
    out.append("  /\\ Forall (fun k => exists u, use_kind_code u = k /\\ u <> UFormat /\\ u <> USerialize /\\ u <> UOther) gen_use_kinds")
    out.append("  /\\ Forall (fun d => In d allowed_derives) gen_derives.")
    out.append("Proof. exact (uses_wf_sound _ _ _ gen_secret_uses_ok). Qed.")
    out.append("")
    open(os.path.join(a.out, "SecretUses.v"), "w").write("\n".join(out))
    bad = [u for u in uses if 10 <= u[2] <= 12]
    print(f"secret_uses: {len(files)} files, {len(secret)} secret-bearing types, {len(uses)} use sites, "
          f"{len(bad)} disallowed, {len(derives)} derives, found_all={found_all}")
    for u in bad:
        print("  DISALLOWED %s:%d %s %s" % (u[0], u[1], u[3], u[4]))
    for p in problems:
        print("  PROBLEM " + p)
    print(f"secret_uses: spawn path: fixed={sp_fixed} fresh={sp_fresh} grows_only={sp_grows} load_registers={sp_load} "
          f"loaders={sp_loaders} spawn sites {sp_strip}/{sp_sites} stripping, {sp_unlisted} unlisted key variables")
    for nt in sp_notes:
        print("  SPAWN-PATH PROBLEM " + nt)
    for rel, fname, steps in sp_programs:
        print(f"secret_uses: spawn site {rel} fn {fname}: " + " ".join(steps))
    if a.verbose:
        for u in uses:
            print("  %s:%d %s %s" % (u[0], u[1], u[3], u[4]))
        print("  derives:", derives)
    return 0


if __name__ == "__main__":
    sys.exit(main())
