#!/usr/bin/env python3
"""T1 extractor for C03 (and read by C01): the HEAD of a provider request in crates/ripd/src/session.rs
`stream_openresponses_request` - every statement between `request_dump_config_from_env()` and the request being sent
(`.send()`) that touches the run's counter, in source order:

  RBuild slot   a frame is built from the counter: `seq: *req.seq` inside an `Event { .. }` literal, or inside the
                argument of `maybe_dump_openresponses_request(..)` (the capture frame; conditional: it exists only when
                request capture is on).  The slot is the binding the frame is stored in (`let X = Event {..}`,
                `if let Some(X) = maybe_dump..(..)`, `let X = maybe_dump..(..)?`), or the emit itself when the literal is
                the argument of `.emit(..)`.
  REmit slot    `req.sink.emit(X)` / `.emit(Event { .. })`; `if let Some(Y) = X {` re-binds a slot.
  RBump         `*req.seq += 1`
Statements inside an `if let Some(..) = <capture> {` block are conditional (true).  Frames: slot 0 = the capture frame,
slot 1 = `openresponses_request_started` (an Event literal whose kind names it).  Anything the scan cannot place
(an emit of an unknown binding, a build it cannot attribute) sets gen_ok_request_head := false.

Emits coq/Gen/RequestHead.v: gen_request_head : WireRun.head, the obligation `wf_head gen_request_head = true` (the
head is a concatenation of emit sites "build, emit, bump" whether the switch is on or off), and check_head / head_obs.
"""
import argparse, os, re, sys


def strip_comments(s):
    s = re.sub(r"//[^\n]*", "", s)
    return re.sub(r"/\*.*?\*/", "", s, flags=re.S)


def match_close(src, i, open_c, close_c):
    depth, j = 0, i
    while j < len(src):
        if src[j] == open_c:
            depth += 1
        elif src[j] == close_c:
            depth -= 1
            if depth == 0:
                return j
        j += 1
    return len(src) - 1


def main():
    ap = argparse.ArgumentParser()
    ap.add_argument("--repo", required=True)
    ap.add_argument("--out", required=True)
    a = ap.parse_args()
    path = os.path.join(a.repo, "crates/ripd/src/session.rs")
    notes, ok, stmts = [], True, []
    try:
        src = strip_comments(open(path).read())
    except OSError as e:
        src, ok = "", False
        notes.append(f"cannot read session.rs: {e}")
    m = re.search(r"async fn stream_openresponses_request\b", src)
    body = ""
    if not m:
        ok = False
        notes.append("fn stream_openresponses_request not found")
    else:
        b0 = src.index("{", src.index("->", m.end()))
        body = src[b0:match_close(src, b0, "{", "}") + 1]
        s0 = body.find("request_dump_config_from_env")
        # the statement that holds the dump configuration starts at the `let` in front of it
        s_let = body.rfind("let ", 0, s0) if s0 >= 0 else -1
        s1 = body.find(".send()")
        if s0 < 0 or s1 < 0 or s1 < s0:
            ok = False
            notes.append("request_dump_config_from_env() .. .send() not found in stream_openresponses_request")
            body = ""
        else:
            # a frame built BEFORE the dump configuration is read and emitted inside the head belongs to the head: start at
            # the end of the invalid-request early return (the last `return Err(` in front of the configuration)
            r0 = body.rfind("return Err(", 0, s_let)
            start = body.index(";", r0) + 1 if r0 >= 0 else s_let
            # .. and skip the closing brace of that `if` block
            head_src = body[start:s1]
            head_src = head_src.lstrip()
            if head_src.startswith("}"):
                head_src = head_src[1:]
            body = head_src
    # ---- token scan
    slots = {}           # binding -> slot number
    cond_until = []      # stack of (end offset) of conditional blocks
    i, n = 0, len(body)
    tok = re.compile(
        r"(?P<iflet>if\s+let\s+Some\((?P<ifb>\w+)\)\s*=\s*)"
        r"|(?P<let>let\s+(?:mut\s+)?(?P<lb>\w+)\s*(?::[^=]+)?=\s*)"
        r"|(?P<emit>\.emit\s*\()"
        r"|(?P<bump>\*req\.seq\s*\+=\s*1)"
        r"|(?P<ev>\bEvent\s*\{)"
        r"|(?P<dump>maybe_dump_openresponses_request\s*\()")
    pending_bind = None   # (binding name, conditional-block?) for the expression that follows a let / if let

    def is_cond(pos):
        return any(pos < e for e in cond_until)

    def slot_of_event(text):
        if "OpenResponsesRequestStarted" in text:
            return 1
        return None

    while i < n:
        m = tok.search(body, i)
        if not m:
            break
        pos = m.start()
        cond_until[:] = [e for e in cond_until if pos < e]
        if m.group("iflet"):
            name = m.group("ifb")
            rest = body[m.end():]
            m2 = re.match(r"(\w+)\s*\{", rest)
            if m2 and m2.group(1) in slots:
                # `if let Some(Y) = X {`: Y is the frame of slot X, the block is conditional
                slots[name] = slots[m2.group(1)]
                bo = m.end() + m2.end() - 1
                cond_until.append(match_close(body, bo, "{", "}"))
                i = bo + 1
                continue
            pending_bind = (name, True)
            i = m.end()
            continue
        if m.group("let"):
            pending_bind = (m.group("lb"), False)
            i = m.end()
            continue
        if m.group("dump"):
            po = m.end() - 1
            pc = match_close(body, po, "(", ")")
            arg = body[po:pc + 1]
            if not re.search(r"\bseq\s*:\s*\*req\.seq", arg):
                ok = False
                notes.append("maybe_dump_openresponses_request(..) is not handed `seq: *req.seq`")
            stmts.append((True, "RBuild 0"))
            if pending_bind:
                slots[pending_bind[0]] = 0
                if pending_bind[1]:
                    # `if let Some(X) = maybe_dump(..)? {`: the block that follows is conditional
                    bo = body.find("{", pc)
                    if bo >= 0:
                        cond_until.append(match_close(body, bo, "{", "}"))
                pending_bind = None
            i = pc + 1
            continue
        if m.group("ev"):
            bo = m.end() - 1
            bc = match_close(body, bo, "{", "}")
            text = body[bo:bc + 1]
            if re.search(r"\bseq\s*:\s*\*req\.seq", text):
                sl = slot_of_event(text)
                if sl is None:
                    ok = False
                    notes.append("an Event literal of the head is built from the counter and is not request_started")
                    sl = 9
                stmts.append((is_cond(pos), f"RBuild {sl}"))
                if pending_bind:
                    slots[pending_bind[0]] = sl
                    pending_bind = None
                else:
                    slots["<inline>"] = sl
            i = bc + 1
            continue
        if m.group("emit"):
            po = m.end() - 1
            pc = match_close(body, po, "(", ")")
            arg = body[po + 1:pc].strip()
            if arg.startswith("Event"):
                # the literal is scanned as a build first (next iteration), then emitted
                bo = body.index("{", po)
                bc = match_close(body, bo, "{", "}")
                text = body[bo:bc + 1]
                sl = slot_of_event(text)
                if re.search(r"\bseq\s*:\s*\*req\.seq", text) and sl is not None:
                    stmts.append((is_cond(pos), f"RBuild {sl}"))
                    stmts.append((is_cond(pos), f"REmit {sl}"))
                else:
                    ok = False
                    notes.append("an inline Event literal is emitted that the scan cannot attribute")
            elif re.fullmatch(r"\w+", arg) and arg in slots:
                stmts.append((is_cond(pos), f"REmit {slots[arg]}"))
            else:
                ok = False
                notes.append(f"emit of `{arg[:40]}`: not a frame built in the head")
            i = pc + 1
            pending_bind = None
            continue
        if m.group("bump"):
            stmts.append((is_cond(pos), "RBump"))
            i = m.end()
            continue
        i = m.end()
    if not any(s == "REmit 1" for _, s in stmts):
        ok = False
        notes.append("no emit of openresponses_request_started found in the head")
    if not any(s == "REmit 0" for _, s in stmts):
        ok = False
        notes.append("no emit of the capture frame found in the head")
    lines = []
    lines.append("(* GENERATED by tools/gen/request_head.py from crates/ripd/src/session.rs (fn stream_openresponses_request) on every ./check run - do not edit.")
    lines.append("   The statements of the head of a provider request that touch the run's counter, in source order; (true, x) = only when")
    lines.append("   request capture (RIP_OPENRESPONSES_DUMP_REQUEST) produced a frame. *)")
    lines.append("From RipV Require Import Base.Prelude Model.WireRun.")
    lines.append("")
    for nn in notes:
        lines.append(f"(* note: {nn} *)")
    lines.append(f"Definition gen_ok_request_head : bool := {'true' if ok else 'false'}.")
    lines.append("Definition gen_request_head : head := [" + "; ".join(f"({'true' if c else 'false'}, {s})" for c, s in stmts) + "].")
    lines.append("")
    lines.append("(* the obligation: with the switch on and with the switch off the head is a concatenation of emit sites")
    lines.append("   (build from the counter, emit, bump) - no frame is built from a counter value another frame takes *)")
    lines.append("Lemma gen_request_head_ok : gen_ok_request_head && wf_head gen_request_head = true.")
    lines.append("Proof. vm_compute. reflexivity. Qed.")
    lines.append("")
    lines.append("Definition check_head : head_case -> bool := check_head_with gen_request_head.")
    lines.append("Definition head_obs : head_case -> list N := head_obs_with gen_request_head.")
    os.makedirs(a.out, exist_ok=True)
    with open(os.path.join(a.out, "RequestHead.v"), "w") as f:
        f.write("\n".join(lines) + "\n")
    print(f"request_head: {[('c' if c else '') + s for c, s in stmts]}; ok={ok}; notes={notes}")
    return 0


if __name__ == "__main__":
    sys.exit(main())
