#!/usr/bin/env python3
"""T1 extractor for C11, "listing the files it changed": reads from the rip checkout

  crates/rip-workspace/src/lib.rs        Workspace::apply_patch: in each arm of `match op`, which paths are pushed to
                                         `changed_files` and under which condition (unconditionally in the arm / inside
                                         `if let Some(moved_to) = moved_to { .. }`); `changed_files.sort(); .dedup();`
                                         before `Ok(PatchApplyResult { changed_files })`
  crates/rip-tools/src/builtins/apply_patch.rs   the artifacts carry `"changed_files": result.changed_files`
  crates/rip-tools/src/builtins/write.rs         the artifacts carry `"path": normalize_rel_path(&config.workspace_root, &path)`
  crates/ripd/src/session.rs             summarize_continuity_tool_side_effects: `changed_files` array first, else the
                                         `path` string, the auto checkpoint's files only `if affected_paths.is_none()`,
                                         then `paths.sort(); paths.dedup();`, and `affected_paths` handed to ToolSideEffects

and writes coq/Gen/SideFx.v with `gen_report : report_cfg` and the obligations

    gen_sidefx_found : gen_ok_sidefx = true
    gen_sidefx_wf    : report_wf gen_report = true

Pattern based; anything it cannot find makes gen_ok_sidefx false (it never guesses).
Usage: sidefx.py --repo /repo --out coq/Gen"""
import re, os, argparse

problems = []


def problem(msg):
    problems.append(msg)


def strip_comments(src):
    return re.sub(r"//[^\n]*", "", src)


def cut_tests(src):
    m = re.search(r"#\[cfg\(test\)\]\s*(?:pub\s*(?:\([a-z]+\))?\s*)?mod\s+\w+\s*\{", src)
    return src[:m.start()] if m else src


def block_at(src, i):
    """src[i] == '{' -> (body, index after the closing brace)"""
    depth = 0
    j = i
    while j < len(src):
        if src[j] == "{":
            depth += 1
        elif src[j] == "}":
            depth -= 1
            if depth == 0:
                return src[i + 1:j], j + 1
        j += 1
    return None, len(src)


def fn_body(src, name):
    m = re.search(r"\bfn\s+" + re.escape(name) + r"\b[^(]*\(", src)
    if not m:
        return None
    depth = 0
    k = m.end() - 1
    while k < len(src):
        if src[k] == "(":
            depth += 1
        elif src[k] == ")":
            depth -= 1
            if depth == 0:
                break
        k += 1
    i = src.find("{", k)
    if i < 0:
        return None
    return block_at(src, i)[0]


PUSH = re.compile(r"changed_files\s*\.\s*push\s*\(\s*normalize_rel\s*\(\s*(\w+)\s*\)\s*\)\s*;")


def pushes_of_arm(body):
    """[(variable, condition)] for every changed_files.push in an arm body; condition = '' (depth 0 of the arm),
    'moved' (directly inside `if let Some(moved_to) = moved_to {`), '?' (anything else)"""
    out = []
    for m in PUSH.finditer(body):
        # the stack of blocks open at the push
        stack = []
        for j in range(m.start()):
            if body[j] == "{":
                stack.append(j)
            elif body[j] == "}":
                if stack:
                    stack.pop()
        if not stack:
            out.append((m.group(1), ""))
        elif len(stack) == 1 and re.search(r"if\s+let\s+Some\s*\(\s*moved_to\s*\)\s*=\s*moved_to\s*$", body[:stack[0]].rstrip()):
            out.append((m.group(1), "moved"))
        else:
            out.append((m.group(1), "?"))
    return out


def main():
    ap = argparse.ArgumentParser()
    ap.add_argument("--repo", default="/repo")
    ap.add_argument("--out", default="coq/Gen")
    a = ap.parse_args()
    R = a.repo

    def read(rel):
        try:
            return cut_tests(strip_comments(open(os.path.join(R, rel)).read()))
        except OSError as e:
            problem(f"cannot read {rel}: {e}")
            return ""

    flags = dict(r_add=False, r_del=False, r_upd_plain=False, r_upd_moved_src=False, r_upd_moved_dst=False, r_lib_sorted=False,
                 r_tool_patch=False, r_tool_write=False, r_sum_changed=False, r_sum_path=False, r_sum_ck_only_when_none=False, r_sum_sorted=False)
    notes = []

    # ---- Workspace::apply_patch
    lib = read("crates/rip-workspace/src/lib.rs")
    body = fn_body(lib, "apply_patch")
    if body is None:
        problem("Workspace::apply_patch not found")
    else:
        if len(PUSH.findall(body)) != len(re.findall(r"changed_files\s*\.\s*push", body)):
            problem("apply_patch: a changed_files.push that is not `push(normalize_rel(<var>))`")
        arms = {}
        for name in ("AddFile", "DeleteFile", "UpdateFile"):
            ms = list(re.finditer(r"PatchOp::" + name + r"\s*\{[^}]*\}\s*=>\s*\{", body))
            if len(ms) != 1:
                problem(f"apply_patch: arm PatchOp::{name} not found exactly once")
                continue
            arm, _ = block_at(body, ms[0].end() - 1)
            if arm is None:
                problem(f"apply_patch: arm PatchOp::{name} has no body")
                continue
            arms[name] = pushes_of_arm(arm)
            if re.search(r"\bcontinue\b|\bbreak\b", arm):
                problem(f"apply_patch: arm PatchOp::{name} leaves the loop early (continue / break): pushes after it are conditional")
        notes.append("pushes per arm: %r" % arms)
        if len(arms) == 3:
            total = sum(len(v) for v in arms.values())
            if total != len(PUSH.findall(body)):
                problem("apply_patch: a changed_files.push outside the three arms")
            flags["r_add"] = arms["AddFile"] == [("path", "")]
            flags["r_del"] = arms["DeleteFile"] == [("path", "")]
            upd = arms["UpdateFile"]
            if any(c == "?" for _, c in upd):
                problem("apply_patch: UpdateFile pushes under a condition the extractor does not know")
            src_uncond = ("path", "") in upd
            flags["r_upd_plain"] = src_uncond
            flags["r_upd_moved_src"] = src_uncond or ("path", "moved") in upd
            flags["r_upd_moved_dst"] = ("moved_to", "moved") in upd or ("moved_to", "") in upd
            if [x for x in upd if x not in (("path", ""), ("path", "moved"), ("moved_to", "moved"))]:
                problem("apply_patch: UpdateFile pushes something else than path / moved_to: %r" % upd)
        flags["r_lib_sorted"] = bool(re.search(r"changed_files\s*\.\s*sort\s*\(\s*\)\s*;\s*changed_files\s*\.\s*dedup\s*\(\s*\)\s*;\s*Ok\s*\(\s*PatchApplyResult\s*\{\s*changed_files\s*\}\s*\)", body))

    # ---- the tools' artifacts
    ap_rs = read("crates/rip-tools/src/builtins/apply_patch.rs")
    flags["r_tool_patch"] = bool(re.search(r"\"changed_files\"\s*:\s*result\s*\.\s*changed_files\b", ap_rs)) and len(re.findall(r"\"changed_files\"", ap_rs)) == 1
    wr_rs = read("crates/rip-tools/src/builtins/write.rs")
    flags["r_tool_write"] = bool(re.search(r"\"path\"\s*:\s*normalize_rel_path\s*\(\s*&\s*config\s*\.\s*workspace_root\s*,\s*&\s*path\s*\)", wr_rs)) and len(re.findall(r"\"path\"\s*:", wr_rs)) == 1

    # ---- summarize_continuity_tool_side_effects
    ses = read("crates/ripd/src/session.rs")
    sb = fn_body(ses, "summarize_continuity_tool_side_effects")
    if sb is None:
        problem("summarize_continuity_tool_side_effects not found")
    else:
        i_cf = sb.find('map.get("changed_files")')
        i_path = sb.find('map.get("path")')
        i_none = re.search(r"if\s+affected_paths\s*\.\s*is_none\s*\(\s*\)\s*\{", sb)
        i_sort = re.search(r"paths\s*\.\s*sort\s*\(\s*\)\s*;\s*paths\s*\.\s*dedup\s*\(\s*\)\s*;", sb)
        i_ret = re.search(r"Some\s*\(\s*ToolSideEffects\s*\{[^}]*\baffected_paths\s*,", sb)
        assigns = [m.start() for m in re.finditer(r"\baffected_paths\s*=[^=]", sb)]
        flags["r_sum_changed"] = i_cf >= 0 and bool(re.search(r"if\s+let\s+Some\s*\(\s*Value::Array\s*\(\s*items\s*\)\s*\)\s*=\s*map\.get\(\"changed_files\"\)", sb))
        flags["r_sum_path"] = i_cf >= 0 and i_path > i_cf and bool(re.search(r"\}\s*else\s+if\s+let\s+Some\s*\(\s*Value::String\s*\(\s*path\s*\)\s*\)\s*=\s*map\.get\(\"path\"\)", sb))
        if i_none and i_sort and i_ret:
            blk, end = block_at(sb, i_none.end() - 1)
            # every assignment to affected_paths: the declaration, the two artifact branches (before the is_none test),
            # one inside the is_none block; nothing after it
            inside = [x for x in assigns if i_none.end() <= x < end]
            after = [x for x in assigns if x >= end]
            flags["r_sum_ck_only_when_none"] = i_path < i_none.start() and len(inside) == 1 and not after and "checkpoint_files" in (blk or "")
            flags["r_sum_sorted"] = end <= i_sort.start() < i_ret.start()
            if re.search(r"\.\s*(truncate|retain|filter|take|skip|pop|remove|clear)\s*\(", sb[i_none.start():i_ret.start()]):
                problem("summarize: the path list is cut down between the fallback and the frame")
        else:
            problem("summarize: is_none fallback / sort+dedup / ToolSideEffects { .. affected_paths, .. } not found")
        notes.append("summarize: changed_files@%d path@%d assignments=%d" % (i_cf, i_path, len(assigns)))

    ok = not problems
    b = lambda x: "true" if x else "false"
    out = []
    out.append("(* GENERATED by tools/gen/sidefx.py from the rip checkout — do not edit. *)")
    out.append("From RipV Require Import Base.Prelude Model.SideEffects.")
    out.append("")
    out.append("Definition gen_ok_sidefx : bool := %s." % b(ok))
    out.append("")
    out.append("Definition gen_report : report_cfg := {|")
    out.append(";\n".join("  %s := %s" % (k, b(v)) for k, v in flags.items()))
    out.append("|}.")
    out.append("")
    for n in notes:
        out.append("(* %s *)" % n.replace("*)", "* )"))
    for p in problems:
        out.append("(* PROBLEM: %s *)" % p.replace("*)", "* )"))
    out.append("")
    out.append("Lemma gen_sidefx_found : gen_ok_sidefx = true.")
    out.append("Proof. vm_compute. reflexivity. Qed.")
    out.append("")
    out.append("Lemma gen_sidefx_wf : report_wf gen_report = true.")
    out.append("Proof. vm_compute. reflexivity. Qed.")
    os.makedirs(a.out, exist_ok=True)
    open(os.path.join(a.out, "SideFx.v"), "w").write("\n".join(out) + "\n")
    for p in problems:
        print("sidefx.py: PROBLEM:", p)
    print("sidefx.py: wrote %s (ok=%s)" % (os.path.join(a.out, "SideFx.v"), ok))


if __name__ == "__main__":
    main()
