#!/usr/bin/env python3
"""T1 extractor for C03: the wire schema of rip's frames, read from crates/rip-kernel/src/lib.rs.

Reads
  * `pub struct Event { .. }`            -> the reader's own (non-flattened) fields + the flattened field
  * `struct EventWire { .. }` and `impl Serialize for Event` -> the keys the writer emits, in order, and the
    expression each one is fed from (`&self.id`, `self.stream_kind()`, ...)
  * `pub fn stream_id(&self)`            -> which field the stream id is
  * `pub fn stream_kind(&self)`          -> every match arm: variant, kind, whether the pattern binds/inspects
                                            fields, whether the arm has a guard; the default arm
  * `pub enum EventKind { .. }` with its container attributes -> every variant (tag after rename_all /
    rename, aliases) and every field (wire key after rename, type, default, aliases, skip_serializing_if)
  * the helper structs and C-like enums the field types name (same treatment)
Emits
  coq/Gen/EventSchema.v     gen_schema : Wire.schema  +  Lemma gen_schema_wf : wf_schema gen_schema = true
  coq/Gen/event_schema.json the same schema as JSON (with the Rust identifiers) — the harness generator is
                            driven by it, so new variants / fields are covered without editing the harness
Anything the script cannot classify becomes `TUnknown` / `SkipOther` / an `unsupported` note and
`gen_schema_supported := false`; `wf_schema` rejects all of these (never guess).
"""
import argparse, json, os, re, sys


def strip_comments(s):
    s = re.sub(r"//[^\n]*", "", s)
    return re.sub(r"/\*.*?\*/", "", s, flags=re.S)


def brace_body(src, start, open_c="{", close_c="}"):
    depth, j = 1, start
    while depth > 0 and j < len(src):
        c = src[j]
        if c == open_c:
            depth += 1
        elif c == close_c:
            depth -= 1
        j += 1
    return src[start:j - 1], j


def split_top(s, sep=","):
    """split on sep at nesting depth 0 of (), [], {}, <> and outside string literals"""
    out, cur, depth, i, instr = [], "", 0, 0, False
    while i < len(s):
        c = s[i]
        if instr:
            cur += c
            if c == "\\":
                cur += s[i + 1]
                i += 1
            elif c == '"':
                instr = False
        elif c == '"':
            instr = True
            cur += c
        elif c in "([{<":
            depth += 1
            cur += c
        elif c in ")]}>":
            # `->` / `=>` are not closers
            if c == ">" and i > 0 and s[i - 1] in "-=":
                cur += c
            else:
                depth -= 1
                cur += c
        elif c == sep and depth == 0:
            out.append(cur)
            cur = ""
        else:
            cur += c
        i += 1
    if cur.strip():
        out.append(cur)
    return out


def snake(name):
    out = ""
    for i, ch in enumerate(name):
        if ch.isupper():
            if i > 0:
                out += "_"
            out += ch.lower()
        else:
            out += ch
    return out


def parse_attrs(text):
    """text: the run of `#[...]` attributes in front of an item.  Returns (serde_items, other_attr_names).
    serde_items: list of (key, value or None)."""
    items, others = [], []
    i = 0
    while True:
        m = re.compile(r"#\s*\[").search(text, i)
        if not m:
            break
        body, j = brace_body(text, m.end(), "[", "]")
        i = j
        body = body.strip()
        mm = re.match(r"serde\s*\((.*)\)\s*$", body, flags=re.S)
        if mm:
            for it in split_top(mm.group(1)):
                it = it.strip()
                if not it:
                    continue
                kv = re.match(r'([a-z_]+)\s*=\s*"((?:[^"\\]|\\.)*)"\s*$', it, flags=re.S)
                if kv:
                    items.append((kv.group(1), kv.group(2)))
                elif re.match(r"[a-z_]+$", it):
                    items.append((it, None))
                else:
                    items.append(("?" + it, None))
        else:
            others.append(re.match(r"[A-Za-z_:]+", body).group(0) if re.match(r"[A-Za-z_:]+", body) else body)
    return items, others


def leading_attrs(s):
    """splits `#[..] #[..] rest` into (attr_text, rest)"""
    i = 0
    while True:
        m = re.match(r"\s*#\s*\[", s[i:])
        if not m:
            break
        _, j = brace_body(s, i + m.end(), "[", "]")
        i = j
    return s[:i], s[i:]


class Ctx:
    def __init__(self, src):
        self.src = src
        self.notes = []       # unsupported constructs
        self.enums = {}       # name -> list of tags
        self.structs = {}     # name -> list of field dicts
        self.in_progress = set()

    def unsupported(self, what):
        self.notes.append(what)

    # ---- item lookup
    def find_item(self, kw, name):
        m = re.search(r"((?:#\s*\[[^\]]*\]\s*)*)(?:pub(?:\([a-z]+\))?\s+)?" + kw + r"\s+" + re.escape(name) + r"\b[^{;]*\{", self.src)
        if not m:
            return None
        # attributes may contain ']' inside strings only in pathological cases; re-scan backwards robustly
        body, _ = brace_body(self.src, m.end())
        return m.group(1), body

    def parse_fields(self, body, where):
        fields = []
        for part in split_top(body):
            part = part.strip()
            if not part:
                continue
            attrs, rest = leading_attrs(part)
            rest = rest.strip()
            m = re.match(r"(?:pub(?:\([a-z]+\))?\s+)?(r#)?([a-z_][a-z0-9_]*)\s*:\s*(.+)$", rest, flags=re.S)
            if not m:
                self.unsupported(f"{where}: unparsable field `{rest[:50]}`")
                continue
            name, tystr = m.group(2), re.sub(r"\s+", "", m.group(3))
            items, others = parse_attrs(attrs)
            if any(o.startswith("cfg") for o in others):
                self.unsupported(f"{where}.{name}: cfg-conditional field")
            f = {"name": name, "key": name, "default": False, "aliases": [], "skip": "never", "rename": None,
                 "ty": self.parse_type(tystr, f"{where}.{name}"), "rust_type": tystr}
            for k, v in items:
                if k == "default" and v is None:
                    f["default"] = True
                elif k == "alias" and v is not None:
                    f["aliases"].append(v)
                elif k == "rename" and v is not None:
                    f["rename"] = v
                    f["key"] = v
                elif k == "skip_serializing_if" and v is not None:
                    vv = v.replace(" ", "")
                    if vv == "Option::is_none":
                        f["skip"] = "is_none"
                    elif vv == "Vec::is_empty":
                        f["skip"] = "is_empty"
                    else:
                        f["skip"] = "other"
                        self.unsupported(f"{where}.{name}: skip_serializing_if = {v}")
                else:
                    # default = "path", skip, skip_serializing, skip_deserializing, flatten, with, ...
                    f["ty"] = {"k": "unknown", "why": f"serde({k})"}
                    self.unsupported(f"{where}.{name}: serde({k}{'=' + v if v else ''})")
            fields.append(f)
        return fields

    def parse_type(self, t, where):
        prim = {"String": "str", "u64": "u64", "u32": "u32", "u16": "u16", "i32": "i32", "bool": "bool",
                "Value": "val", "serde_json::Value": "val"}
        if t in prim:
            return {"k": prim[t]}
        m = re.match(r"Option<(.+)>$", t)
        if m:
            return {"k": "opt", "of": self.parse_type(m.group(1), where)}
        m = re.match(r"Vec<(.+)>$", t)
        if m:
            return {"k": "vec", "of": self.parse_type(m.group(1), where)}
        if re.match(r"[A-Z][A-Za-z0-9]*$", t):
            e = self.get_enum(t)
            if e is not None:
                return {"k": "enum", "name": t, "tags": e}
            s = self.get_struct(t)
            if s is not None:
                return {"k": "struct", "name": t, "fields": s}
        self.unsupported(f"{where}: type {t} not modelled")
        return {"k": "unknown", "why": t}

    def container_attrs(self, attrs, where, allowed):
        items, _ = parse_attrs(attrs)
        out = {}
        for k, v in items:
            if k in allowed:
                out[k] = v
            else:
                self.unsupported(f"{where}: container attribute serde({k})")
        derives = re.findall(r"derive\s*\(([^)]*)\)", attrs)
        dl = [d.strip() for ds in derives for d in ds.split(",")]
        if "Serialize" not in dl or "Deserialize" not in dl:
            self.unsupported(f"{where}: does not derive both Serialize and Deserialize")
        return out

    def get_enum(self, name):
        if name in self.enums:
            return self.enums[name]
        it = self.find_item("enum", name)
        if it is None:
            return None
        attrs, body = it
        ca = self.container_attrs(attrs, name, {"rename_all"})
        if ca.get("rename_all") not in ("snake_case",):
            self.unsupported(f"{name}: rename_all = {ca.get('rename_all')} (only snake_case is modelled)")
        tags = []
        for part in split_top(body):
            part = part.strip()
            if not part:
                continue
            a, rest = leading_attrs(part)
            rest = rest.strip()
            if not re.match(r"[A-Z][A-Za-z0-9]*$", rest):
                # not a C-like enum
                return None
            items, _ = parse_attrs(a)
            tag = snake(rest)
            for k, v in items:
                if k == "rename" and v is not None:
                    tag = v
                else:
                    self.unsupported(f"{name}::{rest}: serde({k})")
            tags.append(tag)
        self.enums[name] = tags
        return tags

    def get_struct(self, name):
        if name in self.structs:
            return self.structs[name]
        if name in self.in_progress:
            self.unsupported(f"{name}: recursive type")
            return None
        it = self.find_item("struct", name)
        if it is None:
            return None
        self.in_progress.add(name)
        attrs, body = it
        self.container_attrs(attrs, name, set())
        fs = self.parse_fields(body, name)
        self.in_progress.discard(name)
        self.structs[name] = fs
        return fs


def extract(repo):
    path = os.path.join(repo, "crates", "rip-kernel", "src", "lib.rs")
    src = strip_comments(open(path).read())
    # the rip_verif hook lines are instrumentation only
    src = re.sub(r"#\s*\[cfg\(rip_verif\)\]\s*\n\s*(pub mod verif;|rip_kernel::verif::point\([^)]*\);)", "", src)
    cx = Ctx(src)
    sch = {"source": "crates/rip-kernel/src/lib.rs"}

    # ---- Event (reader side)
    it = cx.find_item("struct", "Event")
    if it is None:
        return None, "struct Event not found"
    attrs, body = it
    if "Deserialize" not in attrs:
        cx.unsupported("Event: Deserialize is not derived")
    items, _ = parse_attrs(attrs)
    for k, v in items:
        cx.unsupported(f"Event: container attribute serde({k})")
    de_fields, flat = [], None
    for part in split_top(body):
        part = part.strip()
        if not part:
            continue
        a, rest = leading_attrs(part)
        m = re.match(r"\s*(?:pub\s+)?([a-z_]+)\s*:\s*(.+)$", rest, flags=re.S)
        if not m:
            cx.unsupported("Event: unparsable field " + rest[:40])
            continue
        items, _ = parse_attrs(a)
        name, ty = m.group(1), re.sub(r"\s+", "", m.group(2))
        if items == [("flatten", None)]:
            flat = (name, ty)
        elif not items:
            de_fields.append([name, ty])
        else:
            cx.unsupported(f"Event.{name}: serde attributes {items}")
            de_fields.append([name, "?"])
    sch["event_fields"] = de_fields
    sch["event_flatten"] = list(flat) if flat else None

    # ---- EventWire (writer side) + impl Serialize for Event
    it = cx.find_item("struct", "EventWire")
    if it is None:
        return None, "struct EventWire not found"
    attrs, body = it
    if "Serialize" not in attrs:
        cx.unsupported("EventWire: Serialize is not derived")
    items, _ = parse_attrs(attrs)
    for k, v in items:
        cx.unsupported(f"EventWire: container attribute serde({k})")
    wire_fields, wire_flat = [], None
    for part in split_top(body):
        part = part.strip()
        if not part:
            continue
        a, rest = leading_attrs(part)
        m = re.match(r"\s*(?:pub\s+)?([a-z_]+)\s*:\s*(.+)$", rest, flags=re.S)
        if not m:
            cx.unsupported("EventWire: unparsable field " + rest[:40])
            continue
        items, _ = parse_attrs(a)
        name = m.group(1)
        if items == [("flatten", None)]:
            wire_flat = name
        elif not items:
            wire_fields.append(name)
        else:
            cx.unsupported(f"EventWire.{name}: serde attributes {items}")
            wire_fields.append(name)
    m = re.search(r"impl\s+Serialize\s+for\s+Event\s*\{", src)
    if not m:
        return None, "impl Serialize for Event not found"
    ibody, _ = brace_body(src, m.end())
    m = re.search(r"EventWire\s*\{", ibody)
    if not m:
        return None, "EventWire literal not found in impl Serialize for Event"
    lit, after = brace_body(ibody, m.end())
    if not re.match(r"\s*\.serialize\(serializer\)\s*\}?\s*$", ibody[after:].strip() and ibody[after:]):
        cx.unsupported("impl Serialize for Event: something other than `.serialize(serializer)` follows the EventWire literal")
    if re.search(r"\blet\b|\bif\b|\bmatch\b", ibody[:m.start()].split("{", 1)[-1]):
        cx.unsupported("impl Serialize for Event: statements before the EventWire literal")
    feeds = {}
    for part in split_top(lit):
        part = part.strip()
        if not part:
            continue
        mm = re.match(r"([a-z_]+)\s*:\s*(.+)$", part, flags=re.S)
        if not mm:
            cx.unsupported("EventWire literal: shorthand or unparsable initialiser " + part[:40])
            continue
        feeds[mm.group(1)] = re.sub(r"\s+", "", mm.group(2))
    sch["wire_fields"] = [[n, feeds.get(n, "?")] for n in wire_fields]
    sch["wire_flatten"] = [wire_flat, feeds.get(wire_flat, "?")] if wire_flat else None

    # ---- stream_id
    m = re.search(r"pub\s+fn\s+stream_id\s*\(\s*&self\s*\)\s*->\s*&str\s*\{", src)
    sid_src = "?"
    if m:
        b, _ = brace_body(src, m.end())
        sid_src = re.sub(r"\s+", "", b)
    sch["stream_id_body"] = sid_src

    # ---- stream_kind
    m = re.search(r"pub\s+fn\s+stream_kind\s*\(\s*&self\s*\)\s*->\s*StreamKind\s*\{", src)
    if not m:
        return None, "fn stream_kind not found"
    fbody, _ = brace_body(src, m.end())
    mm = re.search(r"match\s+&?self\.kind\s*\{", fbody)
    if not mm:
        return None, "stream_kind: match on self.kind not found"
    if fbody[:mm.start()].strip():
        cx.unsupported("stream_kind: statements before the match")
    mbody, mend = brace_body(fbody, mm.end())
    if fbody[mend:].strip():
        cx.unsupported("stream_kind: statements after the match")
    arms, default = [], None
    for arm in split_top(mbody):
        arm = arm.strip()
        if not arm:
            continue
        am = re.match(r"(.+?)=>\s*(.+)$", arm, flags=re.S)
        if not am:
            cx.unsupported("stream_kind: unparsable arm " + arm[:40])
            continue
        pat, rhs = am.group(1).strip(), am.group(2).strip()
        km = re.match(r"StreamKind::([A-Za-z]+)$", rhs)
        kind = km.group(1).lower() if km else "?"
        if not km:
            cx.unsupported("stream_kind: arm result is not a StreamKind constant: " + rhs[:40])
        guard = False
        gm = re.match(r"(.+?)\bif\b(.+)$", pat, flags=re.S)
        if gm:
            guard = True
            pat = gm.group(1).strip()
        if pat == "_":
            if default is None:
                default = {"kind": kind, "guard": guard}
            continue
        for alt in split_top(pat, "|"):
            alt = alt.strip()
            vm = re.match(r"EventKind::([A-Za-z0-9]+)\s*(.*)$", alt, flags=re.S)
            if not vm:
                cx.unsupported("stream_kind: unclassifiable pattern " + alt[:40])
                arms.append({"variant": "?", "kind": kind, "binds": True, "guard": guard})
                continue
            tail = re.sub(r"\s+", "", vm.group(2))
            binds = tail not in ("{..}", "(..)", "")
            arms.append({"variant": vm.group(1), "kind": kind, "binds": binds, "guard": guard})
    if default is None:
        default = {"kind": "?", "guard": False, "absent": True}
    sch["kind_arms"] = arms
    sch["kind_default"] = default

    # ---- EventKind
    it = cx.find_item("enum", "EventKind")
    if it is None:
        return None, "enum EventKind not found"
    attrs, body = it
    ca = cx.container_attrs(attrs, "EventKind", {"tag", "rename_all"})
    sch["tag_key"] = ca.get("tag")
    if ca.get("rename_all") != "snake_case":
        cx.unsupported(f"EventKind: rename_all = {ca.get('rename_all')}")
    variants = []
    for part in split_top(body):
        part = part.strip()
        if not part:
            continue
        a, rest = leading_attrs(part)
        rest = rest.strip()
        vm = re.match(r"([A-Z][A-Za-z0-9]*)\s*(\{(.*)\})?\s*$", rest, flags=re.S)
        if not vm:
            cx.unsupported("EventKind: variant that is not a struct or unit variant: " + rest[:40])
            continue
        name = vm.group(1)
        items, others = parse_attrs(a)
        if any(o.startswith("cfg") for o in others):
            cx.unsupported(f"EventKind::{name}: cfg-conditional variant")
        v = {"name": name, "tag": snake(name), "aliases": [], "fields": []}
        for k, val in items:
            if k == "rename" and val is not None:
                v["tag"] = val
            elif k == "alias" and val is not None:
                v["aliases"].append(val)
            else:
                cx.unsupported(f"EventKind::{name}: serde({k})")
        if vm.group(3) is not None:
            v["fields"] = cx.parse_fields(vm.group(3), name)
        kind = None
        for arm in arms:
            if arm["variant"] == name:
                kind = arm["kind"]
                break
        v["kind"] = kind if kind is not None else default["kind"]
        variants.append(v)
    if not variants:
        return None, "EventKind has no variants"
    sch["variants"] = variants
    sch["enums"] = cx.enums
    sch["structs"] = {k: v for k, v in cx.structs.items()}
    sch["unsupported"] = cx.notes
    return sch, None


# ---------------------------------------------------------------- Coq emission
def cstr(s):
    return "[" + "; ".join(str(ord(c)) for c in s) + "]"


def cstr_c(s):
    return f"{cstr(s)} (* {s.replace('*)', '* )').replace('(*', '( *')} *)" if s else "[]"


def cty(t):
    k = t["k"]
    simple = {"str": "TStr", "u64": "TU64", "u32": "TU32", "u16": "TU16", "i32": "TI32", "bool": "TBool", "val": "TVal"}
    if k in simple:
        return simple[k]
    if k == "opt":
        return f"(TOpt {cty(t['of'])})"
    if k == "vec":
        return f"(TVec {cty(t['of'])})"
    if k == "enum":
        return "(TEnum [" + "; ".join(cstr(x) for x in t["tags"]) + "])"
    if k == "struct":
        return "(TStruct [" + "; ".join(cfield(f) for f in t["fields"]) + "])"
    return "TUnknown"


def cfield(f):
    skip = {"never": "SkipNever", "is_none": "SkipIsNone", "is_empty": "SkipIsEmpty"}.get(f["skip"], "SkipOther")
    al = "[" + "; ".join(cstr(a) for a in f["aliases"]) + "]"
    return f"(mkF {cstr(f['key'])} {'true' if f['default'] else 'false'} {al} {skip}, {cty(f['ty'])})"


def ckind(k):
    return {"session": "KSession", "task": "KTask", "continuity": "KContinuity", "artifact": "KArtifact"}.get(k, "KUnknown")


def emit_coq(sch, err):
    o = []
    o.append("(* GENERATED by tools/gen/event_schema.py from crates/rip-kernel/src/lib.rs — do not edit.")
    o.append("   The wire schema of rip's frames: envelope as EventWire writes it and Event reads it, every EventKind")
    o.append("   variant with tag/aliases, every field with wire key, type, default, aliases, skip rule, and the")
    o.append("   stream_kind match.  The theorems of Props/C03.v are proved for every schema with wf_schema = true. *)")
    o.append("From RipV Require Import Base.Prelude Base.Json Model.Wire.")
    o.append("")
    if sch is None:
        o.append(f"(* extractor failed: {err} *)")
        o.append("Definition gen_schema_supported : bool := false.")
        o.append("Definition gen_schema : schema := empty_schema.")
    else:
        o.append("Definition gen_schema_supported : bool := " + ("true" if not sch["unsupported"] else "false") + ".")
        for n in sch["unsupported"]:
            o.append("(* unsupported: " + n.replace("*)", "* )").replace("(*", "( *").replace('"', "'") + " *)")
        o.append("")
        for i, v in enumerate(sch["variants"]):
            o.append(f"(* {v['name']} : tag {v['tag']}, kind {v['kind']} *)")
            o.append(f"Definition gen_v{i} : variant :=")
            o.append(f"  {{| vname := {cstr(v['name'])}; vtag := {cstr(v['tag'])};")
            o.append("     valiases := [" + "; ".join(cstr(a) for a in v["aliases"]) + "];")
            o.append("     vfields := [")
            for j, f in enumerate(v["fields"]):
                o.append(f"       (* {f['name']} : {f['rust_type']} *) {cfield(f)}" + (";" if j + 1 < len(v["fields"]) else ""))
            o.append("     ] |}.")
        o.append("")
        o.append("Definition gen_schema : schema :=")
        o.append("  {| s_variants := [" + "; ".join(f"gen_v{i}" for i in range(len(sch["variants"]))) + "];")
        o.append("     s_arms := [")
        arms = sch["kind_arms"]
        for j, a in enumerate(arms):
            o.append(f"       {{| ka_variant := {cstr_c(a['variant'])}; ka_kind := {ckind(a['kind'])}; ka_binds := {'true' if a['binds'] else 'false'}; ka_guard := {'true' if a['guard'] else 'false'} |}}" + (";" if j + 1 < len(arms) else ""))
        o.append("     ];")
        d = sch["kind_default"]
        o.append(f"     s_default_kind := {ckind(d['kind'])};")
        o.append(f"     s_default_guard := {'true' if d.get('guard') else 'false'};")
        o.append("     s_wire := [" + "; ".join(f"({cstr_c(n)}, {cstr_c(e)})" for n, e in sch["wire_fields"]) + "];")
        wf = sch["wire_flatten"] or ["", ""]
        o.append(f"     s_wire_flatten := ({cstr_c(wf[0])}, {cstr_c(wf[1])});")
        o.append("     s_event := [" + "; ".join(f"({cstr_c(n)}, {cstr_c(t)})" for n, t in sch["event_fields"]) + "];")
        ef = sch["event_flatten"] or ["", ""]
        o.append(f"     s_event_flatten := ({cstr_c(ef[0])}, {cstr_c(ef[1])});")
        o.append(f"     s_stream_id_body := {cstr_c(sch['stream_id_body'])};")
        o.append(f"     s_tag_key := {cstr_c(sch['tag_key'] or '')};")
        o.append("     s_supported := gen_schema_supported |}.")
    o.append("")
    o.append("(* the obligation: today's source satisfies the premise of every C03 theorem *)")
    o.append("Lemma gen_schema_wf : wf_schema gen_schema = true.")
    o.append("Proof. vm_compute. reflexivity. Qed.")
    o.append("")
    o.append("(* entry points of the correspondence case files (harness/src/bin/c03.rs) *)")
    o.append("Definition check_case : case -> bool := check_doc gen_schema.")
    o.append("Definition model_obs : case -> list N := doc_obs gen_schema.")
    o.append("")
    if sch is not None:
        nf = sum(len(v["fields"]) for v in sch["variants"])
        kinds = {}
        for v in sch["variants"]:
            kinds[v["kind"]] = kinds.get(v["kind"], 0) + 1
        o.append(f"(* {len(sch['variants'])} variants, {nf} fields; kinds: {json.dumps(kinds, sort_keys=True)} *)")
        o.append(f"Lemma gen_schema_size : length (s_variants gen_schema) = {len(sch['variants'])}%nat.")
        o.append("Proof. reflexivity. Qed.")
    return "\n".join(o) + "\n"


def main():
    ap = argparse.ArgumentParser()
    ap.add_argument("--repo", required=True)
    ap.add_argument("--out", required=True)
    a = ap.parse_args()
    try:
        sch, err = extract(a.repo)
    except Exception as e:  # never guess: an extractor crash is a failed obligation
        sch, err = None, f"extractor exception: {e!r}"
    os.makedirs(a.out, exist_ok=True)
    with open(os.path.join(a.out, "EventSchema.v"), "w") as f:
        f.write(emit_coq(sch, err))
    with open(os.path.join(a.out, "event_schema.json"), "w") as f:
        json.dump(sch if sch is not None else {"error": err}, f, indent=1, sort_keys=True)
        f.write("\n")
    if sch is None:
        print("event_schema: FAILED:", err)
        sys.exit(0)   # the generated obligation fails; the driver reports it
    nf = sum(len(v["fields"]) for v in sch["variants"])
    print(f"event_schema: {len(sch['variants'])} variants, {nf} fields, {len(sch['kind_arms'])} kind arms, "
          f"{len(sch['enums'])} enums, {len(sch['structs'])} helper structs, unsupported: {len(sch['unsupported'])}")
    for n in sch["unsupported"]:
        print("  unsupported:", n)


if __name__ == "__main__":
    main()
