#!/usr/bin/env python3
"""T1 extractor for C14 ("an automatic checkpoint is taken before EVERY file-editing tool runs"): name resolution.
ToolRunner::run decides the automatic checkpoint from the invocation NAME (files_for_invocation: a match on name
literals) and finds the handler through ToolRegistry::get, which resolves aliases.  Read from /repo's working tree:

  * r_tools    crates/rip-tools/src/builtins/mod.rs  register_builtin_tools: every `registry.register("<name>", ..)` with
               the handler `<module>::run_<x>(` called inside it, and the KIND of that handler, decided from the module's
               source (crates/rip-tools/src/builtins/<module>.rs, tests cut off):
                 2   it spawns a process (`Command::new(`)                                   - bash
                 11  `resolve_path(&config.workspace_root, &args.path)` + a mutating file-system call    - write
                 12  `workspace.apply_patch(&args.patch)` and no other mutating call          - apply_patch
                 99  any other module with a mutating call (fs::write / rename / remove_* / create_dir* / copy / hard_link /
                     set_permissions / OpenOptions / File::create / set_len / symlink / .apply_patch()
                 0   none of these (reads only)
  * r_aliases  every `registry.register_alias("<alias>", "<target>")` of the same function
  * r_arms     crates/rip-tools/src/runtime.rs  files_for_invocation: the arms of the match, per name literal (alternatives
               `"a" | "b"` give one entry each), with the arm's kind: 11 = the write arm (WriteArgs, the two guards,
               `Ok(Some(vec![path]))`), 12 = `Patch::parse(&args.patch)` .. `Ok(Some(patch.affected_paths()))`, 99 otherwise
  * r_resolved false: the match is on `invocation.name.as_str()` (the literal name of the invocation)
  * found      ToolRegistry::get has the shape "registered name, else one level of alias"; the match's scrutinee and its
               last arm `_ => Ok(None)` are recognised; every `registry.` statement of register_builtin_tools was
               understood; no other non-test source of rip-tools / ripd / rip-cli calls register_alias or registers a tool;
               ToolRunner::run looks the handler up with `self.registry.get(&invocation.name)` and
               emit_checkpoint_events calls `files_for_invocation(invocation)`

and writes coq/Gen/ToolNames.v with the obligation  gen_registry_ok : dispatch_wf gen_dispatch_found gen_registry = true
(Model/ToolDispatch.v: every name the registry resolves to an editing handler reaches that handler's checkpoint arm).
Pattern based, never guesses: what it does not recognise becomes 99 / false and the obligation fails.
Usage: toolnames.py --repo /repo --out coq/Gen"""
import re, sys, os, argparse, glob

sys.path.insert(0, os.path.dirname(os.path.abspath(__file__)))
import resolvers as R  # noqa: E402

MUT = re.compile(r"fs::(?:write|rename|remove_file|remove_dir|remove_dir_all|create_dir|create_dir_all|copy|hard_link|set_permissions)\(|OpenOptions|File::create|\.set_len\(|symlink\(|\.apply_patch\(")
STR = r'"((?:[^"\\]|\\.)*)"'


def paren_end(text, i):
    """text[i] == '(' -> index just past the matching ')' (string literals skipped)"""
    depth = 0
    j = i
    while j < len(text):
        c = text[j]
        if c == '"':
            j += 1
            while j < len(text) and text[j] != '"':
                j += 2 if text[j] == "\\" else 1
        elif c == "(":
            depth += 1
        elif c == ")":
            depth -= 1
            if depth == 0:
                return j + 1
        j += 1
    return len(text)


def split_arms(block):
    """arms of a match block (text between its braces): list of (pattern text, body text)"""
    arms = []
    i = 0
    n = len(block)
    while i < n:
        # pattern up to `=>` at depth 0
        j = i
        depth = 0
        while j < n:
            c = block[j]
            if c == '"':
                j += 1
                while j < n and block[j] != '"':
                    j += 2 if block[j] == "\\" else 1
            elif c in "([{":
                depth += 1
            elif c in ")]}":
                depth -= 1
            elif c == "=" and depth == 0 and block[j:j + 2] == "=>":
                break
            j += 1
        if j >= n:
            break
        pat = block[i:j].strip()
        k = j + 2
        while k < n and block[k].isspace():
            k += 1
        if k < n and block[k] == "{":
            e = R.block_at(block, k)
            body = block[k:e]
            while e < n and (block[e].isspace() or block[e] == ","):
                e += 1
        else:
            e = k
            depth = 0
            while e < n:
                c = block[e]
                if c == '"':
                    e += 1
                    while e < n and block[e] != '"':
                        e += 2 if block[e] == "\\" else 1
                elif c in "([{":
                    depth += 1
                elif c in ")]}":
                    depth -= 1
                elif c == "," and depth == 0:
                    break
                e += 1
            body = block[k:e]
            e += 1
        arms.append((pat, body))
        i = e
    return arms


def coq_name(s):
    return "[" + "; ".join(str(ord(c)) for c in s) + "]"


def main():
    ap = argparse.ArgumentParser()
    ap.add_argument("--repo", required=True)
    ap.add_argument("--out", required=True)
    a = ap.parse_args()

    def rd(p):
        try:
            return R.strip_comments(open(os.path.join(a.repo, p)).read())
        except OSError:
            return ""

    cut = lambda s: s.split("#[cfg(test)]")[0]
    builtins = cut(rd("crates/rip-tools/src/builtins/mod.rs"))
    runtime = cut(rd("crates/rip-tools/src/runtime.rs"))
    found = True
    why = []

    def fail(msg):
        nonlocal found
        found = False
        why.append(msg)

    # --- the handler table and the aliases
    tools, aliases = [], []
    body = R.fn_body(builtins, "register_builtin_tools")
    if body is None:
        fail("register_builtin_tools not found")
        body = ""
    understood = 0
    for m in re.finditer(r"\bregistry\s*\.\s*register\s*\(", body):
        e = paren_end(body, m.end() - 1)
        call = body[m.end():e - 1]
        nm = re.match(r"\s*" + STR + r"\s*,", call)
        if not nm:
            fail("register: the name is not a string literal")
            continue
        hs = set(re.findall(r"\b(\w+)::(run_\w+)\s*\(", call))
        kind = 99
        if len(hs) == 1:
            mod, fn = next(iter(hs))
            src = cut(rd(f"crates/rip-tools/src/builtins/{mod}.rs"))
            fb = R.fn_body(src, fn)
            if fb is not None:
                sq = R.squash(src)
                fsq = R.squash(fb)
                # `workspace.apply_patch(&args.patch)` is the one mutating call of the apply_patch handler
                others = MUT.sub(lambda x: "" if x.group(0) == ".apply_patch(" else x.group(0), sq)
                if "Command::new(" in sq:
                    kind = 2
                elif "workspace.apply_patch(&args.patch)" in fsq and sq.count(".apply_patch(") == 1 and not MUT.search(others):
                    kind = 12
                elif MUT.search(sq):
                    kind = 11 if ("resolve_path(&config.workspace_root,&args.path)" in fsq and ".apply_patch(" not in sq) else 99
                else:
                    kind = 0
        tools.append((nm.group(1), kind))
        understood += 1
    for m in re.finditer(r"\bregistry\s*\.\s*register_alias\s*\(\s*" + STR + r"\s*,\s*" + STR + r"\s*\)", body):
        aliases.append((m.group(1), m.group(2)))
        understood += 1
    if len(re.findall(r"\bregistry\s*\.", body)) != understood:
        fail("register_builtin_tools: a `registry.` statement was not understood")
    if re.search(r"\b(?:for|while|loop)\b", body):
        fail("register_builtin_tools: a loop")

    # --- no other registration site in the server's sources (tests cut off; rip-bench is a benchmark binary)
    for crate in ("rip-tools", "ripd", "rip-cli", "rip-kernel", "rip-workspace"):
        for p in sorted(glob.glob(os.path.join(a.repo, "crates", crate, "src", "**", "*.rs"), recursive=True)):
            rel = os.path.relpath(p, a.repo)
            if os.path.basename(p) in ("tests.rs",) or "/tests/" in rel:
                continue
            src = cut(rd(rel))
            if rel == "crates/rip-tools/src/builtins/mod.rs":
                b0 = R.fn_body(src, "register_builtin_tools") or ""
                src = src.replace(b0, "")
            if rel == "crates/rip-tools/src/runtime.rs":
                src = re.sub(r"pub\s+fn\s+register_alias\s*\(", "", src)
                src = re.sub(r"pub\s+fn\s+register\s*\(", "", src)
            if re.search(r"\bregister_alias\s*\(", src):
                fail(f"{rel}: another register_alias site")
            if re.search(r"\b\w*registry\w*\s*\.\s*register\s*\(", src) and "ToolRegistry" in src:
                fail(f"{rel}: another tool registration site")

    # --- ToolRegistry::get: a registered name first, then one level of alias
    get = R.fn_body(runtime, "get")
    want_get = ('lettools=self.tools.lock().expect("toolregistrymutex");ifletSome(handler)=tools.get(name){returnSome(handler.clone());}'
                'drop(tools);letaliases=self.aliases.lock().expect("toolaliasmutex");lettarget=aliases.get(name)?.clone();drop(aliases);'
                'lettools=self.tools.lock().expect("toolregistrymutex");tools.get(&target).cloned()')
    if get is None or R.squash(get) != want_get:
        fail("ToolRegistry::get has another shape")
    for fn, want in (("register", "letmuttools=self.tools.lock().expect(\"toolregistrymutex\");tools.insert(name.into(),handler);"),
                     ("register_alias", "letmutaliases=self.aliases.lock().expect(\"toolaliasmutex\");aliases.insert(alias.into(),target.into());")):
        b = R.fn_body(runtime, fn)
        if b is None or R.squash(b) != want:
            fail(f"ToolRegistry::{fn} has another shape")
    run = R.fn_body(runtime, "run")
    if run is None or "self.registry.get(&invocation.name)" not in R.squash(run) or R.squash(run).count("self.registry.") != 1:
        fail("ToolRunner::run: handler lookup")
    ece = R.fn_body(runtime, "emit_checkpoint_events")
    if ece is None or "matchfiles_for_invocation(invocation){" not in R.squash(ece):
        fail("emit_checkpoint_events: files_for_invocation(invocation)")

    # --- the arms of files_for_invocation
    arms = []
    resolved = False
    ffi = R.fn_body(runtime, "files_for_invocation")
    if ffi is None:
        fail("files_for_invocation not found")
    else:
        m = re.match(r"\s*match\s+(.*?)\s*\{", ffi, re.S)
        if not m or R.squash(m.group(1)) != "invocation.name.as_str()":
            fail("files_for_invocation: the scrutinee is not invocation.name.as_str()")
        if m:
            start = m.end() - 1
            end = R.block_at(ffi, start)
            if ffi[end:].strip():
                fail("files_for_invocation: code after the match")
            parsed = split_arms(ffi[start + 1:end - 1])
            if not parsed or R.squash(parsed[-1][0]) != "_" or R.squash(parsed[-1][1]) != "Ok(None)":
                fail("files_for_invocation: the last arm is not `_ => Ok(None)`")
            for pat, abody in parsed[:-1] if parsed else []:
                lits = re.fullmatch(r"\s*" + STR + r"(?:\s*\|\s*" + STR + r")*\s*", pat)
                if not lits:
                    fail(f"files_for_invocation: arm pattern `{pat.strip()}` is not a list of name literals")
                    continue
                names = re.findall(STR, pat)
                sq = R.squash(abody)
                kind = 99
                if ("letargs:WriteArgs=serde_json::from_value(invocation.args.clone())" in sq and sq.endswith("Ok(Some(vec![path]))}")
                        and "letpath=PathBuf::from(" in sq):
                    kind = 11
                elif ("letargs:ApplyPatchArgs=serde_json::from_value(invocation.args.clone())" in sq
                      and "letpatch=rip_workspace::Patch::parse(&args.patch)" in sq and sq.endswith("Ok(Some(patch.affected_paths()))}")):
                    kind = 12
                for nme in names:
                    arms.append((nme, kind))

    pairs_n = lambda l: "[" + "; ".join(f"({coq_name(n)}, {k})" for n, k in l) + "]"
    pairs_s = lambda l: "[" + "; ".join(f"({coq_name(x)}, {coq_name(y)})" for x, y in l) + "]"
    out = []
    out.append("(* GENERATED by tools/gen/toolnames.py from /repo's working tree — do not edit.")
    out.append("   The names ToolRegistry::get resolves (register_builtin_tools: name -> handler kind; aliases) and the names")
    out.append("   files_for_invocation takes an automatic checkpoint for (see the extractor's header).")
    out.append("   tools:   " + ", ".join(f"{n} -> {k}" for n, k in tools))
    out.append("   aliases: " + ", ".join(f"{x} -> {y}" for x, y in aliases))
    out.append("   arms:    " + ", ".join(f"{n} -> {k}" for n, k in arms) + " *)")
    out.append("From RipV Require Import Base.Prelude Model.ToolDispatch.")
    out.append(f"Definition gen_dispatch_found : bool := {'true' if found else 'false'}.")
    out.append("Definition gen_registry : registry :=")
    out.append(f"  {{| r_tools := {pairs_n(tools)};")
    out.append(f"     r_aliases := {pairs_s(aliases)};")
    out.append(f"     r_arms := {pairs_n(arms)};")
    out.append(f"     r_resolved := {'true' if resolved else 'false'} |}}.")
    out.append("Lemma gen_registry_ok : dispatch_wf gen_dispatch_found gen_registry = true.")
    out.append("Proof. vm_compute. reflexivity. Qed.")
    os.makedirs(a.out, exist_ok=True)
    with open(os.path.join(a.out, "ToolNames.v"), "w") as f:
        f.write("\n".join(out) + "\n")
    print("tools:", tools)
    print("aliases:", aliases)
    print("arms:", arms, "found:", found, why)


if __name__ == "__main__":
    main()
