#!/usr/bin/env python3
"""T1 extractor for C17: the waiter skeleton of `run_pipes_task` (crates/ripd/src/tasks/pipes.rs).

"Pumps joined before the terminal status is emitted" is the mechanism C17's lifecycle clause rests on
(nothing follows the terminal frame; the terminal summary's byte counts are those of the stored log).
This script reads, from the body of `run_pipes_task` (comments and string literals blanked), in source order:

  WEmitRunning      `emitter.emit(EventKind::ToolTaskStatus { .. status: ToolTaskStatus::Running .. }).await`
  WSpawnPump i      `let <h> = tokio::spawn( .. pump_output_stream( .. ToolTaskStream::Stdout|Stderr .. ) .. )`
                    as a statement of the function body (i = 0 stdout, 1 stderr)
  WSelect           `tokio::select! { .. child.wait() .. cancel_rx.changed() .. ToolTaskCancelRequested .. }`
  WJoin i k         the first use of <h> after its spawn.  k = JAwait iff <h> is used exactly once and that use
                    is `<h>.await` at nesting depth 0 of the function body (a statement of its own: not inside
                    timeout(..), select!, a helper call, a closure, an `if`).  Every other use (handed to a
                    function, wrapped, aborted, dropped, awaited conditionally) is JBounded: the waiter can get
                    past it while the pump still runs (dropping a JoinHandle only detaches the task).
  WEmitCancelled    `emitter.emit(EventKind::ToolTaskCancelled { .. }).await`
  WEmitFinal        `emitter.emit(EventKind::ToolTaskStatus { .. status .. }).await` with a non-literal status,
                    as a statement of the function body

and writes coq/Gen/PumpJoin.v: `gen_pipes_waiter : list wop` + the obligations `gen_pump_join_found`
(every construct was found exactly once, the emits are awaited, no `return` between the select and the terminal
emit) and `gen_pump_join_ok : skel_wf gen_pipes_waiter = true`.  The lifecycle theorems are proved for every
skeleton satisfying skel_wf (Proofs/TaskLifecycleProofs.v); a construct that is not found makes
`gen_ok_pump_join` false - nothing is guessed.
"""
import argparse, os, re, sys


def sanitize(src):
    """blank comments, string and char literals (positions and newlines kept)"""
    out = list(src)
    i, n = 0, len(src)

    def blank(a, b):
        for k in range(a, b):
            if out[k] != "\n":
                out[k] = " "

    while i < n:
        c = src[i]
        two = src[i:i + 2]
        if two == "//":
            j = src.find("\n", i)
            j = n if j < 0 else j
            blank(i, j)
            i = j
        elif two == "/*":
            depth, j = 1, i + 2
            while j < n and depth > 0:
                if src[j:j + 2] == "/*":
                    depth += 1
                    j += 2
                elif src[j:j + 2] == "*/":
                    depth -= 1
                    j += 2
                else:
                    j += 1
            blank(i, j)
            i = j
        elif c == "r" and re.match(r'r#*"', src[i:i + 8]) and (i == 0 or not (src[i - 1].isalnum() or src[i - 1] == "_")):
            m = re.match(r'r(#*)"', src[i:])
            close = '"' + m.group(1)
            j = src.find(close, i + len(m.group(0)))
            j = n if j < 0 else j + len(close)
            blank(i + len(m.group(0)), j - len(close))
            i = j
        elif c == '"':
            j = i + 1
            while j < n and src[j] != '"':
                j += 2 if src[j] == "\\" else 1
            blank(i + 1, j)
            i = j + 1
        elif c == "'":
            m = re.match(r"'(\\.[^']*|[^'\\])'", src[i:])
            if m:
                blank(i + 1, i + len(m.group(0)) - 1)
                i += len(m.group(0))
            else:
                i += 1  # a lifetime
        else:
            i += 1
    return "".join(out)


def match_close(s, open_pos):
    """index just after the bracket matching s[open_pos]"""
    pairs = {"(": ")", "{": "}", "[": "]"}
    depth, j = 0, open_pos
    while j < len(s):
        ch = s[j]
        if ch in pairs:
            depth += 1
        elif ch in pairs.values():
            depth -= 1
            if depth == 0:
                return j + 1
        j += 1
    return len(s)


def depths(body):
    d, out = 0, []
    for ch in body:
        if ch in ")}]":
            d -= 1
        out.append(d)
        if ch in "({[":
            d += 1
    return out


def extract(repo):
    notes, ops = [], []
    ok = True

    def miss(msg):
        nonlocal ok
        ok = False
        notes.append("NOT FOUND / UNEXPECTED: " + msg)

    p = os.path.join(repo, "crates", "ripd", "src", "tasks", "pipes.rs")
    if not os.path.exists(p):
        return False, [], ["crates/ripd/src/tasks/pipes.rs not found"]
    src = sanitize(open(p).read())
    m = re.search(r"async\s+fn\s+run_pipes_task\s*\(", src)
    if not m:
        return False, [], ["async fn run_pipes_task not found"]
    sig_end = match_close(src, m.end() - 1)
    b0 = src.find("{", sig_end)
    if b0 < 0:
        return False, [], ["body of run_pipes_task not found"]
    b1 = match_close(src, b0)
    body = src[b0 + 1:b1 - 1]
    dep = depths(body)

    def awaited(call_open):
        """the call whose '(' is at call_open is followed by .await"""
        e = match_close(body, call_open)
        return re.match(r"\s*\.\s*await\b", body[e:]) is not None, e

    # --- status emits
    running, final = [], []
    for mm in re.finditer(r"emitter\s*\.\s*emit\s*\(\s*EventKind::ToolTaskStatus\s*\{", body):
        call_open = body.find("(", mm.start())
        aw, end = awaited(call_open)
        fields = body[mm.end():match_close(body, mm.end() - 1) - 1]
        if re.search(r"\bstatus\s*:\s*ToolTaskStatus::Running\b", fields):
            running.append((mm.start(), aw, dep[mm.start()]))
        elif re.search(r"\bstatus\s*:\s*ToolTaskStatus::\w+", fields):
            miss("a ToolTaskStatus emit with a literal status other than Running")
        elif re.search(r"\bstatus\b", fields):
            final.append((mm.start(), aw, dep[mm.start()], end))
        else:
            miss("a ToolTaskStatus emit without a status field")
    if len(running) != 1 or not running[0][1] or running[0][2] != 0:
        miss(f"exactly one awaited body-level emit of ToolTaskStatus Running (found {running})")
    else:
        ops.append((running[0][0], "WEmitRunning"))
    if len(final) != 1 or not final[0][1] or final[0][2] != 0:
        miss(f"exactly one awaited body-level emit of the terminal ToolTaskStatus (found {final})")
    else:
        ops.append((final[0][0], "WEmitFinal"))
    final_pos = final[0][0] if len(final) == 1 else len(body)

    # --- pump spawns
    handles = {}
    for mm in re.finditer(r"\blet\s+(?:mut\s+)?(\w+)\s*=\s*tokio::spawn\s*\(", body):
        if dep[mm.start()] != 0:
            continue
        e = match_close(body, mm.end() - 1)
        inner = body[mm.end():e]
        if "pump_output_stream" not in inner:
            continue
        kinds = set(re.findall(r"ToolTaskStream::(Stdout|Stderr)\b", inner))
        if len(kinds) != 1:
            miss(f"pump spawn `{mm.group(1)}` names streams {sorted(kinds)}")
            continue
        i = 0 if kinds == {"Stdout"} else 1
        if i in handles:
            miss(f"two pumps for stream {i}")
            continue
        handles[i] = (mm.group(1), mm.start(), e)
        ops.append((mm.start(), f"WSpawnPump {i}"))
        notes.append(f"pump {i}: handle `{mm.group(1)}`")
    for i in (0, 1):
        if i not in handles:
            miss(f"`let h = tokio::spawn(.. pump_output_stream(.. {'Stdout' if i == 0 else 'Stderr'} ..))` as a body-level statement")

    # --- select
    sels = [mm for mm in re.finditer(r"\btokio::select!\s*\{", body) if dep[mm.start()] == 0]
    sel_end = 0
    if len(sels) != 1:
        miss(f"exactly one body-level tokio::select! (found {len(sels)})")
    else:
        e = match_close(body, sels[0].end() - 1)
        inner = body[sels[0].end():e]
        for need in (r"child\s*\.\s*wait\s*\(\s*\)", r"cancel_rx\s*\.\s*changed\s*\(\s*\)", r"EventKind::ToolTaskCancelRequested"):
            if not re.search(need, inner):
                miss(f"select! without {need}")
        ops.append((sels[0].start(), "WSelect"))
        sel_end = e

    # --- joins: the uses of each pump handle after its spawn
    for i, (h, _, spawn_end) in sorted(handles.items()):
        uses = [mm.start() for mm in re.finditer(r"\b" + re.escape(h) + r"\b", body) if mm.start() >= spawn_end]
        if not uses:
            notes.append(f"pump {i}: handle `{h}` is never used after its spawn (the pump is detached)")
            continue
        first = uses[0]
        plain = re.match(re.escape(h) + r"\s*\.\s*await\b", body[first:]) is not None and dep[first] == 0
        if plain and len(uses) == 1:
            kind = "JAwait"
        else:
            kind = "JBounded"
            ctx = " ".join(body[max(0, first - 60):first + 40].split())
            notes.append(f"pump {i}: handle `{h}` is not awaited plainly at body level ({len(uses)} use(s); first: ...{ctx}...)")
        ops.append((first, f"WJoin {i} {kind}"))

    # --- cancelled emit
    canc = []
    for mm in re.finditer(r"\.\s*emit\s*\(\s*EventKind::ToolTaskCancelled\s*\{", body):
        aw, _ = awaited(body.find("(", mm.start()))
        canc.append((mm.start(), aw))
    if len(canc) != 1 or not canc[0][1]:
        miss(f"exactly one awaited emit of ToolTaskCancelled (found {canc})")
    else:
        ops.append((canc[0][0], "WEmitCancelled"))

    # --- no way around the terminal emit once the process has been waited for
    if re.search(r"\breturn\b|\bbreak\b|\?\s*;", body[sel_end:final_pos]):
        miss("a return / break / `?` between the select and the terminal emit")

    ops.sort()
    return ok, [o for _, o in ops], notes


def extract_shell(repo):
    """run_command (rip-tools shell.rs): the two capture_stream futures and child.wait() are driven together
    by one body-level tokio::join! - the tool's output is built from captures that ran to EOF"""
    facts = {"captures_and_wait_found": False, "joined_unconditionally": False, "no_bound_or_detach": False}
    notes = []
    p = os.path.join(repo, "crates", "rip-tools", "src", "builtins", "shell.rs")
    if not os.path.exists(p):
        return facts, ["crates/rip-tools/src/builtins/shell.rs not found"]
    src = sanitize(open(p).read())
    m = re.search(r"async\s+fn\s+run_command\s*\(", src)
    if not m:
        return facts, ["async fn run_command not found"]
    sig_end = match_close(src, m.end() - 1)
    b0 = src.find("{", sig_end)
    body = src[b0 + 1:match_close(src, b0) - 1]
    dep = depths(body)
    names = {}
    for mm in re.finditer(r"\blet\s+(?:mut\s+)?(\w+)\s*=\s*capture_stream\s*\(\s*(stdout|stderr)\b", body):
        if dep[mm.start()] == 0:
            names[mm.group(2)] = mm.group(1)
    mw = [mm for mm in re.finditer(r"\blet\s+(?:mut\s+)?(\w+)\s*=\s*child\s*\.\s*wait\s*\(\s*\)\s*;", body) if dep[mm.start()] == 0]
    if len(mw) == 1:
        names["wait"] = mw[0].group(1)
    facts["captures_and_wait_found"] = set(names) == {"stdout", "stderr", "wait"}
    notes.append(f"run_command: futures {names}")
    if facts["captures_and_wait_found"]:
        joins = [mm for mm in re.finditer(r"\blet\s*\([^)]*\)\s*=\s*tokio::join!\s*\(([^)]*)\)\s*;", body) if dep[mm.start()] == 0]
        if len(joins) == 1:
            args = [a.strip() for a in joins[0].group(1).split(",") if a.strip()]
            facts["joined_unconditionally"] = sorted(args) == sorted(names.values())
            notes.append(f"run_command: tokio::join!({', '.join(args)})")
            uses = {n: len(re.findall(r"\b" + re.escape(n) + r"\b", body)) for n in names.values()}
            if any(v != 2 for v in uses.values()):      # the `let` and the join!
                facts["joined_unconditionally"] = False
                notes.append(f"run_command: a joined future is used elsewhere: {uses}")
        else:
            notes.append(f"run_command: {len(joins)} body-level `let (..) = tokio::join!(..)`")
    bad = re.findall(r"\btimeout\s*\(|\bselect!|\.\s*abort\s*\(|\btokio::spawn\b|\bsleep\s*\(", body)
    facts["no_bound_or_detach"] = not bad
    if bad:
        notes.append(f"run_command uses {sorted(set(b.strip() for b in bad))}")
    return facts, notes


def extract_pty(repo):
    """run_pty_task (pty.rs): the waiter itself turns the reader thread's chunks into delta frames, so "nothing
    after the terminal frame" is program order - provided the loop runs until the reader's channel is closed,
    every emit_output/drain_output call sits before the terminal emit, and nothing that can emit is spawned."""
    facts = {"loop_until_exit_and_output_closed": False, "output_closed_only_on_channel_end": False,
             "reader_thread_awaited_plainly": False, "all_output_emits_before_terminal": False,
             "no_spawned_emitter": False}
    notes = []
    p = os.path.join(repo, "crates", "ripd", "src", "tasks", "pty.rs")
    if not os.path.exists(p):
        return facts, ["crates/ripd/src/tasks/pty.rs not found"]
    src = sanitize(open(p).read())
    m = re.search(r"async\s+fn\s+run_pty_task\s*\(", src)
    if not m:
        return facts, ["async fn run_pty_task not found"]
    sig_end = match_close(src, m.end() - 1)
    b0 = src.find("{", sig_end)
    body = src[b0 + 1:match_close(src, b0) - 1]
    dep = depths(body)
    # the terminal emit
    finals = []
    for mm in re.finditer(r"emitter\s*\.\s*emit\s*\(\s*EventKind::ToolTaskStatus\s*\{", body):
        fields = body[mm.end():match_close(body, mm.end() - 1) - 1]
        if not re.search(r"\bstatus\s*:\s*ToolTaskStatus::\w+", fields) and re.search(r"\bstatus\b", fields):
            finals.append(mm.start())
    if len(finals) != 1 or dep[finals[0]] != 0:
        return facts, [f"run_pty_task: terminal emit not found as one body-level statement ({finals})"]
    final = finals[0]
    # the loop
    loops = [mm for mm in re.finditer(r"\bwhile\s+!\s*\(\s*exit_status\s*\.\s*is_some\s*\(\s*\)\s*&&\s*output_closed\s*\)\s*\{", body) if dep[mm.start()] == 0]
    others = [mm for mm in re.finditer(r"\b(while|loop|for)\b", body)
              if dep[mm.start()] == 0 and loops and loops[0].start() <= mm.start() < final]
    if len(loops) == 1 and len(others) == 1 and loops[0].start() < final:
        loop_end = match_close(body, loops[0].end() - 1)
        lbody = body[loops[0].end():loop_end]
        facts["loop_until_exit_and_output_closed"] = loop_end < final and not re.search(r"\bbreak\b|\breturn\b", lbody)
        sets = [mm.start() for mm in re.finditer(r"\boutput_closed\s*=\s*true\b", body)]
        arm = re.search(r"output_rx\s*\.\s*recv\s*\(\s*\)[^{]*=>\s*\{\s*match\s+(\w+)\s*\{", lbody)
        ok_set = False
        if len(sets) == 1 and arm:
            ok_set = re.search(r"\bNone\s*=>\s*output_closed\s*=\s*true\b", lbody[arm.end():match_close(lbody, arm.end() - 1)]) is not None
        facts["output_closed_only_on_channel_end"] = ok_set
        # the reader thread's handle
        hs = [mm.group(1) for mm in re.finditer(r"\blet\s+(?:mut\s+)?(\w+)\s*=\s*tokio::task::spawn_blocking\s*\(", body)
              if dep[mm.start()] == 0 and "output_tx" in body[mm.end():match_close(body, mm.end() - 1)]]
        if len(hs) == 1:
            h = hs[0]
            uses = [mm.start() for mm in re.finditer(r"\b" + re.escape(h) + r"\b", body)][1:]
            facts["reader_thread_awaited_plainly"] = (len(uses) == 1 and dep[uses[0]] == 0 and loop_end < uses[0] < final
                                                     and re.match(re.escape(h) + r"\s*\.\s*await\b", body[uses[0]:]) is not None)
            notes.append(f"run_pty_task: reader thread handle `{h}`, {len(uses)} use(s)")
        calls = [mm.start() for mm in re.finditer(r"\b(?:emit_output|drain_output|handle_control)\s*\(", body)]
        facts["all_output_emits_before_terminal"] = bool(calls) and all(loops[0].end() < c < loop_end for c in calls)
    else:
        notes.append(f"run_pty_task: {len(loops)} `while !(exit_status.is_some() && output_closed)` loop(s), {len(others)} body-level loop(s)")
    # nothing spawned may emit: the closures handed to spawn / spawn_blocking do not mention the emitter
    bad = []
    for mm in re.finditer(r"\b(?:tokio::spawn|spawn_blocking)\s*\(", body):
        inner = body[mm.end():match_close(body, mm.end() - 1)]
        if re.search(r"\bemitter\b|\bemit_output\b|\bdrain_output\b", inner):
            bad.append(" ".join(inner.split())[:60])
    facts["no_spawned_emitter"] = not bad
    if bad:
        notes.append(f"run_pty_task: spawned code mentions the emitter: {bad}")
    return facts, notes


def extract_pty_slave(repo):
    """run_pty_task keeps no descriptor of the slave side while it waits: `<pair>.slave` is mentioned exactly twice in
    the function - by `<pair>.slave.spawn_command(..)` and, after it and before the wait loop, by a body-level
    `drop(<pair>.slave)` statement - and `<pair>` itself is only ever used through `.slave` / `.master` (not moved,
    not forgotten).  While the authority holds the slave the master never reports end of output (35c2d72)."""
    facts = {"slave_spawn_found": False, "slave_dropped_between_spawn_and_wait_loop": False, "slave_not_used_otherwise": False}
    notes = []
    p = os.path.join(repo, "crates", "ripd", "src", "tasks", "pty.rs")
    if not os.path.exists(p):
        return facts, ["crates/ripd/src/tasks/pty.rs not found"]
    src = sanitize(open(p).read())
    m = re.search(r"async\s+fn\s+run_pty_task\s*\(", src)
    if not m:
        return facts, ["async fn run_pty_task not found"]
    sig_end = match_close(src, m.end() - 1)
    b0 = src.find("{", sig_end)
    body = src[b0 + 1:match_close(src, b0) - 1]
    dep = depths(body)
    lets = [mm for mm in re.finditer(r"\blet\s+(?:mut\s+)?(\w+)\s*=\s*match\s+\w+\s*\.\s*openpty\s*\(", body) if dep[mm.start()] == 0]
    pairs = [mm.group(1) for mm in lets]
    if len(pairs) != 1:
        return facts, [f"run_pty_task: {len(pairs)} body-level `let <pair> = match <system>.openpty(..)` statement(s)"]
    pair = re.escape(pairs[0])
    spawns = [mm.start() for mm in re.finditer(r"\b" + pair + r"\s*\.\s*slave\s*\.\s*spawn_command\s*\(", body)]
    loops = [mm.start() for mm in re.finditer(r"\bwhile\s+!\s*\(", body) if dep[mm.start()] == 0]
    slave_uses = [mm.start() for mm in re.finditer(r"\b" + pair + r"\s*\.\s*slave\b", body)]
    drops = [mm.start() for mm in re.finditer(r"\bdrop\s*\(\s*" + pair + r"\s*\.\s*slave\s*\)\s*;", body) if dep[mm.start()] == 0]
    # the end of the `let <pair> = match .. { .. };` statement (the arms re-bind the name)
    arms = body.find("{", match_close(body, lets[0].end() - 1))
    let_end = match_close(body, arms)
    bare = [mm.start() for mm in re.finditer(r"\b" + pair + r"\b(?!\s*\.\s*(?:slave|master)\b)", body) if mm.start() > let_end]
    forget = re.search(r"\bforget\s*\(|\bManuallyDrop\b|\bleak\s*\(", body) is not None
    notes.append(f"run_pty_task: pty pair `{pairs[0]}`: {len(spawns)} spawn_command, {len(slave_uses)} mention(s) of .slave, {len(drops)} body-level drop(.slave), {len(loops)} body-level wait loop(s), {len(bare)} other use(s) of the pair")
    facts["slave_spawn_found"] = len(spawns) == 1 and dep[spawns[0]] == 0 and len(loops) == 1 and spawns[0] < loops[0]
    if facts["slave_spawn_found"]:
        facts["slave_dropped_between_spawn_and_wait_loop"] = len(drops) == 1 and spawns[0] < drops[0] < loops[0]
        facts["slave_not_used_otherwise"] = len(slave_uses) == 2 and not bare and not forget
    return facts, notes


def main():
    ap = argparse.ArgumentParser()
    ap.add_argument("--repo", required=True)
    ap.add_argument("--out", required=True)
    a = ap.parse_args()
    ok, ops, notes = extract(a.repo)
    sfacts, snotes = extract_shell(a.repo)
    pfacts, pnotes = extract_pty(a.repo)
    vfacts, vnotes = extract_pty_slave(a.repo)
    lines = [
        "(* GENERATED by tools/gen/pump_join.py from crates/ripd/src/tasks/pipes.rs (run_pipes_task) on every ./check run",
        "   -- do not edit.  A committed copy serves as seed only.  The waiter's steps in source order (C17, T1). *)",
        "From RipV Require Import Base.Prelude Model.TaskLifecycle.",
        "",
        f"Definition gen_ok_pump_join : bool := {'true' if ok else 'false'}.",
        "",
    ]
    for n in notes:
        lines.append("(* " + n.replace("(*", "( *").replace("*)", "* )") + " *)")
    lines.append("Definition gen_pipes_waiter : list wop :=")
    lines.append("  [" + "; ".join(ops) + "].")
    lines.append("")
    lines.append("Lemma gen_pump_join_found : gen_ok_pump_join = true.")
    lines.append("Proof. vm_compute. reflexivity. Qed.")
    lines.append("Lemma gen_pump_join_ok : skel_wf gen_pipes_waiter = true.")
    lines.append("Proof. vm_compute. reflexivity. Qed.")
    lines.append("")
    lines.append("(* the foreground shell tool (rip-tools shell.rs run_command): both capture_stream futures and child.wait()")
    lines.append("   are driven by ONE body-level tokio::join! - the captures the tool reports ran to EOF, which is the")
    lines.append("   `chunks` = everything written premise of c17_stored_is_prefix_capture *)")
    for n in snotes:
        lines.append("(* " + n.replace("(*", "( *").replace("*)", "* )") + " *)")
    for k, v in sfacts.items():
        lines.append(f"Definition gen_shell_{k} : bool := {'true' if v else 'false'}.")
    lines.append("Definition gen_shell_captures_joined : bool :=\n  " + " && ".join(f"gen_shell_{k}" for k in sfacts) + ".")
    lines.append("Lemma gen_shell_join_ok : gen_shell_captures_joined = true.")
    lines.append("Proof. vm_compute. reflexivity. Qed.")
    lines.append("")
    lines.append("(* the PTY task (pty.rs run_pty_task): the waiter itself emits the delta frames;")
    lines.append("   its loop runs until the process has been waited for AND the reader thread's channel is closed, every")
    lines.append("   output emit sits inside that loop, the reader thread is awaited plainly before the terminal emit and no")
    lines.append("   spawned code can emit - nothing can follow the terminal frame by program order *)")
    for n in pnotes:
        lines.append("(* " + n.replace("(*", "( *").replace("*)", "* )") + " *)")
    for k, v in pfacts.items():
        lines.append(f"Definition gen_pty_{k} : bool := {'true' if v else 'false'}.")
    lines.append("Definition gen_pty_waiter_drains_before_terminal : bool :=\n  " + " && ".join(f"gen_pty_{k}" for k in pfacts) + ".")
    lines.append("Lemma gen_pty_waiter_ok : gen_pty_waiter_drains_before_terminal = true.")
    lines.append("Proof. vm_compute. reflexivity. Qed.")
    lines.append("")
    lines.append("(* the PTY task ENDS: the authority's own descriptor of the slave side is dropped between the spawn and the wait")
    lines.append("   loop (while it is open the master never reports end of output: /repo 35c2d72).  `gen_pty_keeps_slave` is the")
    lines.append("   parameter of the PTY waiter model (Model/TaskLifecycle.v pstep); c17_pty_task_can_always_end_code is stated for it *)")
    for n in vnotes:
        lines.append("(* " + n.replace("(*", "( *").replace("*)", "* )") + " *)")
    for k, v in vfacts.items():
        lines.append(f"Definition gen_pty_{k} : bool := {'true' if v else 'false'}.")
    lines.append("Definition gen_pty_keeps_slave : bool :=\n  negb (" + " && ".join(f"gen_pty_{k}" for k in vfacts) + ").")
    lines.append("Lemma gen_pty_slave_ok : gen_pty_keeps_slave = false.")
    lines.append("Proof. vm_compute. reflexivity. Qed.")
    os.makedirs(a.out, exist_ok=True)
    open(os.path.join(a.out, "PumpJoin.v"), "w").write("\n".join(lines) + "\n")
    for n in notes + snotes + pnotes + vnotes:
        print(n)
    print("ok:", ok, "waiter:", ops, "shell:", sfacts, "pty:", pfacts, "pty slave:", vfacts)
    return 0


if __name__ == "__main__":
    sys.exit(main())
