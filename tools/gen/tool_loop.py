#!/usr/bin/env python3
"""T1 extractor for C16: the constants and the step order of the OpenResponses tool loop.

Reads
  crates/ripd/src/provider_openresponses.rs : DEFAULT_MAX_TOOL_CALLS
  crates/ripd/src/session.rs                : run_openresponses_agent_loop — the bound is checked at the top of the
      loop and before every call, the counter is bumped once per call before the tool_choice test, the enforcement
      is built from config.tool_choice, `allows_function` guards both `tool_runner.run` sites, the stateless
      follow-up keeps the follow-up message in the history (fix S16); ToolCallCollector::observe completes a
      call id once (fix S19); stream_openresponses_request — the `payload.errors()` gate returns
      "invalid_request" before the only `request.send()`.
Emits coq/Gen/ToolLoopGen.v: gen_max_tool_calls : N, gen_ok_tool_loop : bool, gen_fixed : bool and the obligation
gen_tool_loop_ok (the model's MAX_TOOL_CALLS and FIXED are the generated values and every construct was found).
A construct that is not found sets gen_ok_tool_loop := false (never guess)."""
import argparse, os, re, sys


def strip_comments(s):
    s = re.sub(r"//[^\n]*", "", s)
    return re.sub(r"/\*.*?\*/", "", s, flags=re.S)


def between(src, start, end):
    i = src.find(start)
    if i < 0:
        return None
    j = src.find(end, i)
    return src[i:j] if j > i else None


def main():
    ap = argparse.ArgumentParser()
    ap.add_argument("--repo", required=True)
    ap.add_argument("--out", required=True)
    a = ap.parse_args()
    notes, ok = [], True

    def need(cond, what):
        nonlocal ok
        if not cond:
            ok = False
            notes.append(what)

    def rd(rel):
        try:
            return strip_comments(open(os.path.join(a.repo, rel)).read())
        except OSError as e:
            notes.append("cannot read %s: %s" % (rel, e))
            return ""

    po = rd("crates/ripd/src/provider_openresponses.rs")
    se = rd("crates/ripd/src/session.rs")
    m = re.search(r"pub\s+const\s+DEFAULT_MAX_TOOL_CALLS\s*:\s*u64\s*=\s*([0-9_]+)\s*;", po)
    mx = int(m.group(1).replace("_", "")) if m else None
    need(mx is not None, "DEFAULT_MAX_TOOL_CALLS not found")

    loop = between(se, "async fn run_openresponses_agent_loop(", "\nstruct OpenResponsesStreamRequest")
    need(loop is not None, "run_openresponses_agent_loop not found")
    loop = loop or ""
    need(len(re.findall(r"if\s+tool_call_count\s*>=\s*DEFAULT_MAX_TOOL_CALLS", loop)) == 2,
         "expected the bound test `tool_call_count >= DEFAULT_MAX_TOOL_CALLS` twice (loop top, before each call)")
    need(len(re.findall(r"tool_call_count\s*\+=\s*1", loop)) == 1, "expected exactly one `tool_call_count += 1`")
    need(re.search(r"ToolChoiceEnforcement::from_tool_choice\s*\(\s*&config\.tool_choice\s*\)", loop) is not None,
         "enforcement is not built from config.tool_choice")
    i_loop = loop.find("loop {")
    i_top = loop.find("tool_call_count >= DEFAULT_MAX_TOOL_CALLS")
    i_build = loop.find("build_streaming_followup_request")
    need(0 <= i_loop < i_top < i_build, "the bound is not tested at the top of the loop before the payload is built")
    i_for = loop.find("for call in tool_calls {")
    i_bump = loop.find("tool_call_count += 1")
    i_allow = loop.find("!tool_choice_enforcement.allows_function(&invocation.name)")
    runs = [mm.start() for mm in re.finditer(r"tool_runner\s*\.run\s*\(", loop)]
    need(0 <= i_for < i_bump < i_allow, "order `for call` < count bump < allows_function test not found")
    need(len(runs) == 2 and i_allow >= 0 and all(r > i_allow for r in runs),
         "expected two tool_runner.run sites, both after the allows_function test")
    need(loop.count("allows_function") == 1, "more than one allows_function site")
    s16 = re.search(r"history_items\s*\.push\s*\(\s*ItemParam::user_message_text\s*\(\s*message\s*\)\s*\)", loop) is not None

    obs = between(se, "impl ToolCallCollector {", "\nfn tool_events_to_function_call_output")
    need(obs is not None, "ToolCallCollector impl not found")
    obs = obs or ""
    need(obs.count("completed_function_calls.push") + len(re.findall(r"completed_function_calls\s*\.push", obs)) >= 1,
         "completed_function_calls.push not found")
    s19 = re.search(r"\.any\s*\(\s*\|call\|\s*call\.call_id\s*==\s*call_id\s*\)", obs) is not None and "!already_completed" in obs
    need(re.search(r"calls\.sort_by_key\s*\(\s*\|call\|\s*call\.output_index\s*\)", obs) is not None,
         "drain: sort_by_key(output_index) not found")

    st = between(se, "async fn stream_openresponses_request", "\nfn now_ms")
    need(st is not None, "stream_openresponses_request not found")
    st = st or ""
    i_gate = st.find("if !req.payload.errors().is_empty()")
    i_ret = st.find('return Err("invalid_request".to_string())')
    sends = [mm.start() for mm in re.finditer(r"\.send\s*\(\s*\)", st)]
    need(len(sends) == 1, "expected exactly one `.send()` in stream_openresponses_request")
    need(0 <= i_gate < i_ret and sends and i_ret < sends[0], "validation gate does not return before request.send()")
    need(st.find("req.payload.body()") >= 0 and re.search(r"\.json\s*\(\s*req\.payload\.body\(\)\s*\)", st) is not None,
         "the body that is sent is not req.payload.body()")
    need(s16 == s19, "fix S16 present = %s but fix S19 present = %s (the model has one FIXED flag)" % (s16, s19))

    os.makedirs(a.out, exist_ok=True)
    with open(os.path.join(a.out, "ToolLoopGen.v"), "w") as f:
        f.write("(* GENERATED by tools/gen/tool_loop.py from crates/ripd/src/{session,provider_openresponses}.rs — do not edit *)\n")
        f.write("From RipV Require Import Base.Prelude Model.ToolLoop.\n")
        for n in notes:
            f.write("(* note: %s *)\n" % n.replace("*)", "* )"))
        f.write("Definition gen_max_tool_calls : N := %d.\n" % (mx or 0))
        f.write("Definition gen_fixed : bool := %s.\n" % ("true" if (s16 and s19) else "false"))
        f.write("Definition gen_ok_tool_loop : bool := %s.\n" % ("true" if ok else "false"))
        f.write("Lemma gen_tool_loop_ok :\n  gen_ok_tool_loop && (gen_max_tool_calls =? MAX_TOOL_CALLS) && Bool.eqb gen_fixed FIXED = true.\n")
        f.write("Proof. vm_compute. reflexivity. Qed.\n")
    for n in notes:
        print("note:", n)
    print("tool_loop: max=%s fixed=%s ok=%s" % (mx, s16 and s19, ok))
    return 0


if __name__ == "__main__":
    sys.exit(main())
