#!/usr/bin/env python3
"""T1 extractor for C16: the constants and the step order of the OpenResponses tool loop.

Reads
  crates/ripd/src/provider_openresponses.rs : DEFAULT_MAX_TOOL_CALLS
  crates/ripd/src/session.rs                : run_openresponses_agent_loop — the bound is checked at the top of the
      loop and before every call, the counter is bumped once per call before the tool_choice test, the enforcement
      is built from config.tool_choice, `allows_function` guards both `tool_runner.run` sites, the stateless
      follow-up keeps the follow-up message in the history (fix S16); ToolCallCollector::observe completes a
      call id once (fix S19); stream_openresponses_request — the `payload.errors()` gate returns
      "invalid_request" before the only `request.send()`.
  crates/rip-openresponses/src/lib.rs       : validate_create_response_body judges the WHOLE body by the
      CreateResponseBody schema: the only fields taken out of the copy handed to CREATE_RESPONSE_VALIDATOR are
      `tools` and `tool_choice`, each judged instead by the validator compiled from the component schema the
      CreateResponseBody document itself names for that field (schemas/openresponses/split_components.json);
      nothing else mutates the copy; every error reaches the result; no early Ok.  `input` — the only part of a
      follow-up the provider controls — must never be carved out.
  crates/rip-provider-openresponses/src/request/create_response.rs : CreateResponsePayload::new fills `errors`
      from validate_create_response_body(&body) of the very body it keeps; errors() returns them.
  crates/ripd/src/session.rs (OpenResponsesSsePipe) : push_sse_str and finish both run, after truncate_after_done,
      ONE loop over the whole of `parsed` that shows each event to `collector.observe` and only then maps it to
      frames (directly or through one shared helper); there is no other `self.mapper.map(` site; push_bytes goes
      through push_sse_str; stream_openresponses_request builds the reading pipe with Some(req.collector) and calls
      finish() when the body ended without [DONE]; the loop creates one fresh collector per request and drains it
      after the stream.  Emitted as gen_pipe_feeds : obs_flags with the obligation gen_pipe_feeds_collector_ok
      (= OBS_BOTH, the value the theorems of Props/C16.v "from the body bytes" are proved for).
      The `Err(errs) => ...` arm of CreateResponsePayload::new — what happens to the validator's messages before the gate
      `if !req.payload.errors().is_empty()` counts them — is emitted as gen_errors_post : post_shape (PS_keep: the vector
      as it is; PS_map: into_iter().map(f).collect() with f : String -> String and no other adaptor; PS_may_drop:
      anything else) with the obligation gen_gate_errors_ok (shape_never_drops: the theorems
      c16_gate_is_validator_verdict / c16_invalid_never_sent_whatever_the_messages are proved for these shapes).
Emits coq/Gen/ToolLoopGen.v: gen_validator_carved : list string, gen_ok_validator : bool and the obligation
gen_validator_ok (every carved field is one of tools / tool_choice and every construct was found), and gen_max_tool_calls : N, gen_ok_tool_loop : bool, gen_fixed : bool and the obligation
gen_tool_loop_ok (the model's MAX_TOOL_CALLS and FIXED are the generated values and every construct was found).
A construct that is not found sets gen_ok_tool_loop := false (never guess)."""
import argparse, json, os, re, sys


def strip_comments(s):
    s = re.sub(r"//[^\n]*", "", s)
    return re.sub(r"/\*.*?\*/", "", s, flags=re.S)


def between(src, start, end):
    i = src.find(start)
    if i < 0:
        return None
    j = src.find(end, i)
    return src[i:j] if j > i else None


def block_at(src, i):
    """the text of the brace block that opens at the first `{` at or after position i (braces balanced)"""
    j = src.find("{", i)
    if j < 0:
        return None
    depth = 0
    for k in range(j, len(src)):
        if src[k] == "{":
            depth += 1
        elif src[k] == "}":
            depth -= 1
            if depth == 0:
                return src[j:k + 1]
    return None


def fn_body(src, name):
    m = re.search(r"\bfn\s+%s\s*\(" % re.escape(name), src)
    return block_at(src, m.end()) if m else None


def event_loops(body):
    """[(loop block, iterated expression)] for every `for event in <expr> {` of a function body"""
    out = []
    for m in re.finditer(r"for\s+event\s+in\s+([^{]+?)\s*\{", body):
        out.append((block_at(body, m.end() - 1) or "", m.group(1).strip()))
    return out


def loop_feeds_then_maps(block):
    """the loop body shows `event` to the collector and only then maps it to frames"""
    i_obs = block.find("collector.observe(event)")
    i_map = block.find("self.mapper.map(event)")
    guarded = re.search(r"if\s+let\s+Some\(collector\)\s*=\s*self\.collector\.as_deref_mut\(\)\s*\{\s*collector\.observe\(event\);\s*\}", block) is not None
    return 0 <= i_obs < i_map and guarded and "continue" not in block and "break" not in block and "return" not in block


def main():
    ap = argparse.ArgumentParser()
    ap.add_argument("--repo", required=True)
    ap.add_argument("--out", required=True)
    a = ap.parse_args()
    notes, ok = [], True

    def need(cond, what):
        nonlocal ok
        if not cond:
            ok = False
            notes.append(what)

    def rd(rel):
        try:
            return strip_comments(open(os.path.join(a.repo, rel)).read())
        except OSError as e:
            notes.append("cannot read %s: %s" % (rel, e))
            return ""

    po = rd("crates/ripd/src/provider_openresponses.rs")
    se = rd("crates/ripd/src/session.rs")
    m = re.search(r"pub\s+const\s+DEFAULT_MAX_TOOL_CALLS\s*:\s*u64\s*=\s*([0-9_]+)\s*;", po)
    mx = int(m.group(1).replace("_", "")) if m else None
    need(mx is not None, "DEFAULT_MAX_TOOL_CALLS not found")

    loop = between(se, "async fn run_openresponses_agent_loop(", "\nstruct OpenResponsesStreamRequest")
    need(loop is not None, "run_openresponses_agent_loop not found")
    loop = loop or ""
    need(len(re.findall(r"if\s+tool_call_count\s*>=\s*DEFAULT_MAX_TOOL_CALLS", loop)) == 2,
         "expected the bound test `tool_call_count >= DEFAULT_MAX_TOOL_CALLS` twice (loop top, before each call)")
    need(len(re.findall(r"tool_call_count\s*\+=\s*1", loop)) == 1, "expected exactly one `tool_call_count += 1`")
    need(re.search(r"ToolChoiceEnforcement::from_tool_choice\s*\(\s*&config\.tool_choice\s*\)", loop) is not None,
         "enforcement is not built from config.tool_choice")
    i_loop = loop.find("loop {")
    i_top = loop.find("tool_call_count >= DEFAULT_MAX_TOOL_CALLS")
    i_build = loop.find("build_streaming_followup_request")
    need(0 <= i_loop < i_top < i_build, "the bound is not tested at the top of the loop before the payload is built")
    i_for = loop.find("for call in tool_calls {")
    i_bump = loop.find("tool_call_count += 1")
    i_allow = loop.find("!tool_choice_enforcement.allows_function(&invocation.name)")
    runs = [mm.start() for mm in re.finditer(r"tool_runner\s*\.run\s*\(", loop)]
    need(0 <= i_for < i_bump < i_allow, "order `for call` < count bump < allows_function test not found")
    need(len(runs) == 2 and i_allow >= 0 and all(r > i_allow for r in runs),
         "expected two tool_runner.run sites, both after the allows_function test")
    need(loop.count("allows_function") == 1, "more than one allows_function site")
    s16 = re.search(r"history_items\s*\.push\s*\(\s*ItemParam::user_message_text\s*\(\s*message\s*\)\s*\)", loop) is not None

    obs = between(se, "impl ToolCallCollector {", "\nfn tool_events_to_function_call_output")
    need(obs is not None, "ToolCallCollector impl not found")
    obs = obs or ""
    need(obs.count("completed_function_calls.push") + len(re.findall(r"completed_function_calls\s*\.push", obs)) >= 1,
         "completed_function_calls.push not found")
    s19 = re.search(r"\.any\s*\(\s*\|call\|\s*call\.call_id\s*==\s*call_id\s*\)", obs) is not None and "!already_completed" in obs
    need(re.search(r"calls\.sort_by_key\s*\(\s*\|call\|\s*call\.output_index\s*\)", obs) is not None,
         "drain: sort_by_key(output_index) not found")

    st = between(se, "async fn stream_openresponses_request", "\nfn now_ms")
    need(st is not None, "stream_openresponses_request not found")
    st = st or ""
    i_gate = st.find("if !req.payload.errors().is_empty()")
    i_ret = st.find('return Err("invalid_request".to_string())')
    sends = [mm.start() for mm in re.finditer(r"\.send\s*\(\s*\)", st)]
    need(len(sends) == 1, "expected exactly one `.send()` in stream_openresponses_request")
    need(0 <= i_gate < i_ret and sends and i_ret < sends[0], "validation gate does not return before request.send()")
    need(st.find("req.payload.body()") >= 0 and re.search(r"\.json\s*\(\s*req\.payload\.body\(\)\s*\)", st) is not None,
         "the body that is sent is not req.payload.body()")
    need(s16 == s19, "fix S16 present = %s but fix S19 present = %s (the model has one FIXED flag)" % (s16, s19))

    # ---- OpenResponsesSsePipe: the two places that turn parsed events into frames feed the collector first
    pnotes, pok = [], True

    def pneed(cond, what):
        nonlocal pok
        if not cond:
            pok = False
            pnotes.append(what)

    pipe = between(se, "impl<'a> OpenResponsesSsePipe<'a> {", "\nfn truncate_after_done")
    pneed(pipe is not None, "impl OpenResponsesSsePipe not found")
    pipe = pipe or ""
    feeds = {}
    fed_loops = 0
    for fname, source in (("push_sse_str", r"self\.decoder\.push\(chunk\)"), ("finish", r"self\.decoder\.finish\(\)")):
        fb = fn_body(pipe, fname)
        pneed(fb is not None, "OpenResponsesSsePipe::%s not found" % fname)
        fb = fb or ""
        pneed(re.search(r"let\s+mut\s+parsed\s*=\s*%s\s*;" % source, fb) is not None, "%s: `let mut parsed = %s;` not found" % (fname, source))
        i_cut = fb.find("truncate_after_done(&mut parsed)")
        pneed(i_cut >= 0, "%s: truncate_after_done(&mut parsed) not found" % fname)
        pneed(len(re.findall(r"\bparsed\s*=[^=]", fb)) == 1 and "parsed." not in fb.replace("parsed.is_empty()", "").replace("parsed\n            .iter()", "").replace("parsed.iter()", ""),
              "%s: `parsed` is edited after truncate_after_done" % fname)
        loops = [(blk, it) for (blk, it) in event_loops(fb) if "self.mapper.map(event)" in blk or "collector.observe(event)" in blk]
        ok_here = False
        if loops:
            # every loop that maps must feed first, over the whole of `parsed`, after the cut
            ok_here = all(it == "&parsed" and loop_feeds_then_maps(blk) for (blk, it) in loops) and all(fb.find(blk) > i_cut >= 0 for (blk, _) in loops) and len(loops) == 1
            fed_loops += sum(1 for (blk, _) in loops if loop_feeds_then_maps(blk))
        else:
            # one level of helper: `self.<helper>(&parsed)` whose only loop feeds and maps
            mh = re.search(r"self\.(\w+)\(&parsed\)", fb)
            hb = fn_body(pipe, mh.group(1)) if mh else None
            if hb is not None and fb.find(mh.group(0)) > i_cut >= 0:
                hl = [(blk, it) for (blk, it) in event_loops(hb) if "self.mapper.map(event)" in blk or "collector.observe(event)" in blk]
                ok_here = len(hl) == 1 and hl[0][1] in ("parsed", "parsed.iter()") and loop_feeds_then_maps(hl[0][0])
        feeds[fname] = ok_here
    # no mapping site outside the loops that feed the collector (a helper shared by both counts once)
    n_map = len(re.findall(r"self\.mapper\.map\(", pipe))
    n_fed = sum(1 for (blk, _) in event_loops(pipe) if loop_feeds_then_maps(blk))
    pneed(n_map == n_fed, "%d `self.mapper.map(` sites but %d loops that show the event to the collector first" % (n_map, n_fed))
    pb = fn_body(pipe, "push_bytes") or ""
    pneed(pb != "" and "self.decoder" not in pb and "self.mapper" not in pb and len(re.findall(r"self\.push_sse_str\(", pb)) >= 1, "push_bytes does not go through push_sse_str only")
    stq = between(se, "async fn stream_openresponses_request", "\nfn now_ms") or ""
    pneed(re.search(r"let\s+mut\s+pipe\s*=\s*OpenResponsesSsePipe::new\(\s*req\.session_id,\s*req\.seq,\s*req\.sink,\s*Some\(req\.collector\),\s*validation,?\s*\);\s*let\s+mut\s+saw_done\s*=\s*pipe\.push_bytes\(", stq) is not None,
          "the pipe that reads the body is not built with Some(req.collector)")
    pneed(re.search(r"if\s+!saw_done\s*\{\s*let\s+_\s*=\s*pipe\.finish\(\)\.await;\s*\}\s*Ok\(\(\)\)", stq) is not None, "`if !saw_done { pipe.finish() }` before Ok(()) not found")
    i_lp = loop.find("loop {")
    i_newc = loop.find("let mut collector = ToolCallCollector::default();")
    i_strm = loop.find("stream_openresponses_request(")
    i_drain = loop.find("collector.drain_function_calls()")
    pneed(0 <= i_lp < i_newc < i_strm < i_drain and loop.count("ToolCallCollector::default()") == 1 and re.search(r"collector:\s*&mut\s+collector", loop) is not None,
          "the loop does not create a fresh collector per request, hand it to the stream and drain it afterwards")
    notes.extend(pnotes)

    # ---- the request-body validator (the `valid` of the model): whole body against the schema
    vnotes, vok = [], True

    def vneed(cond, what):
        nonlocal vok
        if not cond:
            vok = False
            vnotes.append(what)

    orl = rd("crates/rip-openresponses/src/lib.rs")
    vb = between(orl, "pub fn validate_create_response_body(", "\npub fn validate_responses_tool_param")
    vneed(vb is not None, "validate_create_response_body not found")
    vb = vb or ""
    carved = re.findall(r"\.\s*(?:remove|remove_entry|swap_remove|shift_remove)\s*\(\s*\"([^\"]*)\"\s*\)", vb)
    n_removes = len(re.findall(r"\.\s*(?:remove|remove_entry|swap_remove|shift_remove)\s*\(", vb))
    vneed(n_removes == len(carved), "a field is removed from the validated copy under a computed name")
    vneed(len(re.findall(r"let\s+mut\s+stripped\s*=\s*value\.clone\(\)\s*;", vb)) == 1, "`let mut stripped = value.clone();` not found")
    vneed(len(re.findall(r"\bstripped\s*=[^=]", vb)) == 1, "the validated copy is assigned more than once")
    vneed(len(re.findall(r"if\s+let\s+Value::Object\(map\)\s*=\s*&mut\s+stripped", vb)) == 1 and vb.count("&mut") == 1,
          "expected exactly one mutable borrow of the validated copy (`if let Value::Object(map) = &mut stripped`)")
    for bad in (".retain(", ".clear(", ".insert(", ".take(", "_mut(", ".entry(", ".append(", ".extend_from", "mem::", ".truncate(", ".drain(", ".pop(", ".split_off(", "*map", "Value::Null;", "stripped[", "map[", "unsafe", "as_object_mut"):
        vneed(bad not in vb.replace("errors.extend", "").replace("errors.push", ""), "the validated copy may be edited: `%s` appears in validate_create_response_body" % bad)
    vneed(re.search(r"if\s+let\s+Err\(errs\)\s*=\s*CREATE_RESPONSE_VALIDATOR\.validate\(&stripped\)\s*\{\s*errors\.extend\(errs\.map\(\|e\|\s*e\.to_string\(\)\)\);\s*\}", vb) is not None,
          "CREATE_RESPONSE_VALIDATOR.validate(&stripped) with its errors added to `errors` not found")
    vneed(re.search(r"if\s+errors\.is_empty\(\)\s*\{\s*Ok\(\(\)\)\s*\}\s*else\s*\{\s*Err\(errors\)\s*\}\s*\}\s*$", vb.strip()) is not None,
          "the function does not end in `if errors.is_empty() { Ok(()) } else { Err(errors) }`")
    vneed(vb.count("Ok(") == 1 and "return" not in vb, "an early return / second Ok in validate_create_response_body")
    vneed(re.search(r"static\s+CREATE_RESPONSE_VALIDATOR\s*:\s*Lazy<JSONSchema>\s*=\s*Lazy::new\(\|\|\s*compile_split_schema\(\"CreateResponseBody\.json\"\)\)", orl) is not None,
          "CREATE_RESPONSE_VALIDATOR is not compiled from CreateResponseBody.json")
    # what the schema document names for the carved fields
    try:
        comps = json.load(open(os.path.join(a.repo, "schemas/openresponses/split_components.json")))
        props = comps["CreateResponseBody.json"]["properties"]
        doc_tools = props["tools"]["anyOf"][0]["items"]["$ref"]
        doc_choice = props["tool_choice"]["anyOf"][0]["$ref"]
        doc_input = props["input"]["anyOf"][0]["oneOf"][1]["items"]["$ref"]
    except Exception as e:  # noqa
        doc_tools = doc_choice = doc_input = None
        vneed(False, "split_components.json: CreateResponseBody.properties.{tools,tool_choice,input} not in the expected shape: %s" % e)
    vneed(doc_input == "./ItemParam.json", "CreateResponseBody.input items are not ItemParam")
    sub = {"tools": ("validate_responses_tool_param", "TOOL_PARAM_VALIDATOR", doc_tools, r"for\s*\(idx,\s*item\)\s*in\s*items\.iter\(\)\.enumerate\(\)\s*\{\s*if\s+let\s+Err\(errs\)\s*=\s*validate_responses_tool_param\(item\)\s*\{\s*errors\s*\.extend\("),
           "tool_choice": ("validate_tool_choice_param", "TOOL_CHOICE_VALIDATOR", doc_choice, r"if\s+let\s+Err\(errs\)\s*=\s*validate_tool_choice_param\(&choice\)\s*\{\s*errors\.extend\(")}
    for f in carved:
        if f not in sub:
            continue  # reported through the obligation (the field list is generated)
        fn, stat, doc, site = sub[f]
        vneed(carved.count(f) == 1, "`%s` removed more than once" % f)
        vneed(re.search(site, vb) is not None, "carved field `%s` is not judged by %s with its errors added to `errors`" % (f, fn))
        fb = between(orl, "pub fn %s(" % fn, "\npub fn ")
        vneed(fb is not None and re.search(r"match\s+%s\.validate\(value\)\s*\{\s*Ok\(_\)\s*=>\s*Ok\(\(\)\),\s*Err\(errors\)\s*=>\s*Err\(errors\.map\(\|e\|\s*e\.to_string\(\)\)\.collect\(\)\),\s*\}" % stat, fb or "") is not None,
              "%s is not `match %s.validate(value) { Ok(_) => Ok(()), Err(errors) => Err(...) }`" % (fn, stat))
        m2 = re.search(r"static\s+%s\s*:\s*Lazy<JSONSchema>\s*=\s*Lazy::new\(\|\|\s*compile_split_schema\(\"([A-Za-z0-9_]+\.json)\"\)\)" % stat, orl)
        vneed(m2 is not None and doc == "./" + m2.group(1), "%s is not compiled from the schema the document names for `%s` (%s)" % (stat, f, doc))
    cs = between(orl, "fn compile_split_schema(", "\nfn compile_split_stream_schema")
    vneed(cs is not None and re.search(r"for\s*\(schema_name,\s*schema\)\s*in\s*SPLIT_COMPONENTS\.iter\(\)\s*\{\s*let\s+uri\s*=\s*format!\(\"\{SPLIT_COMPONENTS_URI_PREFIX\}\{schema_name\}\"\);\s*options\.with_document\(uri,\s*schema\.clone\(\)\);\s*\}", cs or "") is not None
          and re.search(r"\"\$ref\"\s*:\s*format!\(\"\{SPLIT_COMPONENTS_URI_PREFIX\}\{name\}\"\)", cs or "") is not None and "options" in (cs or "") and ".compile(&root_ref)" in (cs or ""),
          "compile_split_schema does not compile {$ref: <name>} over all unmodified split components")
    cr = rd("crates/rip-provider-openresponses/src/request/create_response.rs")
    # `new`: errors = match validate_create_response_body(&body) { Ok(_) => Vec::new(), Err(errs) => <ARM>, }; Self { body, errors }
    # — the arm itself (what happens to the validator's messages before the gate counts them) is read below (gate shape)
    mnew = re.search(r"pub\s+fn\s+new\(body:\s*Value\)\s*->\s*Self\s*\{\s*let\s+errors\s*=\s*match\s+validate_create_response_body\(&body\)\s*\{\s*Ok\(_\)\s*=>\s*Vec::new\(\),\s*Err\(errs\)\s*=>\s*(.*?),?\s*\};\s*Self\s*\{\s*body,\s*errors\s*\}\s*\}", cr, flags=re.S)
    vneed(mnew is not None, "CreateResponsePayload::new does not take its errors from validate_create_response_body(&body)")
    vneed(re.search(r"pub\s+fn\s+errors\(&self\)\s*->\s*&\[String\]\s*\{\s*&self\.errors\s*\}", cr) is not None, "CreateResponsePayload::errors is not `&self.errors`")
    vneed(re.search(r"pub\s+fn\s+body\(&self\)\s*->\s*&Value\s*\{\s*&self\.body\s*\}", cr) is not None, "CreateResponsePayload::body is not `&self.body`")
    pimpl = between(cr, "impl CreateResponsePayload {", "pub struct CreateResponseBuilder") or ""
    vneed(len(re.findall(r"Self\s*\{\s*body", pimpl)) == 1 and pimpl.count("Self") == 2 and len(re.findall(r"(?<!struct )CreateResponsePayload\s*\{\s*(?:body|errors|\.\.)", cr)) == 0
          and re.search(r"pub\s+struct\s+CreateResponsePayload\s*\{\s*body:\s*Value,\s*errors:\s*Vec<String>,\s*\}", cr) is not None
          and "self.errors" not in pimpl.replace("&self.errors", "") and "mut self" not in pimpl,
          "CreateResponsePayload (private fields body, errors) is built or edited somewhere else than in new()")
    # ---- the gate: what CreateResponsePayload::new does to the validator's messages before `errors().is_empty()` decides
    gnotes, gok = [], True

    def gneed(cond, what):
        nonlocal gok
        if not cond:
            gok = False
            gnotes.append(what)

    arm = re.sub(r"\s+", "", mnew.group(1)) if mnew else None
    droppers = ("filter", "flat_map", "flatten", "take", "skip", "step_by", "retain", "truncate", "dedup", "drain", "pop", "remove", "clear",
                "split_off", "nth", "last", "next", "find", "scan", "map_while", "zip", "chunks", "windows", "?", "get(", "unwrap_or_default", "ok()")
    if arm is None:
        shape = "PS_may_drop"
        gneed(False, "gate: the Err arm of CreateResponsePayload::new was not found")
    elif arm == "errs":
        shape = "PS_keep"
    elif re.fullmatch(r"errs\.into_iter\(\)\.map\((?:[A-Za-z_][A-Za-z0-9_:]*|\|[a-z_]+\|[^|]*)\)\.collect(?:::<Vec<(?:_|String)>>)?\(\)", arm) and not any(d in arm for d in droppers):
        # every message rewritten, none dropped — provided the function is a plain String -> String one
        mf = re.fullmatch(r"errs\.into_iter\(\)\.map\(([A-Za-z_][A-Za-z0-9_]*)\)\.collect.*", arm)
        shape = "PS_map"
        if mf:
            sig = re.search(r"fn\s+%s\s*\(\s*\w+\s*:\s*String\s*\)\s*->\s*String\s*\{" % re.escape(mf.group(1)), cr)
            if sig is None:
                shape = "PS_may_drop"
                gnotes.append("gate: `%s` is not a `fn(String) -> String`" % mf.group(1))
    else:
        shape = "PS_may_drop"
        gnotes.append("gate: the validator's messages pass through `%s` before the gate counts them: a message can vanish" % arm[:200])
    # the gate itself: errors() is the stored vector, tested for emptiness, refusal returns before the only send
    gneed(re.search(r"pub\s+fn\s+errors\(&self\)\s*->\s*&\[String\]\s*\{\s*&self\.errors\s*\}", cr) is not None, "gate: CreateResponsePayload::errors is not `&self.errors`")
    gneed(st.count("req.payload.errors()") >= 1 and len(re.findall(r"if\s+!req\.payload\.errors\(\)\.is_empty\(\)\s*\{", st)) == 1, "gate: `if !req.payload.errors().is_empty() {` not found exactly once")
    notes.extend(gnotes)

    # ---- the value limits of the input items the loop builds (Model.ToolLoop: CALL_ID_*, NAME_*, TEXT_MAX, name_char_ok, role_ok)
    lim = {}
    try:
        fc = comps["FunctionCallItemParam.json"]
        fo = comps["FunctionCallOutputItemParam.json"]
        lim["call_min"] = fc["properties"]["call_id"]["minLength"]
        lim["call_max"] = fc["properties"]["call_id"]["maxLength"]
        lim["name_min"] = fc["properties"]["name"]["minLength"]
        lim["name_max"] = fc["properties"]["name"]["maxLength"]
        lim["pattern"] = fc["properties"]["name"]["pattern"]
        vneed(fc["properties"]["call_id"]["type"] == "string" and fc["properties"]["name"]["type"] == "string", "FunctionCallItemParam: call_id / name are not strings")
        vneed(sorted(fc["required"]) == ["arguments", "call_id", "name", "type"], "FunctionCallItemParam.required changed: %s" % fc["required"])
        vneed(set(fc["properties"]["arguments"].keys()) <= {"description", "type"} and fc["properties"]["arguments"]["type"] == "string", "FunctionCallItemParam.arguments carries a constraint the model does not know")
        vneed(sorted(fo["required"]) == ["call_id", "output", "type"], "FunctionCallOutputItemParam.required changed: %s" % fo["required"])
        vneed(fo["properties"]["call_id"].get("minLength") == lim["call_min"] and fo["properties"]["call_id"].get("maxLength") == lim["call_max"]
              and set(fo["properties"]["call_id"].keys()) <= {"description", "type", "minLength", "maxLength"},
              "FunctionCallOutputItemParam.call_id limits differ from FunctionCallItemParam's")
        vneed(set(fc["properties"]["call_id"].keys()) <= {"description", "type", "minLength", "maxLength"}, "FunctionCallItemParam.call_id carries a constraint the model does not know")
        vneed(set(fc["properties"]["name"].keys()) <= {"description", "type", "minLength", "maxLength", "pattern"}, "FunctionCallItemParam.name carries a constraint the model does not know")
        outs = fo["properties"]["output"]["oneOf"]
        lim["text_max"] = outs[0]["maxLength"]
        vneed(outs[0]["type"] == "string" and "minLength" not in outs[0] and "pattern" not in outs[0], "FunctionCallOutputItemParam.output (string) changed")
        roles = []
        for nm in ("UserMessageItemParam.json", "AssistantMessageItemParam.json", "SystemMessageItemParam.json", "DeveloperMessageItemParam.json"):
            mp = comps[nm]
            roles += mp["properties"]["role"]["enum"]
            strs = [x for x in mp["properties"]["content"]["oneOf"] if x.get("type") == "string"]
            vneed(len(strs) == 1 and strs[0].get("maxLength") == lim["text_max"] and "minLength" not in strs[0] and "pattern" not in strs[0],
                  "%s: string content limit differs from %s" % (nm, lim["text_max"]))
            vneed(sorted(mp["required"]) == ["content", "role", "type"], "%s.required changed" % nm)
        lim["roles"] = roles
        item_refs = [x.get("$ref") for x in comps["ItemParam.json"]["oneOf"]]
        msg_like = [r for r in item_refs if r and "MessageItemParam" in r]
        vneed(sorted(msg_like) == sorted("./" + n for n in ("UserMessageItemParam.json", "AssistantMessageItemParam.json", "SystemMessageItemParam.json", "DeveloperMessageItemParam.json")),
              "ItemParam has other message variants than user/assistant/system/developer: %s" % msg_like)
    except Exception as e:  # noqa
        vneed(False, "split_components.json: item limits not in the expected shape: %r" % (e,))
    notes.extend(vnotes)

    os.makedirs(a.out, exist_ok=True)
    with open(os.path.join(a.out, "ToolLoopGen.v"), "w") as f:
        f.write("(* GENERATED by tools/gen/tool_loop.py from crates/ripd/src/{session,provider_openresponses}.rs — do not edit *)\n")
        f.write("From Coq Require Import String.\nFrom RipV Require Import Base.Prelude Model.ToolLoop Model.ToolLoopGate.\n")
        for n in notes:
            f.write("(* note: %s *)\n" % n.replace("*)", "* )"))
        f.write("Definition gen_max_tool_calls : N := %d.\n" % (mx or 0))
        f.write("Definition gen_fixed : bool := %s.\n" % ("true" if (s16 and s19) else "false"))
        f.write("Definition gen_ok_tool_loop : bool := %s.\n" % ("true" if ok else "false"))
        f.write("Lemma gen_tool_loop_ok :\n  gen_ok_tool_loop && (gen_max_tool_calls =? MAX_TOOL_CALLS) && Bool.eqb gen_fixed FIXED = true.\n")
        f.write("Proof. vm_compute. reflexivity. Qed.\n")
        f.write("(* the request-body validator: fields judged outside the CreateResponseBody schema (by the component schema the\n   document names for them); `input` must not be one of them *)\n")
        f.write("Definition gen_validator_carved : list string := [%s].\n" % "; ".join('"%s"%%string' % c.replace('"', '""') for c in carved))
        f.write("Definition gen_ok_validator : bool := %s.\n" % ("true" if vok else "false"))
        f.write("(* value limits of function_call / function_call_output / message items in split_components.json *)\n")
        f.write("Definition gen_call_id_min : N := %d.\nDefinition gen_call_id_max : N := %d.\n" % (lim.get("call_min", 0), lim.get("call_max", 0)))
        f.write("Definition gen_name_min : N := %d.\nDefinition gen_name_max : N := %d.\n" % (lim.get("name_min", 0), lim.get("name_max", 0)))
        f.write("Definition gen_text_max : N := %d.\n" % lim.get("text_max", 0))
        f.write("Definition gen_name_pattern : string := \"%s\"%%string.\n" % str(lim.get("pattern", "")).replace('"', '""'))
        f.write("Definition gen_roles : list string := [%s].\n" % "; ".join('"%s"%%string' % str(x).replace('"', '""') for x in lim.get("roles", [])))
        # the pattern must be `^[class]+$`; the class is translated into ranges here, the model's name_char_ok is compared
        # with it on all code points below 1200 (and minLength >= 1 makes `+` vs `*` irrelevant)
        ranges = []
        mcls = re.fullmatch(r"\^\[([^\]\\^]+)\]\+\$", str(lim.get("pattern", "")))
        if mcls:
            cls = mcls.group(1)
            k = 0
            while k < len(cls):
                if k + 2 < len(cls) and cls[k + 1] == "-":
                    ranges.append((ord(cls[k]), ord(cls[k + 2])))
                    k += 3
                else:
                    ranges.append((ord(cls[k]), ord(cls[k])))
                    k += 1
        f.write("(* the character class of that pattern (must be ^[class]+$), translated by the extractor *)\n")
        f.write("Definition gen_pattern_understood : bool := %s.\n" % ("true" if mcls else "false"))
        f.write("Definition gen_pattern_class (c : N) : bool :=\n  %s.\n" % (" || ".join("((%d <=? c) && (c <=? %d))" % r for r in ranges) or "false"))
        f.write("Lemma gen_schema_limits_ok :\n  (gen_call_id_min =? CALL_ID_MIN) && (gen_call_id_max =? CALL_ID_MAX) && (gen_name_min =? NAME_MIN) && (gen_name_max =? NAME_MAX)\n  && (gen_text_max =? TEXT_MAX) && gen_pattern_understood && (1 <=? gen_name_min)\n  && forallb (fun k => Bool.eqb (name_char_ok (N.of_nat k)) (gen_pattern_class (N.of_nat k))) (seq 0 1200)\n  && forallb (fun r => role_ok (lit r)) gen_roles && (length gen_roles =? 4)%nat\n  && negb (role_ok (lit \"tool\"%string)) = true.\n")
        f.write("Proof. vm_compute. reflexivity. Qed.\n")
        f.write("(* OpenResponsesSsePipe: push_sse_str / finish show every parsed event to collector.observe before mapping it to frames *)\n")
        f.write("Definition gen_pipe_feeds : obs_flags := {| ob_push := %s; ob_finish := %s |}.\n" % ("true" if feeds.get("push_sse_str") else "false", "true" if feeds.get("finish") else "false"))
        f.write("Definition gen_ok_pipe : bool := %s.\n" % ("true" if pok else "false"))
        f.write("Lemma gen_pipe_feeds_collector_ok : gen_ok_pipe && obs_flags_eqb gen_pipe_feeds OBS_BOTH = true.\n")
        f.write("Proof. vm_compute. reflexivity. Qed.\n")
        f.write("(* the gate: what CreateResponsePayload::new does to the validator's messages before errors().is_empty() decides\n   (PS_keep: kept as they are; PS_map: each rewritten by a String -> String function; PS_may_drop: a message can vanish) *)\n")
        f.write("Definition gen_errors_post : post_shape := %s.\n" % shape)
        f.write("Definition gen_ok_gate : bool := %s.\n" % ("true" if gok else "false"))
        f.write("Lemma gen_gate_errors_ok : gen_ok_gate && shape_never_drops gen_errors_post = true.\n")
        f.write("Proof. vm_compute. reflexivity. Qed.\n")
        f.write("Lemma gen_validator_ok :\n  gen_ok_validator && forallb (fun f => existsb (String.eqb f) [\"tools\"%string; \"tool_choice\"%string]) gen_validator_carved = true.\n")
        f.write("Proof. vm_compute. reflexivity. Qed.\n")
    for n in notes:
        print("note:", n)
    print("tool_loop: max=%s fixed=%s ok=%s validator_carved=%s validator_ok=%s pipe_feeds=%s pipe_ok=%s gate=%s gate_ok=%s" % (mx, s16 and s19, ok, carved, vok, feeds, pok, shape, gok))
    return 0


if __name__ == "__main__":
    sys.exit(main())
