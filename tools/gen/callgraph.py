#!/usr/bin/env python3
"""T1 extractor for C02 (DESIGN §4 C02 (a)): which public capability can reach `event_log.append`.

Reads the non-test part of
  * crates/ripd/src/continuities.rs, `impl ContinuityStore { .. }`: every method (name -> body); a
    method APPENDS DIRECTLY when its body contains `self.event_log.append(`; call edges are
    `self.<method>(` / `Self::<method>(`; "reaches" = reflexive-transitive closure.  `self.event_log`
    may otherwise only be used as `.replay*(`, `.last_seq(` (anything else - passed on, cloned, stored -
    sets `gen_event_log_escapes`, which fails the obligation: the graph would be incomplete).
  * the cache modules (continuity_stream_cache.rs, continuity_seek_index.rs, compaction_checkpoint_index.rs,
    message_ordinal_index.rs): must not name `event_log` / `EventLog` outside comments at all.
  * crates/ripd/src/server.rs: for every route handler (`#[utoipa::path(<method>, path = "..")] async fn`)
    the ContinuityStore methods it calls (`store.<m>(`, `state.engine.continuities().<m>(`) and any other
    `state.engine.<x>(` call; a handler reaches an append when one of the store methods does or when it
    calls anything else on the engine (sessions / tasks emit frames).
Emits coq/Gen/Effects.v:
  gen_cap_reaches_append : list (cap * bool)   - one row per capability of Model/ContStore.v, in the
                                                 order of Model/CapEffects.v `all_caps`
  gen_route_reaches_append : list (N * bool)   - read-only / dry-run-able thread routes (index into
                                                 CapEffects.thread_routes)
  obligations gen_effects_ok / gen_routes_ok.
A capability whose function is not found gets `true` for a read-only capability (so the obligation
fails) - never a guess in the safe direction.
"""
import argparse, os, re, sys

sys.path.insert(0, os.path.dirname(os.path.abspath(__file__)))
from log_open import strip_comments, strip_tests, brace_body  # noqa: E402

# capability of the model -> the ContinuityStore methods that implement it (all must exist)
CAPS = [
    ("CapList", ["list"]),
    ("CapGet", ["get"]),
    ("CapSubscribe", ["subscribe"]),
    ("CapReplay", ["replay_events"]),
    ("CapCutPoints", ["compaction_cut_points_v1"]),
    ("CapCompactionStatus", ["compaction_status_v1"]),
    ("CapCursorStatus", ["provider_cursor_status_v1"]),
    ("CapSelectionStatus", ["context_selection_status_v1"]),
    ("CapEnsureDefault", ["ensure_default"]),
    ("(CapAppend EContinuityMessageAppended)", ["append_message"]),
    ("(CapAppend EContinuityRunSpawned)", ["append_run_spawned"]),
    ("(CapAppend EContinuityContextSelectionDecided)", ["append_context_selection_decided"]),
    ("(CapAppend EContinuityContextCompiled)", ["append_context_compiled"]),
    ("(CapAppend EContinuityProviderCursorUpdated)", ["append_provider_cursor_updated"]),
    ("(CapAppend EContinuityRunEnded)", ["append_run_ended"]),
    ("(CapAppend EContinuityToolSideEffects)", ["append_tool_side_effects"]),
    ("CapPost", ["append_message", "append_run_spawned"]),
    ("CapBranch", ["branch"]),
    ("CapHandoff", ["handoff"]),
    ("CapCheckpoint", ["compaction_checkpoint_cumulative_v1"]),
    ("CapCursorRotate", ["provider_cursor_rotate_v1"]),
    ("CapAuto", ["compaction_auto_v1"]),
    ("CapAutoSchedule", ["compaction_auto_schedule_v1"]),
]
READ_ONLY = {"CapList", "CapGet", "CapSubscribe", "CapReplay", "CapCutPoints", "CapCompactionStatus", "CapCursorStatus",
             "CapSelectionStatus"}

# thread routes in the order of CapEffects.thread_routes: (method, path, must it be unable to append?)
ROUTES = [
    ("get", "/threads"),
    ("get", "/threads/{id}"),
    ("post", "/threads/{id}/compaction-cut-points"),
    ("post", "/threads/{id}/compaction-status"),
    ("post", "/threads/{id}/provider-cursor-status"),
    ("post", "/threads/{id}/context-selection-status"),
    ("get", "/threads/{id}/events"),
    ("post", "/threads/{id}/messages"),
    ("post", "/threads/{id}/branch"),
    ("post", "/threads/{id}/handoff"),
    ("post", "/threads/{id}/compaction-checkpoint"),
    ("post", "/threads/{id}/provider-cursor-rotate"),
    ("post", "/threads/{id}/compaction-auto"),
    ("post", "/threads/{id}/compaction-auto-schedule"),
    ("post", "/threads/ensure"),
]

CACHE_FILES = ["continuity_stream_cache.rs", "continuity_seek_index.rs", "compaction_checkpoint_index.rs", "message_ordinal_index.rs"]


def methods_of_impl(src, impl_name):
    """name -> body for every fn directly inside every `impl <impl_name> {` block"""
    out = {}
    for m in re.finditer(r"\bimpl\s+" + re.escape(impl_name) + r"\s*\{", src):
        body = brace_body(src, m.end())
        i = 0
        depth = 0
        # walk the impl body at depth 0 and pick `fn name .. {`
        for fm in re.finditer(r"\bfn\s+(\w+)\s*(?:<[^>{}]*>)?\s*\(", body):
            # depth of this position
            pre = body[:fm.start()]
            if pre.count("{") - pre.count("}") != 0:
                continue
            j = body.find("{", fm.end())
            # skip the signature (may contain `{` only in where clauses - not used here)
            sig = body[fm.end():j]
            if ";" in sig:
                continue
            out[fm.group(1)] = brace_body(body, j + 1)
    return out


def store_graph(repo):
    notes = []
    p = os.path.join(repo, "crates", "ripd", "src", "continuities.rs")
    if not os.path.exists(p):
        return None, None, True, ["continuities.rs not found"]
    src = strip_tests(strip_comments(open(p).read()))
    fns = methods_of_impl(src, "ContinuityStore")
    if not fns:
        return None, None, True, ["impl ContinuityStore not found"]
    direct = {n for n, b in fns.items() if re.search(r"self\s*\.\s*event_log\s*\.\s*append\s*\(", b)}
    edges = {}
    for n, b in fns.items():
        callees = set(re.findall(r"\bself\s*\.\s*(\w+)\s*\(", b)) | set(re.findall(r"\bSelf::(\w+)\s*\(", b))
        edges[n] = {c for c in callees if c in fns}
    # other uses of the log handle
    escapes = False
    for n, b in fns.items():
        for mm in re.finditer(r"\bevent_log\b", b):
            post = b[mm.end():mm.end() + 60]
            pre = b[max(0, mm.start() - 20):mm.start()]
            if re.match(r"\s*\.\s*(append|replay|replay_validated|replay_stream|replay_session|last_seq)\s*\(", post):
                continue
            if n == "new" and re.search(r"[,{(]\s*$", pre) or (n == "new" and re.match(r"\s*[,:}]", post)):
                continue  # constructor: the field is initialised
            escapes = True
            notes.append(f"continuities.rs: `event_log` used in an unclassified way in fn {n}: ...{pre[-15:]}event_log{post[:25]}")
    reach = {n: (n in direct) for n in fns}
    changed = True
    while changed:
        changed = False
        for n in fns:
            if not reach[n] and any(reach[c] for c in edges[n]):
                reach[n] = True
                changed = True
    notes.append(f"continuities.rs: {len(fns)} methods, {len(direct)} append directly: " + " ".join(sorted(direct)))
    notes.append("methods that can reach event_log.append: " + " ".join(sorted(n for n in fns if reach[n])))
    return fns, reach, escapes, notes


def cache_touches_log(repo):
    hits = []
    for f in CACHE_FILES:
        p = os.path.join(repo, "crates", "ripd", "src", f)
        if not os.path.exists(p):
            hits.append(f"{f}: not found")
            continue
        s = strip_tests(strip_comments(open(p).read()))
        if re.search(r"\bevent_log\b|\bEventLog\b|events\.jsonl", s):
            hits.append(f"{f}: names the event log")
    return hits


def route_table(repo, fns, reach):
    notes = []
    p = os.path.join(repo, "crates", "ripd", "src", "server.rs")
    if not os.path.exists(p):
        return None, ["server.rs not found"]
    src = strip_tests(strip_comments(open(p).read()))
    handlers = {}
    for m in re.finditer(r"#\[utoipa::path\(\s*(get|post|delete|put)\s*,\s*path\s*=\s*\"([^\"]+)\"", src):
        fm = re.search(r"\basync\s+fn\s+(\w+)\s*\(", src[m.end():])
        if not fm:
            continue
        start = m.end() + fm.end()
        j = src.find("{", src.find(")", start))
        # the parameter list may contain nested parentheses / braces in patterns: find the body brace at depth 0
        depth, k = 1, start
        while depth > 0 and k < len(src):
            depth += {"(": 1, ")": -1}.get(src[k], 0)
            k += 1
        j = src.find("{", k)
        handlers[(m.group(1), m.group(2))] = (fm.group(1), brace_body(src, j + 1))
    rows = []
    for meth, path in ROUTES:
        h = handlers.get((meth, path))
        if not h:
            notes.append(f"route {meth.upper()} {path}: handler not found")
            rows.append(None)
            continue
        name, body = h
        store_calls = set(re.findall(r"\bstore\s*\.\s*(\w+)\s*\(", body)) | set(re.findall(r"continuities\(\)\s*\.\s*(\w+)\s*\(", body))
        engine_calls = set(re.findall(r"\bengine\s*\.\s*(\w+)\s*\(", body)) - {"continuities"}
        unknown = [c for c in store_calls if c not in fns and c not in ("clone", "workspace_root")]
        r = any(reach.get(c, False) for c in store_calls) or bool(engine_calls) or bool(unknown)
        notes.append(f"route {meth.upper()} {path} -> {name}: store calls {sorted(store_calls)}, other engine calls {sorted(engine_calls)} => reaches append: {r}")
        rows.append(r)
    return rows, notes


def cb(b):
    return "true" if b else "false"


def main():
    ap = argparse.ArgumentParser()
    ap.add_argument("--repo", required=True)
    ap.add_argument("--out", required=True)
    a = ap.parse_args()
    fns, reach, escapes, notes = store_graph(a.repo)
    rows = []
    for cap, methods in CAPS:
        if fns is None or any(m not in fns for m in methods):
            notes.append(f"{cap}: method(s) {methods} not found")
            r = cap in READ_ONLY or cap.startswith("CapList")  # unfound read-only => true (fails); unfound writer => false (fails)
            r = True if cap in READ_ONLY else False
        else:
            r = any(reach[m] for m in methods)
        rows.append((cap, r))
    hits = cache_touches_log(a.repo)
    notes += hits
    routes, rnotes = (None, []) if fns is None else route_table(a.repo, fns, reach)
    notes += rnotes
    L = ["(* GENERATED by tools/gen/callgraph.py from crates/ripd/src/continuities.rs, server.rs and the cache modules - do not edit.",
         "   Which capability / route can reach `self.event_log.append` (C02, T1). *)",
         "From RipV Require Import Base.Prelude Model.Frames Model.Log Model.ContStore Model.CapEffects.", "",
         "Definition gen_cap_reaches_append : list (cap * bool) :=",
         "  [" + ";\n   ".join(f"({c}, {cb(r)})" for c, r in rows) + "].", "",
         f"Definition gen_event_log_escapes : bool := {cb(escapes)}.",
         f"Definition gen_cache_modules_name_the_log : bool := {cb(bool(hits))}.", "",
         "Definition gen_route_reaches_append : list (N * bool) :=",
         "  [" + "; ".join(f"({i}, {cb(True if r is None else r)})" for i, r in enumerate(routes if routes is not None else [None] * len(ROUTES))) + "].", "",
         "Lemma gen_effects_ok :",
         "  effects_agree gen_cap_reaches_append && negb gen_event_log_escapes && negb gen_cache_modules_name_the_log = true.",
         "Proof. vm_compute. reflexivity. Qed.", "",
         "Lemma gen_routes_ok : routes_agree gen_route_reaches_append = true.",
         "Proof. vm_compute. reflexivity. Qed."]
    os.makedirs(a.out, exist_ok=True)
    open(os.path.join(a.out, "Effects.v"), "w").write("\n".join(L) + "\n")
    for n in notes:
        print(n)
    return 0


if __name__ == "__main__":
    sys.exit(main())
