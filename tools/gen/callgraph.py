#!/usr/bin/env python3
"""T1 extractor for C02 (DESIGN §4 C02 (a)): which public capability can reach `event_log.append`.

Reads the non-test part of
  * crates/ripd/src/continuities.rs, `impl ContinuityStore { .. }`: every method (name -> body); a
    method APPENDS DIRECTLY when its body contains `self.event_log.append(`; call edges are
    `self.<method>(` / `Self::<method>(`; "reaches" = reflexive-transitive closure.  `self.event_log`
    may otherwise only be used as `.replay*(`, `.last_seq(` (anything else - passed on, cloned, stored -
    sets `gen_event_log_escapes`, which fails the obligation: the graph would be incomplete).
  * the cache modules (continuity_stream_cache.rs, continuity_seek_index.rs, compaction_checkpoint_index.rs,
    message_ordinal_index.rs): must not name `event_log` / `EventLog` outside comments at all.
  * crates/ripd/src/server.rs: for every route handler (`#[utoipa::path(<method>, path = "..")] async fn`)
    the ContinuityStore methods it calls (`store.<m>(`, `state.engine.continuities().<m>(`) and any other
    `state.engine.<x>(` call; a handler reaches an append when one of the store methods does or when it
    calls anything else on the engine (sessions / tasks emit frames).
Emits coq/Gen/Effects.v:
  gen_cap_reaches_append : list (cap * bool)   - one row per capability of Model/ContStore.v, in the
                                                 order of Model/CapEffects.v `all_caps`
  gen_route_reaches_append : list (N * bool)   - read-only / dry-run-able thread routes (index into
                                                 CapEffects.thread_routes)
  obligations gen_effects_ok / gen_routes_ok.
A capability whose function is not found gets `true` for a read-only capability (so the obligation
fails) - never a guess in the safe direction.
"""
import argparse, os, re, sys

sys.path.insert(0, os.path.dirname(os.path.abspath(__file__)))
from log_open import strip_comments, strip_tests, brace_body  # noqa: E402

# capability of the model -> the ContinuityStore methods that implement it (all must exist)
CAPS = [
    ("CapList", ["list"]),
    ("CapGet", ["get"]),
    ("CapSubscribe", ["subscribe"]),
    ("CapReplay", ["replay_events"]),
    ("CapCutPoints", ["compaction_cut_points_v1"]),
    ("CapCompactionStatus", ["compaction_status_v1"]),
    ("CapCursorStatus", ["provider_cursor_status_v1"]),
    ("CapSelectionStatus", ["context_selection_status_v1"]),
    ("CapEnsureDefault", ["ensure_default"]),
    ("(CapAppend EContinuityMessageAppended)", ["append_message"]),
    ("(CapAppend EContinuityRunSpawned)", ["append_run_spawned"]),
    ("(CapAppend EContinuityContextSelectionDecided)", ["append_context_selection_decided"]),
    ("(CapAppend EContinuityContextCompiled)", ["append_context_compiled"]),
    ("(CapAppend EContinuityProviderCursorUpdated)", ["append_provider_cursor_updated"]),
    ("(CapAppend EContinuityRunEnded)", ["append_run_ended"]),
    ("(CapAppend EContinuityToolSideEffects)", ["append_tool_side_effects"]),
    ("CapPost", ["append_message", "append_run_spawned"]),
    ("CapBranch", ["branch"]),
    ("CapHandoff", ["handoff"]),
    ("CapCheckpoint", ["compaction_checkpoint_cumulative_v1"]),
    ("CapCursorRotate", ["provider_cursor_rotate_v1"]),
    ("CapAuto", ["compaction_auto_v1"]),
    ("CapAutoSchedule", ["compaction_auto_schedule_v1"]),
]
READ_ONLY = {"CapList", "CapGet", "CapSubscribe", "CapReplay", "CapCutPoints", "CapCompactionStatus", "CapCursorStatus",
             "CapSelectionStatus"}

# thread routes in the order of CapEffects.thread_routes: (method, path, must it be unable to append?)
ROUTES = [
    ("get", "/threads"),
    ("get", "/threads/{id}"),
    ("post", "/threads/{id}/compaction-cut-points"),
    ("post", "/threads/{id}/compaction-status"),
    ("post", "/threads/{id}/provider-cursor-status"),
    ("post", "/threads/{id}/context-selection-status"),
    ("get", "/threads/{id}/events"),
    ("post", "/threads/{id}/messages"),
    ("post", "/threads/{id}/branch"),
    ("post", "/threads/{id}/handoff"),
    ("post", "/threads/{id}/compaction-checkpoint"),
    ("post", "/threads/{id}/provider-cursor-rotate"),
    ("post", "/threads/{id}/compaction-auto"),
    ("post", "/threads/{id}/compaction-auto-schedule"),
    ("post", "/threads/ensure"),
]

CACHE_FILES = ["continuity_stream_cache.rs", "continuity_seek_index.rs", "compaction_checkpoint_index.rs", "message_ordinal_index.rs"]


def methods_of_impl(src, impl_name):
    """name -> body for every fn directly inside every `impl <impl_name> {` block"""
    out = {}
    for m in re.finditer(r"\bimpl\s+" + re.escape(impl_name) + r"\s*\{", src):
        body = brace_body(src, m.end())
        i = 0
        depth = 0
        # walk the impl body at depth 0 and pick `fn name .. {`
        for fm in re.finditer(r"\bfn\s+(\w+)\s*(?:<[^>{}]*>)?\s*\(", body):
            # depth of this position
            pre = body[:fm.start()]
            if pre.count("{") - pre.count("}") != 0:
                continue
            j = body.find("{", fm.end())
            # skip the signature (may contain `{` only in where clauses - not used here)
            sig = body[fm.end():j]
            if ";" in sig:
                continue
            out[fm.group(1)] = brace_body(body, j + 1)
    return out


def store_graph(repo):
    notes = []
    p = os.path.join(repo, "crates", "ripd", "src", "continuities.rs")
    if not os.path.exists(p):
        return None, None, True, ["continuities.rs not found"]
    src = strip_tests(strip_comments(open(p).read()))
    fns = methods_of_impl(src, "ContinuityStore")
    if not fns:
        return None, None, True, ["impl ContinuityStore not found"]
    direct = {n for n, b in fns.items() if re.search(r"self\s*\.\s*event_log\s*\.\s*append\s*\(", b)}
    edges = {}
    for n, b in fns.items():
        callees = set(re.findall(r"\bself\s*\.\s*(\w+)\s*\(", b)) | set(re.findall(r"\bSelf::(\w+)\s*\(", b))
        edges[n] = {c for c in callees if c in fns}
    # other uses of the log handle
    escapes = False
    for n, b in fns.items():
        for mm in re.finditer(r"\bevent_log\b", b):
            post = b[mm.end():mm.end() + 60]
            pre = b[max(0, mm.start() - 20):mm.start()]
            if re.match(r"\s*\.\s*(append|replay|replay_validated|replay_stream|replay_session|last_seq)\s*\(", post):
                continue
            if n == "new" and re.search(r"[,{(]\s*$", pre) or (n == "new" and re.match(r"\s*[,:}]", post)):
                continue  # constructor: the field is initialised
            escapes = True
            notes.append(f"continuities.rs: `event_log` used in an unclassified way in fn {n}: ...{pre[-15:]}event_log{post[:25]}")
    # `self` handed on as a value (argument, clone, closure capture by name): callee unknown to this graph
    for n, b in fns.items():
        for mm in re.finditer(r"\bself\b(?!\s*\.)", b):
            escapes = True
            notes.append(f"continuities.rs: bare `self` (not `self.<x>`) in fn {n}: ...{b[max(0, mm.start() - 25):mm.end() + 15].strip()}")
    reach = {n: (n in direct) for n in fns}
    changed = True
    while changed:
        changed = False
        for n in fns:
            if not reach[n] and any(reach[c] for c in edges[n]):
                reach[n] = True
                changed = True
    notes.append(f"continuities.rs: {len(fns)} methods, {len(direct)} append directly: " + " ".join(sorted(direct)))
    notes.append("methods that can reach event_log.append: " + " ".join(sorted(n for n in fns if reach[n])))
    store_graph.edges = edges
    return fns, reach, escapes, notes


def closure_from(edges, roots):
    seen = set()
    todo = [r for r in roots if r in edges]
    while todo:
        n = todo.pop()
        if n in seen:
            continue
        seen.add(n)
        todo.extend(edges[n] - seen)
    return seen


def shared_helpers(fns, reach):
    """methods of impl ContinuityStore that are reachable (reflexively) from a method of a READ-ONLY
    capability AND from a method of a capability that may append, each with its "can reach an append" bit.
    One row per helper: a helper a status call shares with the scheduler must itself be unable to append."""
    edges = store_graph.edges
    ro_roots, ap_roots = set(), set()
    for cap, methods in CAPS:
        (ro_roots if cap in READ_ONLY else ap_roots).update(methods)
    from_ro = {}
    for r in sorted(ro_roots):
        for n in closure_from(edges, [r]):
            from_ro.setdefault(n, []).append(r)
    from_ap = {}
    for r in sorted(ap_roots):
        for n in closure_from(edges, [r]):
            from_ap.setdefault(n, []).append(r)
    rows = []
    for n in sorted(set(from_ro) & set(from_ap)):
        rows.append((n, bool(reach.get(n, True)), from_ro[n], from_ap[n]))
    return rows


def cache_touches_log(repo):
    hits = []
    for f in CACHE_FILES:
        p = os.path.join(repo, "crates", "ripd", "src", f)
        if not os.path.exists(p):
            hits.append(f"{f}: not found")
            continue
        s = strip_tests(strip_comments(open(p).read()))
        if re.search(r"\bevent_log\b|\bEventLog\b|events\.jsonl", s):
            hits.append(f"{f}: names the event log")
    return hits


def route_table(repo, fns, reach):
    notes = []
    p = os.path.join(repo, "crates", "ripd", "src", "server.rs")
    if not os.path.exists(p):
        return None, ["server.rs not found"]
    src = strip_tests(strip_comments(open(p).read()))
    handlers = {}
    for m in re.finditer(r"#\[utoipa::path\(\s*(get|post|delete|put)\s*,\s*path\s*=\s*\"([^\"]+)\"", src):
        fm = re.search(r"\basync\s+fn\s+(\w+)\s*\(", src[m.end():])
        if not fm:
            continue
        start = m.end() + fm.end()
        j = src.find("{", src.find(")", start))
        # the parameter list may contain nested parentheses / braces in patterns: find the body brace at depth 0
        depth, k = 1, start
        while depth > 0 and k < len(src):
            depth += {"(": 1, ")": -1}.get(src[k], 0)
            k += 1
        j = src.find("{", k)
        handlers[(m.group(1), m.group(2))] = (fm.group(1), brace_body(src, j + 1))
    rows = []
    for meth, path in ROUTES:
        h = handlers.get((meth, path))
        if not h:
            notes.append(f"route {meth.upper()} {path}: handler not found")
            rows.append(None)
            continue
        name, body = h
        store_calls = set(re.findall(r"\bstore\s*\.\s*(\w+)\s*\(", body)) | set(re.findall(r"continuities\(\)\s*\.\s*(\w+)\s*\(", body))
        engine_calls = set(re.findall(r"\bengine\s*\.\s*(\w+)\s*\(", body)) - {"continuities"}
        unknown = [c for c in store_calls if c not in fns and c not in ("clone", "workspace_root")]
        # the state / store / engine handed to some other function as a value: callee invisible here
        handed_on = re.findall(r"[(,]\s*&?\s*(?:mut\s+)?(state|store|engine)\s*[,)]", body)
        if handed_on:
            notes.append(f"route {meth.upper()} {path} -> {name}: hands on {sorted(set(handed_on))} as an argument: treated as reaching an append")
        r = any(reach.get(c, False) for c in store_calls) or bool(engine_calls) or bool(unknown) or bool(handed_on)
        notes.append(f"route {meth.upper()} {path} -> {name}: store calls {sorted(store_calls)}, other engine calls {sorted(engine_calls)} => reaches append: {r}")
        rows.append(r)
    return rows, notes


def enclosing_blocks(src, pos):
    """headers (text before `{`) of the blocks that lexically enclose position pos, innermost last"""
    stack = []
    i = 0
    last = 0
    while i < pos:
        ch = src[i]
        if ch == "{":
            # header = text since the previous `;`, `{` or `}`
            j = max(src.rfind(";", 0, i), src.rfind("{", 0, i), src.rfind("}", 0, i))
            stack.append(src[j + 1:i].strip())
        elif ch == "}":
            if stack:
                stack.pop()
        i += 1
    return stack


def sidecar_guard_facts(repo, fns):
    """(rebuild guarded, ids minted, cache append keyed by the event) + notes"""
    notes = []
    p = os.path.join(repo, "crates", "ripd", "src", "continuities.rs")
    src = strip_tests(strip_comments(open(p).read()))
    # 1. every rebuild_best_effort( call sits inside `if !events.is_empty()`
    calls = [m.start() for m in re.finditer(r"\.\s*rebuild_best_effort\s*\(", src)]
    guarded = bool(calls)
    for c in calls:
        arg = re.match(r"\.\s*rebuild_best_effort\s*\(\s*(\w+)\s*,\s*&(\w+)\s*\)", src[c:c + 200])
        blocks = enclosing_blocks(src, c)
        ok = arg is not None and any(re.fullmatch(r"if\s*!\s*" + re.escape(arg.group(2)) + r"\s*\.\s*is_empty\s*\(\s*\)", b) for b in blocks)
        if not ok:
            guarded = False
            notes.append("continuities.rs: a rebuild_best_effort call is not inside `if !<events>.is_empty()`: enclosing blocks " + " > ".join(b[:40] for b in blocks[-3:]))
    notes.append(f"continuities.rs: {len(calls)} rebuild_best_effort call(s), all guarded by a non-empty replay: {guarded}")
    # 2. new thread ids are minted by the store
    minted = True
    n_sites = 0
    for m in re.finditer(r"\bself\s*\.\s*(create_continuity(?:_locked)?)\s*\(", src):
        depth, j = 1, m.end()
        while depth > 0 and j < len(src):
            depth += {"(": 1, ")": -1}.get(src[j], 0)
            j += 1
        args = [a.strip() for a in re.split(r",(?![^()]*\))", src[m.end():j - 1]) if a.strip()]
        idarg = args[1] if m.group(1) == "create_continuity" else (args[2] if len(args) > 2 else "?")
        n_sites += 1
        ok = idarg in ("None", "continuity_id")
        mm = re.fullmatch(r"Some\((\w+)\)", idarg)
        if mm:
            # the variable must be bound by Uuid::new_v4().to_string() in the same function
            pre = src[:m.start()]
            fn_start = pre.rfind("fn ")
            ok = re.search(r"let\s+" + re.escape(mm.group(1)) + r"\s*=\s*Uuid::new_v4\(\)\s*\.\s*to_string\(\)\s*;", pre[fn_start:]) is not None
        if not ok:
            minted = False
            notes.append(f"continuities.rs: {m.group(1)}(.., {idarg}, ..): the new thread id is not minted by the store")
    body = fns.get("create_continuity_locked", "") if fns else ""
    if not re.search(r"continuity_id\s*\.\s*unwrap_or_else\(\s*\|\|\s*Uuid::new_v4\(\)\s*\.\s*to_string\(\)\s*\)", body):
        minted = False
        notes.append("create_continuity_locked: `continuity_id.unwrap_or_else(|| Uuid::new_v4().to_string())` not found")
    for name, b in (fns or {}).items():
        # a public capability must not hand a caller-chosen id to the creators (only ensure_default/branch/handoff call them)
        pass
    notes.append(f"continuities.rs: {n_sites} create_continuity call site(s), id minted by the store at all: {minted}")
    # 3. append_best_effort keys the cache file by the stream id of the event it was given
    cp = os.path.join(repo, "crates", "ripd", "src", "continuity_stream_cache.rs")
    keyed = False
    if os.path.exists(cp):
        cs = strip_tests(strip_comments(open(cp).read()))
        cf = methods_of_impl(cs, "ContinuityStreamCache")
        ab = cf.get("append_best_effort", "")
        keyed = re.search(r"let\s+continuity_id\s*=\s*event\s*\.\s*stream_id\(\)\s*;", ab) is not None and \
            re.search(r"let\s+path\s*=\s*self\s*\.\s*path_for\(\s*continuity_id\s*\)", ab) is not None and \
            re.search(r"if\s+event\s*\.\s*stream_kind\(\)\s*!=\s*StreamKind::Continuity\s*\{\s*return\s*;", ab) is not None
    notes.append(f"continuity_stream_cache.rs: append_best_effort keyed by event.stream_id(), continuity frames only: {keyed}")
    return guarded, minted, keyed, notes


def zero_length_policy(repo):
    """(found, zero-byte checkpoint sidecar counts as absent) read off
    ensure_compaction_checkpoints_sidecar_best_effort_v1: its first guard is `if path.exists()` (a zero-byte file is
    used as found) or `if <f>(&path)` with `fn <f>` testing `.len() > 0` of the file's metadata (counts as absent).
    Anything else: not found (the obligation fails)."""
    cp = os.path.join(repo, "crates", "ripd", "src", "continuity_stream_cache.rs")
    if not os.path.exists(cp):
        return False, False, ["continuity_stream_cache.rs not found"]
    cs = strip_tests(strip_comments(open(cp).read()))
    cf = methods_of_impl(cs, "ContinuityStreamCache")
    body = cf.get("ensure_compaction_checkpoints_sidecar_best_effort_v1")
    if body is None:
        return False, False, ["ensure_compaction_checkpoints_sidecar_best_effort_v1 not found"]
    m = re.search(r"let\s+(\w+)\s*=\s*self\s*\.\s*compaction_checkpoints_path_for_v1\s*\([^)]*\)\s*;\s*if\s+([^{]+?)\s*\{\s*return\s+Ok\(Some\(\s*\1\s*\)\)", body)
    if not m:
        return False, False, ["ensure_compaction_checkpoints_sidecar_best_effort_v1: first guard `if .. { return Ok(Some(path)) }` not found"]
    var, cond = m.group(1), re.sub(r"\s+", "", m.group(2))
    if cond == f"{var}.exists()":
        return True, False, [f"checkpoint sidecar guard: `{cond}`: a zero-byte file is used as found"]
    fm = re.fullmatch(r"(\w+)\(&" + re.escape(var) + r"\)", cond)
    if fm:
        dm = re.search(r"\bfn\s+" + re.escape(fm.group(1)) + r"\s*\([^)]*\)\s*->\s*bool\s*\{", cs)
        if dm:
            fb = re.sub(r"\s+", "", brace_body(cs, dm.end()))
            if "metadata" in fb and re.search(r"\.len\(\)>0", fb) and "exists()" not in fb:
                return True, True, [f"checkpoint sidecar guard: `{cond}` = the file holds at least one byte: a zero-byte file counts as absent"]
            return False, False, [f"checkpoint sidecar guard `{cond}`: body of fn {fm.group(1)} not recognised: {fb[:80]}"]
    return False, False, [f"checkpoint sidecar guard not recognised: `{cond}`"]


def decision_facts(fns):
    """Facts about the two invocations whose no-op case is decided by a search (Model/C02Decide.v):
    (scan) in ensure_default the log scan find_latest_continuity_for_workspace is on the straight-line path: it is the
    scrutinee of an `if let` at block depth 0 and the only `return` before it is the one of the in-memory index hit -
    so it runs whenever the in-memory index does not know the workspace, whatever is on disk (model: skip = false);
    (strict) in provider_cursor_rotate_v1 the closure matches_filter rejects a cursor whose recorded endpoint / model
    differs from `Some(filter)` - an absent recorded field passes no filter (model: lenient = false).
    Not recognised => false (the obligation fails)."""
    notes = []
    scan = False
    body = None if fns is None else fns.get("ensure_default")
    if body is None:
        notes.append("ensure_default not found")
    else:
        k = body.find("find_latest_continuity_for_workspace")
        if k < 0 or body.count("find_latest_continuity_for_workspace") != 1:
            notes.append("ensure_default: exactly one call of find_latest_continuity_for_workspace expected")
        else:
            pre = body[:k]
            depth0 = pre.count("{") - pre.count("}") == 0
            scrut = re.search(r"if\s+let\s+Some\(\s*\w+\s*\)\s*=\s*self\s*\.\s*$", pre) is not None
            rets = [m.start() for m in re.finditer(r"\breturn\b", pre)]
            mem_hit = False
            if len(rets) == 1:
                hdr = pre[:rets[0]]
                j = hdr.rfind("if let")
                mem_hit = j >= 0 and re.search(r"self\s*\.\s*index\b", hdr[j:]) is not None and "workspaces" in hdr[j:] and "exists" not in hdr[j:]
            other = re.search(r"\b(exists|metadata|try_exists|is_file|read_dir)\s*\(", pre) is not None
            scan = depth0 and scrut and mem_hit and not other
            notes.append(f"ensure_default: log scan at block depth 0: {depth0}; scrutinee of an `if let`: {scrut}; the only earlier return is the in-memory index hit: {mem_hit}; file-system test before the scan: {other}")
    strict = False
    body = None if fns is None else fns.get("provider_cursor_rotate_v1")
    if body is None:
        notes.append("provider_cursor_rotate_v1 not found")
    else:
        m = re.search(r"let\s+matches_filter\s*=\s*\|[^|]*\|\s*->\s*bool\s*\{", body)
        if not m:
            notes.append("provider_cursor_rotate_v1: closure matches_filter not found")
        else:
            cl = re.sub(r"\s+", "", brace_body(body, m.end()))
            ok = []
            for fld in ("endpoint", "model"):
                ok.append(f"ifletSome(filter)=req.{fld}.as_deref(){{if{fld}!=Some(filter){{returnfalse;}}}}" in cl)
            prov = "ifletSome(filter)=req.provider.as_deref(){ifprovider!=filter{returnfalse;}}" in cl
            lax = re.search(r"is_some_and|map_or|is_none_or|unwrap_or|is_none\(", cl) is not None
            strict = all(ok) and prov and not lax and cl.endswith("true")
            notes.append(f"provider_cursor_rotate_v1.matches_filter: endpoint / model compared as `recorded != Some(filter)`: {ok}; provider: {prov}; lenient combinator present: {lax}")
    return scan, strict, notes


def cb(b):
    return "true" if b else "false"


def main():
    ap = argparse.ArgumentParser()
    ap.add_argument("--repo", required=True)
    ap.add_argument("--out", required=True)
    a = ap.parse_args()
    fns, reach, escapes, notes = store_graph(a.repo)
    rows = []
    for cap, methods in CAPS:
        if fns is None or any(m not in fns for m in methods):
            notes.append(f"{cap}: method(s) {methods} not found")
            r = cap in READ_ONLY or cap.startswith("CapList")  # unfound read-only => true (fails); unfound writer => false (fails)
            r = True if cap in READ_ONLY else False
        else:
            r = any(reach[m] for m in methods)
        rows.append((cap, r))
    hits = cache_touches_log(a.repo)
    notes += hits
    shared = [] if fns is None else shared_helpers(fns, reach)
    for n, r, ro, ap in shared:
        notes.append(f"shared helper {n}: can append = {r}; read-only callers: {' '.join(ro)}; appending callers: {' '.join(ap[:6])}{' ..' if len(ap) > 6 else ''}")
    routes, rnotes = (None, []) if fns is None else route_table(a.repo, fns, reach)
    notes += rnotes
    try:
        guarded, minted, keyed, gnotes = sidecar_guard_facts(a.repo, fns)
    except Exception as e:  # noqa: BLE001
        guarded, minted, keyed, gnotes = False, False, False, [f"sidecar guard facts: {e}"]
    notes += gnotes
    try:
        zl_found, zl_absent, znotes = zero_length_policy(a.repo)
    except Exception as e:  # noqa: BLE001
        zl_found, zl_absent, znotes = False, False, [f"zero-length policy: {e}"]
    notes += znotes
    try:
        d_scan, d_strict, dnotes = decision_facts(fns)
    except Exception as e:  # noqa: BLE001
        d_scan, d_strict, dnotes = False, False, [f"decision facts: {e}"]
    notes += dnotes
    L = ["(* GENERATED by tools/gen/callgraph.py from crates/ripd/src/continuities.rs, server.rs and the cache modules - do not edit.",
         "   Which capability / route can reach `self.event_log.append` (C02, T1). *)",
         "From Coq Require Import String.",
         "From RipV Require Import Base.Prelude Model.Frames Model.Log Model.ContStore Model.CapEffects Model.LogBytes",
         "  Model.NoopPlan Model.C02Cases.", "",
         "Definition gen_cap_reaches_append : list (cap * bool) :=",
         "  [" + ";\n   ".join(f"({c}, {cb(r)})" for c, r in rows) + "].", "",
         f"Definition gen_event_log_escapes : bool := {cb(escapes)}.",
         f"Definition gen_cache_modules_name_the_log : bool := {cb(bool(hits))}.", "",
         "Definition gen_route_reaches_append : list (N * bool) :=",
         "  [" + "; ".join(f"({i}, {cb(True if r is None else r)})" for i, r in enumerate(routes if routes is not None else [None] * len(ROUTES))) + "].", "",
         "Lemma gen_effects_ok :",
         "  effects_agree gen_cap_reaches_append && negb gen_event_log_escapes && negb gen_cache_modules_name_the_log = true.",
         "Proof. vm_compute. reflexivity. Qed.", "",
         "Lemma gen_routes_ok : routes_agree gen_route_reaches_append = true.",
         "Proof. vm_compute. reflexivity. Qed.", "",
         "(* every method of impl ContinuityStore that a READ-ONLY capability shares with a capability that may append",
         "   (reachable from both, the capabilities' own functions included): name, can it reach self.event_log.append.",
         "   An empty table means the store's methods were not found: the obligation fails. *)",
         "Definition gen_shared_helpers : list (string * bool) :=",
         "  [" + ";\n   ".join(f'("{n}"%string, {cb(r)})' for n, r, _, _ in shared) + "].", "",
         "Lemma gen_shared_helpers_ok : shared_helpers_silent gen_shared_helpers = true.",
         "Proof. vm_compute. reflexivity. Qed.", "",
         "(* which ids get a cache file (Model/SidecarInv.v): every rebuild_best_effort call of continuities.rs is inside",
         "   `if !events.is_empty()`; append_best_effort keys the file by the stream id of the event it is given",
         "   (continuity frames only); new thread ids are minted by the store (Uuid::new_v4) at every creator call *)",
         f"Definition gen_rebuild_guarded_by_nonempty_replay : bool := {cb(guarded)}.",
         f"Definition gen_cache_append_keyed_by_event : bool := {cb(keyed)}.",
         f"Definition gen_thread_ids_minted_by_store : bool := {cb(minted)}.", "",
         "Lemma gen_sidecar_guard_ok :",
         "  gen_rebuild_guarded_by_nonempty_replay && gen_cache_append_keyed_by_event && gen_thread_ids_minted_by_store = true.",
         "Proof. vm_compute. reflexivity. Qed.", "",
         "(* does ensure_compaction_checkpoints_sidecar_best_effort_v1 count a zero-byte <id>.comp.v1.jsonl as absent",
         "   (Model/NoopPlan.v `seen`)?  read off its first guard; not recognised => the obligation fails *)",
         f"Definition gen_zero_length_policy_found : bool := {cb(zl_found)}.",
         f"Definition gen_zero_length_comp_sidecar_is_absent : bool := {cb(zl_absent)}.", "",
         "Lemma gen_zero_length_policy_ok : gen_zero_length_policy_found = true.",
         "Proof. vm_compute. reflexivity. Qed.", "",
         "(* the searches that decide a no-op (Model/C02Decide.v): ensure_default scans the log whenever the in-memory index",
         "   does not know the workspace (no test of what is on disk before it: model `ensure false`); the filters of",
         "   provider_cursor_rotate_v1 reject a cursor whose recorded endpoint / model is absent (model `rot_match false`) *)",
         f"Definition gen_ensure_scans_the_log_whenever_memory_misses : bool := {cb(d_scan)}.",
         f"Definition gen_rotate_filters_reject_absent_fields : bool := {cb(d_strict)}.", "",
         "Lemma gen_decisions_ok :",
         "  gen_ensure_scans_the_log_whenever_memory_misses && gen_rotate_filters_reject_absent_fields = true.",
         "Proof. vm_compute. reflexivity. Qed.", "",
         "(* the correspondence cases of C02 are checked under the policy the source has *)",
         "Definition check_case_c02g := check_case_c02x_zl gen_zero_length_comp_sidecar_is_absent.",
         "Definition model_obs_c02g := model_obs_c02x_zl gen_zero_length_comp_sidecar_is_absent."]
    os.makedirs(a.out, exist_ok=True)
    open(os.path.join(a.out, "Effects.v"), "w").write("\n".join(L) + "\n")
    for n in notes:
        print(n)
    return 0


if __name__ == "__main__":
    sys.exit(main())
