#!/usr/bin/env python3
"""T1 extractor for C02: how the truth log file is opened, and who else names it.

Reads the non-test part of
  * crates/rip-log/src/lib.rs : inside `impl EventLog { ... }`
      - exactly one `OpenOptions::new()` chain, with create(true) and append(true) and neither
        truncate(..) nor write(..);
      - no File::create / set_len / remove_file / rename / fs::write / truncate / seek-for-write;
      - `self.path` is only ever handed to `File::open(`  (read).
  * every crates/ripd/src/**/*.rs : each mention of the literal "events.jsonl" is the argument of
    `EventLog::new(` (the append-only opener) - nothing else may build a path to the truth log.
  * crates/rip-log/src/lib.rs, `fn append` of `impl EventLog`: the calls made on the BufWriter between
    taking the writer mutex and the end of the function, in source order, as a `list ashape`
    (Model/LogBytes.v): ALineNl = write_all(line.as_bytes()) where `line` is `serde_json::to_string(event)`
    with `line.push('\n')` before the write; ABody = the same without the push; ANl = write_all(b"\n");
    AStream = serde_json::to_writer(writer, ..); AFlush = flush(); AOther = anything else touching the
    writer.  Obligation `gen_append_shape_ok`: the shape is [ALineNl; AFlush] - ONE write of frame+LF.
Emits coq/Gen/LogOpen.v : the facts found as booleans + `gen_log_opened_append_only` (their conjunction)
and the obligation `gen_log_open_ok`.  When a construct is not found the corresponding fact is `false`
(never guess), so the obligation fails.
"""
import argparse, glob, os, re, sys


def strip_comments(s):
    s = re.sub(r"//[^\n]*", "", s)
    return re.sub(r"/\*.*?\*/", "", s, flags=re.S)


def strip_tests(s):
    """drops `#[cfg(test)] mod <name> { ... }` blocks"""
    out = s
    while True:
        m = re.search(r"#\[cfg\(test\)\]\s*(pub\s+)?mod\s+\w+\s*\{", out)
        if not m:
            return out
        depth, j = 1, m.end()
        while depth > 0 and j < len(out):
            depth += {"{": 1, "}": -1}.get(out[j], 0)
            j += 1
        out = out[:m.start()] + out[j:]


def brace_body(src, start):
    depth, j = 1, start
    while depth > 0 and j < len(src):
        depth += {"{": 1, "}": -1}.get(src[j], 0)
        j += 1
    return src[start:j - 1]


DESTRUCTIVE = [r"File::create\s*\(", r"\.set_len\s*\(", r"remove_file\s*\(", r"\brename\s*\(", r"fs::write\s*\(",
               r"\.truncate\s*\(", r"SeekFrom::Start\([^)]*\)\s*\)\s*\?\s*;\s*\n[^\n]*write"]


def extract(repo):
    facts = {"one_open_options": False, "create_and_append": False, "no_truncate_or_write": False,
             "no_destructive_call_in_impl": False, "path_only_opened_for_read": False,
             "ripd_names_log_only_for_eventlog_new": False, "writer_is_bufwriter_or_pure_delegate": False}
    notes = []
    p = os.path.join(repo, "crates", "rip-log", "src", "lib.rs")
    if not os.path.exists(p):
        return facts, ["rip-log/src/lib.rs not found"]
    src = strip_tests(strip_comments(open(p).read()))
    m = re.search(r"impl\s+EventLog\s*\{", src)
    if not m:
        return facts, ["impl EventLog not found"]
    body = brace_body(src, m.end())
    chains = re.findall(r"OpenOptions::new\(\)((?:\s*\.\s*\w+\([^()]*\))+)", body)
    facts["one_open_options"] = len(chains) == 1
    if len(chains) == 1:
        calls = re.findall(r"\.\s*(\w+)\(([^()]*)\)", chains[0])
        flags = {n: a.strip() for n, a in calls}
        facts["create_and_append"] = flags.get("create") == "true" and flags.get("append") == "true"
        facts["no_truncate_or_write"] = "truncate" not in flags and "write" not in flags and "create_new" not in flags
        notes.append("EventLog opener: " + " ".join(f".{n}({a})" for n, a in calls))
    hits = [pat for pat in DESTRUCTIVE if re.search(pat, body)]
    facts["no_destructive_call_in_impl"] = not hits
    if hits:
        notes.append("destructive calls inside impl EventLog: " + ", ".join(hits))
    uses = re.findall(r"(\w+(?:::\w+)*)\s*\(\s*&?\s*self\.path\b", body)
    other = [u for u in uses if u not in ("File::open",)]
    # `self.path` may also appear in the constructor (`Self { path, .. }`) - that is not a use of `self.path`
    facts["path_only_opened_for_read"] = len(uses) >= 1 and not other
    if other:
        notes.append("self.path handed to: " + ", ".join(other))
    # the writer behind `self.writer`: a BufWriter<File> itself, or a wrapper type of this file that only
    # delegates (its Write impl calls write_all / flush of the inner writer once each, opens no file, has no
    # destructive call) - otherwise the writer calls read off `append` would not be calls on a BufWriter
    facts["writer_is_bufwriter_or_pure_delegate"] = False
    wt = re.search(r"\bwriter\s*:\s*Mutex\s*<\s*([\w<>:\s]+?)\s*>\s*,", src)
    if wt:
        ty = re.sub(r"\s+", "", wt.group(1))
        if ty == "BufWriter<File>":
            facts["writer_is_bufwriter_or_pure_delegate"] = True
            notes.append("EventLog.writer: Mutex<BufWriter<File>>")
        else:
            blocks = []
            for mm in re.finditer(r"\b(?:struct\s+" + re.escape(ty) + r"|impl\s+" + re.escape(ty) + r"|impl\s+(?:io::|std::io::)?Write\s+for\s+" + re.escape(ty) + r")\s*\{", src):
                blocks.append((mm.group(0), brace_body(src, mm.end())))
            wimpl = [b for h, b in blocks if "Write" in h and "for" in h]
            strct = [b for h, b in blocks if h.startswith("struct")]
            ok = len(wimpl) == 1 and len(strct) == 1 and re.search(r"BufWriter\s*<\s*File\s*>", strct[0]) is not None
            if ok:
                fns = {}
                for fm in re.finditer(r"\bfn\s+(\w+)\s*\(", wimpl[0]):
                    j = wimpl[0].find("{", fm.end())
                    fns[fm.group(1)] = brace_body(wimpl[0], j + 1)
                wa, fl = fns.get("write_all", ""), fns.get("flush", "")
                ok = len(re.findall(r"\.\s*write_all\s*\(", wa)) == 1 and not re.search(r"\.\s*write\s*\(", wa) \
                    and len(re.findall(r"\.\s*flush\s*\(", fl)) == 1 and not re.search(r"\.\s*write(_all)?\s*\(", fl)
                every = " ".join(b for _, b in blocks)
                bad_calls = [pat for pat in DESTRUCTIVE + [r"\bFile::\w+\s*\(", r"OpenOptions", r"\.\s*seek\s*\("] if re.search(pat, every)]
                ok = ok and not bad_calls
                # a closure-taking helper (`guarded`) must run the operation exactly once
                helper = [b for h, b in blocks if h.startswith("impl") and "Write" not in h]
                for hb in helper:
                    if re.search(r"\bop\s*:", hb) and len(re.findall(r"\bop\s*\(", hb)) != 1:
                        ok = False
                if bad_calls:
                    notes.append(f"writer type {ty}: calls that open / move / cut files: " + ", ".join(bad_calls))
            facts["writer_is_bufwriter_or_pure_delegate"] = bool(ok)
            notes.append(f"EventLog.writer: Mutex<{ty}>, a wrapper that only delegates write_all / flush to its BufWriter<File>: {bool(ok)}")
    else:
        notes.append("EventLog: field `writer: Mutex<..>` not found")
    bad = []
    n_ok = 0
    for f in sorted(glob.glob(os.path.join(repo, "crates", "ripd", "src", "**", "*.rs"), recursive=True)):
        if f.endswith("_tests.rs") or f.endswith("/tests.rs"):
            continue
        s = strip_tests(strip_comments(open(f).read()))
        for mm in re.finditer(r'"events\.jsonl"', s):
            pre = s[max(0, mm.start() - 120):mm.start()]
            if re.search(r"EventLog::new\(\s*[\w\.\(\)&]*\.join\(\s*$", pre):
                n_ok += 1
            else:
                bad.append(f"{os.path.relpath(f, repo)}: ...{pre[-60:].strip()}\"events.jsonl\"")
    facts["ripd_names_log_only_for_eventlog_new"] = n_ok >= 1 and not bad
    notes.append(f"ripd: {n_ok} EventLog::new(..join(\"events.jsonl\")) site(s), {len(bad)} other mention(s)")
    notes += bad
    return facts, notes


def append_shape(repo):
    """the writer calls of EventLog::append in source order (None: function not found)"""
    p = os.path.join(repo, "crates", "rip-log", "src", "lib.rs")
    if not os.path.exists(p):
        return None, ["rip-log/src/lib.rs not found"]
    src = strip_tests(strip_comments(open(p).read()))
    m = re.search(r"impl\s+EventLog\s*\{", src)
    if not m:
        return None, ["impl EventLog not found"]
    body = brace_body(src, m.end())
    fm = re.search(r"pub\s+fn\s+append\s*\(\s*&self\s*,\s*(\w+)\s*:\s*&Event\s*\)[^{]*\{", body)
    if not fm:
        return None, ["fn append(&self, _: &Event) not found in impl EventLog"]
    ev = fm.group(1)
    fb = brace_body(body, fm.end())
    # verification hook statements are no writer calls
    fb = re.sub(r"#\[cfg\(rip_verif\)\]\s*rip_kernel::verif::point\([^)]*\)\s*;", "", fb)
    wm = re.search(r"let\s+mut\s+(\w+)\s*=\s*self\s*\.\s*writer\s*\.\s*lock\s*\(\s*\)", fb)
    if not wm:
        return None, ["`let mut <w> = self.writer.lock()` not found in EventLog::append"]
    w = wm.group(1)
    rest = fb[wm.end():]
    notes = []
    # the String the frame is printed into: `let mut line = serde_json::to_string(<ev>)`
    lm = re.search(r"let\s+(?:mut\s+)?(\w+)\s*=\s*serde_json::to_string\(\s*" + re.escape(ev) + r"\s*\)", rest)
    line = lm.group(1) if lm else None
    events = []  # (position, shape)
    for mm in re.finditer(r"serde_json::to_writer(?:_pretty)?\s*\(", rest):
        events.append((mm.start(), "AStream"))
    for mm in re.finditer(r"\b" + re.escape(w) + r"\s*\.\s*(\w+)\s*\(", rest):
        meth = mm.group(1)
        # argument text up to the matching parenthesis
        depth, j = 1, mm.end()
        while depth > 0 and j < len(rest):
            depth += {"(": 1, ")": -1}.get(rest[j], 0)
            j += 1
        arg = re.sub(r"\s+", "", rest[mm.end():j - 1])
        if meth == "flush" and arg == "":
            events.append((mm.start(), "AFlush"))
        elif meth == "write_all" and line and arg == f"{line}.as_bytes()":
            pushed = re.search(re.escape(line) + r"\s*\.\s*push\(\s*'\\n'\s*\)\s*;", rest[lm.end():mm.start()]) is not None
            other_mut = re.findall(re.escape(line) + r"\s*\.\s*(\w+)\s*\(", rest[lm.end():mm.start()])
            if pushed and other_mut == ["push"]:
                events.append((mm.start(), "ALineNl"))
            elif not other_mut:
                events.append((mm.start(), "ABody"))
            else:
                events.append((mm.start(), "AOther"))
        elif meth == "write_all" and arg in ('b"\\n"', "b\"\\n\"", "&[b'\\n']", "&[10]", "b\"\\x0a\""):
            events.append((mm.start(), "ANl"))
        else:
            events.append((mm.start(), "AOther"))
            notes.append(f"EventLog::append: unclassified writer call {w}.{meth}({arg[:40]})")
    # the writer handed to a macro or another function (`write!(writer, ..)`, `f(&mut writer)`) is unclassifiable
    for mm in re.finditer(r"(?<![\w.])(?:&mut\s*\*?\s*|&\s*)?\*?" + re.escape(w) + r"\b(?!\s*\.)", rest):
        pre = rest[max(0, mm.start() - 40):mm.start()]
        if re.search(r"serde_json::to_writer(?:_pretty)?\s*\(\s*$", pre):
            continue
        events.append((mm.start(), "AOther"))
        notes.append("EventLog::append: the writer is passed on: ..." + pre[-30:].strip())
    events.sort()
    shape = [s for _, s in events]
    notes.append("EventLog::append writer calls: " + " ".join(shape))
    return shape, notes


def coq_bool(b):
    return "true" if b else "false"


def main():
    ap = argparse.ArgumentParser()
    ap.add_argument("--repo", required=True)
    ap.add_argument("--out", required=True)
    a = ap.parse_args()
    facts, notes = extract(a.repo)
    names = list(facts.keys())
    shape, snotes = append_shape(a.repo)
    notes += snotes
    lines = ["(* GENERATED by tools/gen/log_open.py from crates/rip-log/src/lib.rs and crates/ripd/src - do not edit.",
             "   How the truth log is opened and who names its path; the writer calls of EventLog::append (C02, T1). *)",
             "From RipV Require Import Base.Prelude Model.Frames Model.Log Model.LogBytes.", ""]
    for n in names:
        lines.append(f"Definition gen_log_{n} : bool := {coq_bool(facts[n])}.")
    lines.append("")
    lines.append("Definition gen_log_opened_append_only : bool :=\n  " + " && ".join(f"gen_log_{n}" for n in names) + ".")
    lines.append("")
    lines.append("Lemma gen_log_open_ok : gen_log_opened_append_only = true.")
    lines.append("Proof. vm_compute. reflexivity. Qed.")
    lines.append("")
    lines.append("(* the calls EventLog::append makes on its BufWriter, in source order (AOther alone: not found) *)")
    lines.append("Definition gen_append_shape : list ashape := [" + "; ".join(shape if shape is not None else ["AOther"]) + "].")
    lines.append("")
    lines.append("Lemma gen_append_shape_ok : shape_single_write gen_append_shape = true.")
    lines.append("Proof. vm_compute. reflexivity. Qed.")
    os.makedirs(a.out, exist_ok=True)
    open(os.path.join(a.out, "LogOpen.v"), "w").write("\n".join(lines) + "\n")
    for n in notes:
        print(n)
    print("facts:", {k: v for k, v in facts.items()})
    return 0


if __name__ == "__main__":
    sys.exit(main())
