#!/usr/bin/env python3
"""T1 extractor for C02: how the truth log file is opened, and who else names it.

Reads the non-test part of
  * crates/rip-log/src/lib.rs : inside `impl EventLog { ... }`
      - exactly one `OpenOptions::new()` chain, with create(true) and append(true) and neither
        truncate(..) nor write(..);
      - no File::create / set_len / remove_file / rename / fs::write / truncate / seek-for-write;
      - `self.path` is only ever handed to `File::open(`  (read).
  * every crates/ripd/src/**/*.rs : each mention of the literal "events.jsonl" is the argument of
    `EventLog::new(` (the append-only opener) - nothing else may build a path to the truth log.
  * crates/rip-log/src/lib.rs, `fn append` of `impl EventLog`: the calls made on the BufWriter between
    taking the writer mutex and the end of the function, in source order, as a `list ashape`
    (Model/LogBytes.v): ALineNl = write_all(line.as_bytes()) where `line` is `serde_json::to_string(event)`
    with `line.push('\n')` before the write; ABody = the same without the push; ANl = write_all(b"\n");
    AStream = serde_json::to_writer(writer, ..); AFlush = flush(); AOther = anything else touching the
    writer.  Obligation `gen_append_shape_ok`: the shape is [ALineNl; AFlush] - ONE write of frame+LF.
  * crates/rip-log/src/lib.rs, the OPEN path and the READ paths (builder log02d): every file-system effect
    (create_dir_all, OpenOptions chains by their flags, File::open / create, set_len / truncate, remove / rename /
    copy / fs::write, write / write_all / write! / flush / sync, any other fs:: call, libc, Command, unsafe) found in
    the call closure - within this file: free functions, `Type::f(`, `Self::f(`, `self.f(` - of `EventLog::new`
    (`gen_open_effects`) and of every other method of `impl EventLog` except `append` (`gen_read_effects`), in
    source order, as `list oeffect` (Model/LogFile.v).  Obligations: the open path is create_dir_all + ONE
    create+append open and nothing that can cut, create or write (`gen_open_effects_ok`); the readers only open
    for reading (`gen_read_effects_ok`).  A helper called from `new` that does `set_len` (seed C02-10) shows up
    as [..; EOpenWrite; ESetLen].
Emits coq/Gen/LogOpen.v : the facts found as booleans + `gen_log_opened_append_only` (their conjunction)
and the obligation `gen_log_open_ok`.  When a construct is not found the corresponding fact is `false`
(never guess), so the obligation fails.
"""
import argparse, glob, os, re, sys


def strip_comments(s):
    s = re.sub(r"//[^\n]*", "", s)
    return re.sub(r"/\*.*?\*/", "", s, flags=re.S)


def strip_tests(s):
    """drops `#[cfg(test)] mod <name> { ... }` blocks"""
    out = s
    while True:
        m = re.search(r"#\[cfg\(test\)\]\s*(pub\s+)?mod\s+\w+\s*\{", out)
        if not m:
            return out
        depth, j = 1, m.end()
        while depth > 0 and j < len(out):
            depth += {"{": 1, "}": -1}.get(out[j], 0)
            j += 1
        out = out[:m.start()] + out[j:]


def brace_body(src, start):
    depth, j = 1, start
    while depth > 0 and j < len(src):
        depth += {"{": 1, "}": -1}.get(src[j], 0)
        j += 1
    return src[start:j - 1]


DESTRUCTIVE = [r"File::create\s*\(", r"\.set_len\s*\(", r"remove_file\s*\(", r"\brename\s*\(", r"fs::write\s*\(",
               r"\.truncate\s*\(", r"SeekFrom::Start\([^)]*\)\s*\)\s*\?\s*;\s*\n[^\n]*write"]


def extract(repo):
    facts = {"one_open_options": False, "create_and_append": False, "no_truncate_or_write": False,
             "no_destructive_call_in_impl": False, "path_only_opened_for_read": False,
             "ripd_names_log_only_for_eventlog_new": False, "writer_is_bufwriter_or_pure_delegate": False}
    notes = []
    p = os.path.join(repo, "crates", "rip-log", "src", "lib.rs")
    if not os.path.exists(p):
        return facts, ["rip-log/src/lib.rs not found"]
    src = strip_tests(strip_comments(open(p).read()))
    m = re.search(r"impl\s+EventLog\s*\{", src)
    if not m:
        return facts, ["impl EventLog not found"]
    body = brace_body(src, m.end())
    chains = re.findall(r"OpenOptions::new\(\)((?:\s*\.\s*\w+\([^()]*\))+)", body)
    facts["one_open_options"] = len(chains) == 1
    if len(chains) == 1:
        calls = re.findall(r"\.\s*(\w+)\(([^()]*)\)", chains[0])
        flags = {n: a.strip() for n, a in calls}
        facts["create_and_append"] = flags.get("create") == "true" and flags.get("append") == "true"
        facts["no_truncate_or_write"] = "truncate" not in flags and "write" not in flags and "create_new" not in flags
        notes.append("EventLog opener: " + " ".join(f".{n}({a})" for n, a in calls))
    hits = [pat for pat in DESTRUCTIVE if re.search(pat, body)]
    facts["no_destructive_call_in_impl"] = not hits
    if hits:
        notes.append("destructive calls inside impl EventLog: " + ", ".join(hits))
    uses = re.findall(r"(\w+(?:::\w+)*)\s*\(\s*&?\s*self\.path\b", body)
    other = [u for u in uses if u not in ("File::open",)]
    # `self.path` may also appear in the constructor (`Self { path, .. }`) - that is not a use of `self.path`
    facts["path_only_opened_for_read"] = len(uses) >= 1 and not other
    if other:
        notes.append("self.path handed to: " + ", ".join(other))
    # the writer behind `self.writer`: a BufWriter<File> itself, or a wrapper type of this file that only
    # delegates (its Write impl calls write_all / flush of the inner writer once each, opens no file, has no
    # destructive call) - otherwise the writer calls read off `append` would not be calls on a BufWriter
    facts["writer_is_bufwriter_or_pure_delegate"] = False
    wt = re.search(r"\bwriter\s*:\s*Mutex\s*<\s*([\w<>:\s]+?)\s*>\s*,", src)
    if wt:
        ty = re.sub(r"\s+", "", wt.group(1))
        if ty == "BufWriter<File>":
            facts["writer_is_bufwriter_or_pure_delegate"] = True
            notes.append("EventLog.writer: Mutex<BufWriter<File>>")
        else:
            blocks = []
            for mm in re.finditer(r"\b(?:struct\s+" + re.escape(ty) + r"|impl\s+" + re.escape(ty) + r"|impl\s+(?:io::|std::io::)?Write\s+for\s+" + re.escape(ty) + r")\s*\{", src):
                blocks.append((mm.group(0), brace_body(src, mm.end())))
            wimpl = [b for h, b in blocks if "Write" in h and "for" in h]
            strct = [b for h, b in blocks if h.startswith("struct")]
            ok = len(wimpl) == 1 and len(strct) == 1 and re.search(r"BufWriter\s*<\s*File\s*>", strct[0]) is not None
            if ok:
                fns = {}
                for fm in re.finditer(r"\bfn\s+(\w+)\s*\(", wimpl[0]):
                    j = wimpl[0].find("{", fm.end())
                    fns[fm.group(1)] = brace_body(wimpl[0], j + 1)
                wa, fl = fns.get("write_all", ""), fns.get("flush", "")
                ok = len(re.findall(r"\.\s*write_all\s*\(", wa)) == 1 and not re.search(r"\.\s*write\s*\(", wa) \
                    and len(re.findall(r"\.\s*flush\s*\(", fl)) == 1 and not re.search(r"\.\s*write(_all)?\s*\(", fl)
                every = " ".join(b for _, b in blocks)
                bad_calls = [pat for pat in DESTRUCTIVE + [r"\bFile::\w+\s*\(", r"OpenOptions", r"\.\s*seek\s*\("] if re.search(pat, every)]
                ok = ok and not bad_calls
                # a closure-taking helper (`guarded`) must run the operation exactly once
                helper = [b for h, b in blocks if h.startswith("impl") and "Write" not in h]
                for hb in helper:
                    if re.search(r"\bop\s*:", hb) and len(re.findall(r"\bop\s*\(", hb)) != 1:
                        ok = False
                if bad_calls:
                    notes.append(f"writer type {ty}: calls that open / move / cut files: " + ", ".join(bad_calls))
            facts["writer_is_bufwriter_or_pure_delegate"] = bool(ok)
            notes.append(f"EventLog.writer: Mutex<{ty}>, a wrapper that only delegates write_all / flush to its BufWriter<File>: {bool(ok)}")
    else:
        notes.append("EventLog: field `writer: Mutex<..>` not found")
    bad = []
    n_ok = 0
    for f in sorted(glob.glob(os.path.join(repo, "crates", "ripd", "src", "**", "*.rs"), recursive=True)):
        if f.endswith("_tests.rs") or f.endswith("/tests.rs"):
            continue
        s = strip_tests(strip_comments(open(f).read()))
        for mm in re.finditer(r'"events\.jsonl"', s):
            pre = s[max(0, mm.start() - 120):mm.start()]
            if re.search(r"EventLog::new\(\s*[\w\.\(\)&]*\.join\(\s*$", pre):
                n_ok += 1
            else:
                bad.append(f"{os.path.relpath(f, repo)}: ...{pre[-60:].strip()}\"events.jsonl\"")
    facts["ripd_names_log_only_for_eventlog_new"] = n_ok >= 1 and not bad
    notes.append(f"ripd: {n_ok} EventLog::new(..join(\"events.jsonl\")) site(s), {len(bad)} other mention(s)")
    notes += bad
    return facts, notes


def append_shape(repo):
    """the writer calls of EventLog::append in source order (None: function not found)"""
    p = os.path.join(repo, "crates", "rip-log", "src", "lib.rs")
    if not os.path.exists(p):
        return None, ["rip-log/src/lib.rs not found"]
    src = strip_tests(strip_comments(open(p).read()))
    m = re.search(r"impl\s+EventLog\s*\{", src)
    if not m:
        return None, ["impl EventLog not found"]
    body = brace_body(src, m.end())
    fm = re.search(r"pub\s+fn\s+append\s*\(\s*&self\s*,\s*(\w+)\s*:\s*&Event\s*\)[^{]*\{", body)
    if not fm:
        return None, ["fn append(&self, _: &Event) not found in impl EventLog"]
    ev = fm.group(1)
    fb = brace_body(body, fm.end())
    # verification hook statements are no writer calls
    fb = re.sub(r"#\[cfg\(rip_verif\)\]\s*rip_kernel::verif::point\([^)]*\)\s*;", "", fb)
    wm = re.search(r"let\s+mut\s+(\w+)\s*=\s*self\s*\.\s*writer\s*\.\s*lock\s*\(\s*\)", fb)
    if not wm:
        return None, ["`let mut <w> = self.writer.lock()` not found in EventLog::append"]
    w = wm.group(1)
    rest = fb[wm.end():]
    notes = []
    # the String the frame is printed into: `let mut line = serde_json::to_string(<ev>)`
    lm = re.search(r"let\s+(?:mut\s+)?(\w+)\s*=\s*serde_json::to_string\(\s*" + re.escape(ev) + r"\s*\)", rest)
    line = lm.group(1) if lm else None
    events = []  # (position, shape)
    for mm in re.finditer(r"serde_json::to_writer(?:_pretty)?\s*\(", rest):
        events.append((mm.start(), "AStream"))
    for mm in re.finditer(r"\b" + re.escape(w) + r"\s*\.\s*(\w+)\s*\(", rest):
        meth = mm.group(1)
        # argument text up to the matching parenthesis
        depth, j = 1, mm.end()
        while depth > 0 and j < len(rest):
            depth += {"(": 1, ")": -1}.get(rest[j], 0)
            j += 1
        arg = re.sub(r"\s+", "", rest[mm.end():j - 1])
        if meth == "flush" and arg == "":
            events.append((mm.start(), "AFlush"))
        elif meth == "write_all" and line and arg == f"{line}.as_bytes()":
            pushed = re.search(re.escape(line) + r"\s*\.\s*push\(\s*'\\n'\s*\)\s*;", rest[lm.end():mm.start()]) is not None
            other_mut = re.findall(re.escape(line) + r"\s*\.\s*(\w+)\s*\(", rest[lm.end():mm.start()])
            if pushed and other_mut == ["push"]:
                events.append((mm.start(), "ALineNl"))
            elif not other_mut:
                events.append((mm.start(), "ABody"))
            else:
                events.append((mm.start(), "AOther"))
        elif meth == "write_all" and arg in ('b"\\n"', "b\"\\n\"", "&[b'\\n']", "&[10]", "b\"\\x0a\""):
            events.append((mm.start(), "ANl"))
        else:
            events.append((mm.start(), "AOther"))
            notes.append(f"EventLog::append: unclassified writer call {w}.{meth}({arg[:40]})")
    # the writer handed to a macro or another function (`write!(writer, ..)`, `f(&mut writer)`) is unclassifiable
    for mm in re.finditer(r"(?<![\w.])(?:&mut\s*\*?\s*|&\s*)?\*?" + re.escape(w) + r"\b(?!\s*\.)", rest):
        pre = rest[max(0, mm.start() - 40):mm.start()]
        if re.search(r"serde_json::to_writer(?:_pretty)?\s*\(\s*$", pre):
            continue
        events.append((mm.start(), "AOther"))
        notes.append("EventLog::append: the writer is passed on: ..." + pre[-30:].strip())
    events.sort()
    shape = [s for _, s in events]
    notes.append("EventLog::append writer calls: " + " ".join(shape))
    return shape, notes


# ---------- file-system effects in the call closure of the open path and of the read paths ----------
# (pattern, effect) in the order they are tried at one source position; first match wins
EFFECT_PATTERNS = [
    (r"fs::create_dir_all\s*\(", "EMkdirParents"),
    (r"File::open\s*\(", "EOpenRead"),
    (r"File::create(?:_new)?\s*\(", "ECreateFile"),
    (r"File::options\s*\(", "EOpenWrite"),
    (r"\.\s*set_len\s*\(", "ESetLen"),
    (r"\.\s*truncate\s*\(", "ESetLen"),
    (r"\b(?:fs::)?(?:remove_file|remove_dir_all|remove_dir|rename|hard_link|copy|soft_link|symlink)\s*\(", "ERemoveOrRename"),
    (r"fs::write\s*\(", "ERemoveOrRename"),
    (r"\.\s*(?:write_all|write|write_vectored|write_fmt|write_at|write_all_at|flush|sync_all|sync_data)\s*\(", "EWrite"),
    (r"\b(?:write|writeln)!\s*\(", "EWrite"),
    (r"\bio::copy\s*\(", "EWrite"),
    (r"\bfs::(?!create_dir_all\b|read\b|read_to_string\b|metadata\b|read_dir\b|symlink_metadata\b|canonicalize\b|File\b|OpenOptions\b|self\b)\w+\s*\(", "EOther"),
    (r"\blibc::\w+\s*\(", "EOther"),
    (r"\bCommand::new\s*\(", "EOther"),
    (r"\bunsafe\b", "EOther"),
]


def functions_of(src):
    """{qualified name: body} for every `fn` of the (comment- and test-free) source: `Type::name` inside
    `impl Type {` / `impl Trait for Type {`, bare `name` at top level"""
    out = {}
    impls = []
    for m in re.finditer(r"\bimpl\b(?:\s*<[^>]*>)?\s+(?:[\w:]+\s+for\s+)?(\w+)[^{;]*\{", src):
        body = brace_body(src, m.end())
        impls.append((m.end(), m.end() + len(body), m.group(1)))
    for fm in re.finditer(r"\bfn\s+(\w+)\s*(?:<[^>]*>)?\s*\(", src):
        j = src.find("{", fm.end())
        semi = src.find(";", fm.end())
        if j < 0 or (0 <= semi < j):
            continue
        owner = [t for (a, b, t) in impls if a <= fm.start() < b]
        name = (owner[-1] + "::" if owner else "") + fm.group(1)
        out.setdefault(name, "")
        out[name] += "\n" + brace_body(src, j + 1)
    return out


def open_options_effect(flags):
    names = {n: a.strip() for n, a in flags}
    if names.get("open") is None:
        return "EOther"
    on = {n for n, a in names.items() if n != "open" and a == "true"}
    off = {n for n, a in names.items() if n != "open" and a == "false"}
    if set(names) - {"open"} != on | off:
        return "EOther"  # a flag whose value is not a literal
    if on == {"create", "append"}:
        return "EOpenCreateAppend"
    if on == {"read"}:
        return "EOpenRead"
    return "EOpenWrite"


def effects_in(body):
    """file-system effects of one function body, in source order"""
    found = []
    chains = []
    for m in re.finditer(r"OpenOptions::new\(\)((?:\s*\.\s*\w+\([^()]*\))*)", body):
        found.append((m.start(), open_options_effect(re.findall(r"\.\s*(\w+)\(([^()]*)\)", m.group(1)))))
        chains.append((m.start(), m.end()))
    for i in range(len(body)):
        if any(a <= i < b for a, b in chains):
            continue  # `.write(true)` of an OpenOptions chain is a flag, not a write
        for pat, eff in EFFECT_PATTERNS:
            m = re.compile(pat).match(body, i)
            if m:
                found.append((i, eff))
                break
    found.sort()
    return [e for _, e in found]


def closure_effects(fns, roots, owner):
    """effects of the roots and of every function of this file they can reach (calls by name: `name(` for a
    top-level fn, `Type::name(`, `Self::name(` / `self.name(` for methods of `owner`), depth first in source order"""
    seen, order = set(), []

    def visit(q):
        if q in seen or q not in fns:
            return
        seen.add(q)
        order.append(q)
        body = fns[q]
        cur_owner = q.split("::")[0] if "::" in q else owner
        calls = []
        for m in re.finditer(r"(?<![\w:.])(\w+)\s*\(", body):
            if m.group(1) in fns:
                calls.append((m.start(), m.group(1)))
        for m in re.finditer(r"\b(\w+)::(\w+)\s*\(", body):
            t = cur_owner if m.group(1) == "Self" else m.group(1)
            if f"{t}::{m.group(2)}" in fns:
                calls.append((m.start(), f"{t}::{m.group(2)}"))
        for m in re.finditer(r"\bself\s*\.\s*(\w+)\s*\(", body):
            if f"{cur_owner}::{m.group(1)}" in fns:
                calls.append((m.start(), f"{cur_owner}::{m.group(1)}"))
        for _, c in sorted(calls):
            visit(c)

    for r in roots:
        visit(r)
    effects = []
    for q in order:
        effects += effects_in(fns[q])
    return effects, order


READERS = ["replay", "replay_validated", "replay_stream", "replay_session", "last_seq"]


def open_read_effects(repo):
    p = os.path.join(repo, "crates", "rip-log", "src", "lib.rs")
    if not os.path.exists(p):
        return None, None, ["rip-log/src/lib.rs not found"]
    src = strip_tests(strip_comments(open(p).read()))
    src = re.sub(r"#\[cfg\(rip_verif\)\]\s*rip_kernel::verif::point\([^)]*\)\s*;", "", src)
    fns = functions_of(src)
    notes = []
    if "EventLog::new" not in fns:
        return None, None, ["fn new of impl EventLog not found"]
    oe, oorder = closure_effects(fns, ["EventLog::new"], "EventLog")
    notes.append("EventLog::new reaches: " + ", ".join(oorder) + " ; effects: " + " ".join(oe))
    # every method of impl EventLog other than the constructor and the writer is a reader
    methods = [q for q in fns if q.startswith("EventLog::") and q not in ("EventLog::new", "EventLog::append")]
    missing = [r for r in READERS if f"EventLog::{r}" not in fns]
    if missing:
        notes.append("readers not found: " + ", ".join(missing))
        return oe, None, notes
    re_, rorder = closure_effects(fns, methods, "EventLog")
    notes.append("EventLog readers (" + ", ".join(m.split('::')[1] for m in methods) + ") reach: " + ", ".join(rorder) + " ; effects: " + " ".join(re_))
    return oe, re_, notes


def coq_bool(b):
    return "true" if b else "false"


def main():
    ap = argparse.ArgumentParser()
    ap.add_argument("--repo", required=True)
    ap.add_argument("--out", required=True)
    a = ap.parse_args()
    facts, notes = extract(a.repo)
    names = list(facts.keys())
    shape, snotes = append_shape(a.repo)
    notes += snotes
    lines = ["(* GENERATED by tools/gen/log_open.py from crates/rip-log/src/lib.rs and crates/ripd/src - do not edit.",
             "   How the truth log is opened and who names its path; the writer calls of EventLog::append (C02, T1). *)",
             "From RipV Require Import Base.Prelude Model.Frames Model.Log Model.LogBytes Model.LogFile.", ""]
    for n in names:
        lines.append(f"Definition gen_log_{n} : bool := {coq_bool(facts[n])}.")
    lines.append("")
    lines.append("Definition gen_log_opened_append_only : bool :=\n  " + " && ".join(f"gen_log_{n}" for n in names) + ".")
    lines.append("")
    lines.append("Lemma gen_log_open_ok : gen_log_opened_append_only = true.")
    lines.append("Proof. vm_compute. reflexivity. Qed.")
    lines.append("")
    lines.append("(* the calls EventLog::append makes on its BufWriter, in source order (AOther alone: not found) *)")
    lines.append("Definition gen_append_shape : list ashape := [" + "; ".join(shape if shape is not None else ["AOther"]) + "].")
    lines.append("")
    lines.append("Lemma gen_append_shape_ok : shape_single_write gen_append_shape = true.")
    lines.append("Proof. vm_compute. reflexivity. Qed.")
    oe, re_, enotes = open_read_effects(a.repo)
    notes += enotes
    lines.append("")
    lines.append("(* file-system effects in the call closure of EventLog::new / of the readers of impl EventLog, in source")
    lines.append("   order (EOther alone: not found) *)")
    lines.append("Definition gen_open_effects : list oeffect := [" + "; ".join(oe if oe is not None else ["EOther"]) + "].")
    lines.append("Definition gen_read_effects : list oeffect := [" + "; ".join(re_ if re_ is not None else ["EOther"]) + "].")
    lines.append("")
    lines.append("Lemma gen_open_effects_ok : open_effects_ok gen_open_effects = true.")
    lines.append("Proof. vm_compute. reflexivity. Qed.")
    lines.append("")
    lines.append("Lemma gen_read_effects_ok : read_effects_ok gen_read_effects = true.")
    lines.append("Proof. vm_compute. reflexivity. Qed.")
    os.makedirs(a.out, exist_ok=True)
    open(os.path.join(a.out, "LogOpen.v"), "w").write("\n".join(lines) + "\n")
    for n in notes:
        print(n)
    print("facts:", {k: v for k, v in facts.items()})
    return 0


if __name__ == "__main__":
    sys.exit(main())
