#!/usr/bin/env python3
"""T1 extractor for C05: the ORDER of file-system effects, named crash points and counter updates in rip's
write paths, read from the Rust source, as lists of the codes of coq/Model/Crash.v (`instr_code`).

Sources (non-test part, comments stripped) and what is read from each function body, by position:
  rip-log/src/lib.rs        EventLog::append        points log.*, write_all( -> 101, .flush() -> 102
                                                    + is the flush unconditional (brace depth of the fn body)?
                                                    + is "\\n" pushed onto the line before the (single) write?
  ripd/continuity_stream_cache.rs
       append_best_effort                           OpenOptions..append(true) -> 103, write_all( -> 104, .flush() -> 105,
                                                    points cache.side.*; then the derived caches in order
                                                    (seek index 201, message index 202, cache.side.indexed 203,
                                                     mr sidecar 204, cache.mr.done 205, comp sidecar 206)
       rebuild_best_effort                          File::create(&tmp_path) -> 115, write_all -> 116, flush -> 117,
                                                    fs::rename(&tmp_path, &path) -> 118, points cache.rebuild.*
                                                    (in place, before the S3-live repair: File::create -> 112, 104, 105)
  ripd/continuities.rs
       the 11 locked append_* functions             points cont.*, lock 121, next_seq.get 123, load_next_seq_for 124,
                                                    insert(.., seq) 122, event_log.append -> <EventLog::append>,
                                                    stream_cache.append_best_effort -> <full sidecar part>,
                                                    sender.send 120, insert(.., seq + 1) 106
       create_continuity / create_continuity_locked continuities.insert -> 107, save_index( -> <save_index>, insert(.., 1) -> 106
       branch / handoff                             create_continuity_locked( -> <its list>, write_bundle_v1( -> <write_blob_atomic>
       compaction_checkpoint_cumulative_v1 and every other caller of write_compaction_summary_v1:
                                                    the artifact write precedes append_compaction_checkpoint_created(
       save_index                                   fs::write -> 108, fs::rename -> 109, points idx.*
       load_next_seq_for                            last_seq( 130, try_read_last_seq( 131, replay_stream( 132,
                                                    rebuild_best_effort( 133, replay_events_locked( 134
  ripd/compaction_summary.rs, handoff_context_bundle.rs   write_blob_atomic: fs::write -> 110, fs::rename -> 111, points art.*

Emits coq/Gen/CrashEffects.v: the lists, `gen_ver` (which code version the source is: one-write truth append,
the log decides the next seq, flush after every frame) and the obligations: every list restricted to the modelled
codes (< 120) EQUALS the skeleton of the model's compiled program (`skel (truth_append fixed f)`, `skel (locked_append
fixed st_warm ..)`, `skel (create ..)`, `skel (child ..)`, `skel (write_blob a ++ ..)`, ..), every full list equals the
spec list (position of lock / resolve / broadcast), and `gen_ver = fixed`.  A function or marker that is not found
yields an empty list / false (never guess), so the obligation fails.
"""
import argparse, os, re, sys

POINTS = {
    "log.before_lock": 1, "log.locked": 2, "log.body_written": 3, "log.nl_written": 4, "log.flushed": 5,
    "cont.before_lock": 11, "cont.locked": 12, "cont.logged": 13, "cont.sidecar": 14, "cont.bcast": 15,
    "cont.advanced": 16, "cont.before_setnext": 17, "cont.setnext": 18, "cont.index_saved": 19,
    "cache.side.opened": 21, "cache.side.body": 22, "cache.side.nl": 23, "cache.side.flushed": 24,
    "idx.before_tmp": 51, "idx.tmp_written": 52, "idx.renamed": 53,
    "art.before_tmp": 54, "art.tmp_written": 55, "art.renamed": 56,
    "cache.rebuild.created": 61, "cache.rebuild.body": 62, "cache.rebuild.nl": 63, "cache.rebuild.flushed": 64,
    "cache.side.indexed": 203, "cache.mr.done": 205,
    "snap.created": 71, "snap.written": 72, "snap.flushed": 73,
}
LOCKED = ["append_message", "append_run_spawned", "append_context_selection_decided", "append_context_compiled",
          "append_provider_cursor_updated", "append_compaction_checkpoint_created",
          "append_compaction_auto_schedule_decided", "append_job_spawned", "append_job_ended", "append_run_ended",
          "append_tool_side_effects"]


def strip_comments(s):
    s = re.sub(r"//[^\n]*", "", s)
    return re.sub(r"/\*.*?\*/", "", s, flags=re.S)


def strip_tests(s):
    out = s
    while True:
        m = re.search(r"#\[cfg\(test\)\]\s*(pub\s+)?mod\s+\w+\s*\{", out)
        if not m:
            return out
        depth, j = 1, m.end()
        while depth > 0 and j < len(out):
            depth += {"{": 1, "}": -1}.get(out[j], 0)
            j += 1
        out = out[:m.start()] + out[j:]


def load(repo, rel):
    p = os.path.join(repo, rel)
    if not os.path.exists(p):
        return ""
    return strip_tests(strip_comments(open(p).read()))


def fn_body(src, name):
    """body of `fn name(` (first definition): text between the braces, or None"""
    m = re.search(r"\bfn\s+" + re.escape(name) + r"\s*(<[^>]*>)?\s*\(", src)
    if not m:
        return None
    # end of the parameter list
    depth, j = 1, m.end()
    while depth > 0 and j < len(src):
        depth += {"(": 1, ")": -1}.get(src[j], 0)
        j += 1
    k = src.find("{", j)
    semi = src.find(";", j)
    if k < 0 or (0 <= semi < k):
        return None
    depth, e = 1, k + 1
    while depth > 0 and e < len(src):
        depth += {"{": 1, "}": -1}.get(src[e], 0)
        e += 1
    return src[k + 1:e - 1]


# ---- ANY file-system effect (code 197 = an effect the model does not know).  Every function body the extractor
# reads is scanned with these patterns as well; a match that no specific pattern of that function claims (same
# text position) puts 197 into the list at its position, so the obligation fails: an effect ADDED to a write
# path (an unlink before the rename, a second write, a truncate, a sync ..) can never go unnoticed just because
# the extractor was only looking for the effects it already knew.
FS_READONLY = {"read", "read_to_string", "read_dir", "metadata", "symlink_metadata", "canonicalize", "exists",
               "try_exists", "read_link", "create_dir_all", "create_dir"}   # mkdir -p is idempotent and holds no data
GENERIC_EFFECTS = [
    (r"\b(?:std::)?fs::(\w+)\s*\(", lambda m: None if m.group(1) in FS_READONLY else 197),
    (r"\bFile::(\w+)\s*\(", lambda m: None if m.group(1) == "open" else 197),
    (r"\bOpenOptions\b", 197),
    (r"\.(write_all|write_fmt|write_vectored|write_all_at|write_at|write_all_vectored|sync_all|sync_data|set_len|"
     r"set_permissions|set_modified|seek|rewind|persist|persist_noclobber)\s*\(", 197),
    (r"\.write\s*\(\s*[^)\s]", 197),                      # .write(buf): not RwLock::write()
    (r"\.flush\s*\(", 197),
    (r"\b(write|writeln)!\s*\(", 197),
    (r"(?<![\w:.])(remove_file|remove_dir|remove_dir_all|rename|hard_link|copy|symlink|truncate)\s*\(", 197),
]
UNKNOWN_SEEN = []


def tokens(body, pats, strict=True):
    """pats: list of (regex, code or callable(match) -> code/list/None); returns [(pos, codes)] sorted.
    strict: every generic file-system effect in the body that no pattern claims yields code 197 at its position"""
    out, spans = [], []
    for rx, code in pats:
        for m in re.finditer(rx, body):
            c = code(m) if callable(code) else code
            if c is None:
                continue
            out.append((m.start(), c if isinstance(c, list) else [c]))
            spans.append((m.start(), m.end()))
    if strict:
        seen = set()
        for rx, code in GENERIC_EFFECTS:
            for m in re.finditer(rx, body):
                c = code(m) if callable(code) else code
                if c is None or any(a < m.end() and m.start() < b for a, b in spans) or m.start() in seen:
                    continue
                seen.add(m.start())
                out.append((m.start(), [c]))
                UNKNOWN_SEEN.append(body[max(0, m.start() - 20):m.end() + 20].replace("\n", " "))
    out.sort(key=lambda x: x[0])
    return out


# callee / macro names allowed in the two leaf writers (save_index, write_blob_atomic): everything else (a helper
# that might touch the file system) is an unknown effect too
LEAF_PURE = {"Some", "Ok", "Err", "parent", "create_dir_all", "to_string_pretty", "to_vec_pretty", "to_vec", "to_string",
             "map_err", "new", "with_extension", "point", "write", "rename", "format", "join", "blobs_dir", "clone",
             "artifacts_blobs_dir", "as_bytes", "as_ref", "display", "into", "to_path_buf", "as_path", "cfg", "if", "let", "match", "fn", "return"}


def leaf_unknown_calls(body):
    names = [m.group(1) for m in re.finditer(r"\b(\w+)\s*!?\s*\(", body)]
    return sorted({n for n in names if n not in LEAF_PURE})


def flat(toks):
    return [c for _, cs in toks for c in cs]


def depth_at(body, pos):
    d = 0
    for ch in body[:pos]:
        d += {"{": 1, "}": -1}.get(ch, 0)
    return d


def point_pat(allowed=None):
    def f(m):
        c = POINTS.get(m.group(1))
        if c is None or (allowed is not None and c not in allowed):
            return None
        return c
    return (r'verif::point\("([a-z_.]+)"\)', f)


def extract(repo):
    notes = []
    g = {}
    log = load(repo, "crates/rip-log/src/lib.rs")
    cache = load(repo, "crates/ripd/src/continuity_stream_cache.rs")
    cont = load(repo, "crates/ripd/src/continuities.rs")
    summ = load(repo, "crates/ripd/src/compaction_summary.rs")
    bund = load(repo, "crates/ripd/src/handoff_context_bundle.rs")

    # ---- EventLog::append
    g["log_append"], g["flush_unconditional"], g["newline_in_line"] = [], False, False
    m = re.search(r"impl\s+EventLog\s*\{", log)
    body = fn_body(log[m.end():], "append") if m else None
    if body is not None:
        t = tokens(body, [point_pat(), (r"\.write_all\(", 101), (r"\.flush\(\)", 102)])
        g["log_append"] = flat(t)
        fl = [p for p, c in t if c == [102]]
        g["flush_unconditional"] = len(fl) == 1 and depth_at(body, fl[0]) == 0
        wr = [p for p, c in t if c == [101]]
        nl = re.search(r"\.push\('\\n'\)", body)
        g["newline_in_line"] = len(wr) == 1 and nl is not None and nl.start() < wr[0] and depth_at(body, wr[0]) == 0
    else:
        notes.append("EventLog::append not found")

    # ---- write_snapshot (not in the model: the list is compared with a literal): File::create 140, the ONE write_all of
    #      the whole payload 141, flush 142
    body = fn_body(log, "write_snapshot")
    g["snapshot"] = flat(tokens(body, [point_pat({71, 72, 73}), (r"File::create\(", 140), (r"\.write_all\(", 141), (r"\.flush\(\)", 142)])) if body is not None else []

    # ---- session.rs: the snapshot of a session is written from the in-memory buffer AFTER the last frame was emitted
    #      (emit_event pushes to the buffer and appends to the log under the buffer lock): no emit_event( / emit_events(
    #      after write_snapshot( in the function that calls it, and emit_event appends to the log
    sess = load(repo, "crates/ripd/src/session.rs")
    g["snapshot_after_emits"] = False
    for m in re.finditer(r"\bfn\s+(\w+)\s*(<[^>]*>)?\s*\(", sess):
        b = fn_body(sess[m.start():], m.group(1))
        if b is None or "write_snapshot(" not in b:
            continue
        w = b.rfind("write_snapshot(")
        g["snapshot_after_emits"] = re.search(r"\bemit_events?\(", b[w:]) is None and re.search(r"\bemit_events?\(", b[:w]) is not None
        break
    b = fn_body(sess, "emit_event")
    if b is None or re.search(r"event_log\s*\.append\(", b) is None or b.find(".push(") > b.find(".append("):
        g["snapshot_after_emits"] = False

    # ---- append_best_effort: full sidecar part, then the derived caches
    g["side_append"], g["derived_order"] = [], []
    body = fn_body(cache, "append_best_effort")
    if body is not None:
        t = tokens(body, [point_pat(), (r"OpenOptions::new\(\)[^;]*?\.append\(true\)", 103), (r"\.write_all\(", 104), (r"\.flush\(\)", 105),
                          (r"append_seq_index_entry_best_effort\(", 201), (r"insert_message_best_effort_v1\(", 202),
                          (r"self\.append_messages_runs_best_effort_v1\(", 204), (r"self\.append_compaction_checkpoints_best_effort_v1\(", 206)])
        codes = flat(t)
        if 24 in codes:
            k = codes.index(24)
            g["side_append"], g["derived_order"] = codes[:k + 1], codes[k + 1:]
    else:
        notes.append("append_best_effort not found")

    # ---- rebuild_best_effort (full sidecar part)
    g["rebuild"] = []
    body = fn_body(cache, "rebuild_best_effort")
    if body is not None:
        # the failure branch (a write, the flush or the rename failed: both files are removed, readers fall back to the
        # log) is not a crash path; its exact shape is taken out, anything else that removes a file stays an unknown effect
        fail_branch = re.compile(r"if\s*!\s*complete\s*\|\|\s*(fs::rename\(\s*&tmp_path\s*,\s*&path\s*\))\s*\.is_err\(\)\s*\{\s*"
                                 r"let\s+_\s*=\s*fs::remove_file\(\s*&tmp_path\s*\)\s*;\s*let\s+_\s*=\s*fs::remove_file\(\s*&path\s*\)\s*;\s*return\s*;\s*\}")
        body = fail_branch.sub(lambda m: m.group(1) + ";", body)
        if re.search(r"File::create\(\s*&tmp_path\s*\)", body):
            # temporary file + rename (the S3-live repair): 115 create tmp, 116 write, 117 flush, 118 rename over the sidecar
            t = tokens(body, [point_pat(set(range(61, 65))), (r"File::create\(\s*&tmp_path\s*\)", 115), (r"\.write_all\(", 116), (r"\.flush\(\)", 117),
                              (r"fs::rename\(\s*&tmp_path\s*,\s*&path\s*\)", 118)])
        else:
            t = tokens(body, [point_pat(set(range(61, 65))), (r"File::create\(", 112), (r"\.write_all\(", 104), (r"\.flush\(\)", 105)])
        g["rebuild"] = flat(t)

    # ---- save_index, write_blob_atomic (both copies)
    body = fn_body(cont, "save_index")
    g["save_index"] = flat(tokens(body, [point_pat(), (r"fs::write\(", 108), (r"fs::rename\(", 109),
                                         # 114 = IIdxRemove: not in rip's save_index; with it the list is the skeleton of the
                                         # REFUTED variant (Model/Crash.v unlink_first, Props c05_unlink_then_rename_refuted)
                                         (r"fs::remove_file\(", 114)])) if body is not None else []
    g["leaf_calls_ok"] = True
    if body is not None and leaf_unknown_calls(body):
        g["leaf_calls_ok"] = False
        notes.append(f"save_index calls something the extractor does not know: {leaf_unknown_calls(body)}")
    g["write_blob"] = []
    blobs = []
    for src, nm in ((summ, "compaction_summary.rs"), (bund, "handoff_context_bundle.rs")):
        body = fn_body(src, "write_blob_atomic")
        blobs.append(flat(tokens(body, [point_pat(), (r"fs::write\(", 110), (r"fs::rename\(", 111)])) if body is not None else [])
        if body is not None and leaf_unknown_calls(body):
            g["leaf_calls_ok"] = False
            notes.append(f"write_blob_atomic ({nm}) calls something the extractor does not know: {leaf_unknown_calls(body)}")
    if blobs[0] and blobs[0] == blobs[1]:
        g["write_blob"] = blobs[0]
    else:
        notes.append(f"write_blob_atomic differs or missing: {blobs}")
    # the public writers go through write_blob_atomic
    g["writers_use_atomic"] = all(
        (b := fn_body(src, fn)) is not None and "write_blob_atomic(" in b
        for src, fn in ((summ, "write_compaction_summary_v1"), (bund, "write_bundle_v1")))

    # ---- continuities.rs
    def cont_tokens(body):
        def ins(m):
            arg = m.group(1).strip()
            if re.fullmatch(r"seq\s*\+\s*1", arg):
                return 106
            if re.fullmatch(r"\d+", arg):
                return 106
            if arg == "seq":
                return 122
            return 199  # an update of the counter the model does not know
        return tokens(body, [
            point_pat(set(range(11, 20))),
            (r"self\s*\.next_seq\s*\.lock\(\)", 121), (r"next_seq\s*\.get\(", 123), (r"\.load_next_seq_for\(", 124),
            (r"next_seq\s*\.insert\(\s*[^,;]*,\s*([^;]*?)\s*\)\s*;", ins),
            (r"\.event_log\s*\.append\(", lambda m: list(g["log_append"]) or [198]),
            (r"stream_cache\s*\.append_best_effort\(", lambda m: list(g["side_append"]) or [198]),
            (r"\.sender\s*\.send\(", 120),
            (r"\.continuities\s*\.insert\(", 107),
            (r"\bsave_index\(", lambda m: list(g["save_index"]) or [198]),
            (r"self\s*\.create_continuity_locked\(", lambda m: list(g.get("create_locked", [])) or [198]),
            (r"write_bundle_v1\(", lambda m: list(g["write_blob"]) or [198]),
            (r"write_compaction_summary_v1\(", lambda m: list(g["write_blob"]) or [198]),
        ])

    body = fn_body(cont, "create_continuity_locked")
    g["create_locked"] = flat(cont_tokens(body)) if body is not None else []
    # the index save is not under a condition of its own: same brace depth as the insert into the in-memory index
    g["create_saves_always"] = False
    if body is not None:
        a, b = re.search(r"\.continuities\s*\.insert\(", body), re.search(r"\bsave_index\(", body)
        g["create_saves_always"] = bool(a and b and a.start() < b.start() and depth_at(body, a.start()) == depth_at(body, b.start())
                                        and len(re.findall(r"\bsave_index\(", body)) == 1)
    body = fn_body(cont, "create_continuity")
    g["create"] = flat(cont_tokens(body)) if body is not None else []
    g["locked"] = []
    for fn in LOCKED:
        body = fn_body(cont, fn)
        g["locked"].append((fn, flat(cont_tokens(body)) if body is not None else []))
    for fn in ("branch", "handoff"):
        body = fn_body(cont, fn)
        g[fn] = flat(cont_tokens(body)) if body is not None else []

    # ---- cold start of the counter, PER WRITER: a restart forgets next_seq, so the first append of each writer on a
    #      thread runs the `None => ..` arm of its `match next_seq.get(..)`.  Certified = between that `None =>` and
    #      the `next_seq.insert(` the writer calls load_next_seq_for (the log decides, a lagging sidecar is rebuilt)
    #      and nothing else that could yield a seq (only error plumbing is allowed next to it).
    def cold_start_calls(body):
        m = re.search(r"next_seq\s*\.get\(", body)
        if not m:
            return None
        n = re.search(r"\bNone\s*=>", body[m.end():])
        if not n:
            return None
        start = m.end() + n.end()
        i = re.search(r"next_seq\s*\.insert\(", body[start:])
        if not i:
            return None
        span = body[start:start + i.start()]
        calls = re.findall(r"\b([A-Za-z_]\w*)\s*\(", span)
        plumbing = {"map_err", "to_string", "Some", "Ok", "Err", "cloned", "into", "ok_or_else"}
        return [c for c in calls if c not in plumbing]
    g["cold_start"] = []
    for fn in LOCKED:
        body = fn_body(cont, fn)
        calls = cold_start_calls(body) if body is not None else None
        ok = calls == ["load_next_seq_for"]
        g["cold_start"].append((fn, ok))
        if not ok:
            notes.append(f"{fn}: first seq after a cold start does not come from load_next_seq_for alone: {calls}")

    # ---- artifact before frame: every function that calls write_compaction_summary_v1( calls
    #      append_compaction_checkpoint_created( afterwards
    callers, ok = 0, True
    for m in re.finditer(r"\bfn\s+(\w+)\s*(<[^>]*>)?\s*\(", cont):
        b = fn_body(cont[m.start():], m.group(1))
        if b is None or "write_compaction_summary_v1(" not in b:
            continue
        callers += 1
        w = b.find("write_compaction_summary_v1(")
        a = b.find("append_compaction_checkpoint_created(")
        if a < 0 or a < w:
            ok = False
            notes.append(f"{m.group(1)}: artifact write not before the checkpoint frame")
    g["artifact_before_frame"] = callers >= 1 and ok
    notes.append(f"{callers} caller(s) of write_compaction_summary_v1")

    # ---- load_next_seq_for
    body = fn_body(cont, "load_next_seq_for")
    g["load_next"] = flat(tokens(body, [(r"\.last_seq\(", 130), (r"\.try_read_last_seq\(", 131), (r"\.replay_stream\(", 132),
                                        (r"\.rebuild_best_effort\(", 133),
                                        # load_next_seq_for runs under the seq mutex: the variant that does not take it again
                                        (r"self\.replay_events_locked\(", 134), (r"self\.replay_events\(", 199)])) if body is not None else []
    return g, notes


def coq_list(xs):
    return "[" + "; ".join(str(x) for x in xs) + "]"


def coq_bool(b):
    return "true" if b else "false"


def main():
    ap = argparse.ArgumentParser()
    ap.add_argument("--repo", required=True)
    ap.add_argument("--out", required=True)
    a = ap.parse_args()
    g, notes = extract(a.repo)
    L = []
    L.append("(* GENERATED by tools/gen/crash_effects.py from crates/rip-log/src/lib.rs and crates/ripd/src - do not edit.")
    L.append("   Order of file-system effects, crash points and counter updates of rip's write paths (C05, T1). *)")
    L.append("From RipV Require Import Base.Prelude Model.CrashCold Model.Crash.")
    L.append("")
    L.append(f"Definition gen_log_append : list N := {coq_list(g['log_append'])}.")
    L.append(f"Definition gen_log_flush_unconditional : bool := {coq_bool(g['flush_unconditional'])}.")
    L.append(f"Definition gen_log_newline_in_line : bool := {coq_bool(g['newline_in_line'])}.")
    L.append(f"Definition gen_side_append : list N := {coq_list(g['side_append'])}.")
    L.append(f"Definition gen_derived_order : list N := {coq_list(g['derived_order'])}.")
    L.append(f"Definition gen_rebuild : list N := {coq_list(g['rebuild'])}.")
    L.append(f"Definition gen_save_index : list N := {coq_list(g['save_index'])}.")
    L.append("(* rip_log::write_snapshot: create (truncate), ONE write of the whole JSON array, flush - so a crash leaves no file,")
    L.append("   an empty file or the complete snapshot; an empty or cut file does not parse and the readers fall back to the log *)")
    L.append(f"Definition gen_snapshot : list N := {coq_list(g['snapshot'])}.")
    L.append("(* session.rs: write_snapshot comes after the last emit_event of the run; emit_event records then appends to the log *)")
    L.append(f"Definition gen_snapshot_after_emits : bool := {coq_bool(g['snapshot_after_emits'])}.")
    L.append(f"Definition gen_write_blob : list N := {coq_list(g['write_blob'])}.")
    L.append(f"Definition gen_writers_use_atomic : bool := {coq_bool(g['writers_use_atomic'])}.")
    L.append("(* create_continuity_locked saves the index unconditionally (same block as the in-memory insert) *)")
    L.append(f"Definition gen_create_saves_always : bool := {coq_bool(g['create_saves_always'])}.")
    L.append("(* save_index / write_blob_atomic call nothing but the known effects and pure helpers *)")
    L.append(f"Definition gen_leaf_calls_ok : bool := {coq_bool(g['leaf_calls_ok'])}.")
    L.append(f"Definition gen_artifact_before_frame : bool := {coq_bool(g['artifact_before_frame'])}.")
    L.append("Definition gen_locked : list (list N) :=\n  [" + ";\n   ".join(f"(* {fn} *) {coq_list(xs)}" for fn, xs in g["locked"]) + "].")
    L.append(f"Definition gen_create_locked : list N := {coq_list(g['create_locked'])}.")
    L.append(f"Definition gen_create : list N := {coq_list(g['create'])}.")
    L.append(f"Definition gen_branch : list N := {coq_list(g['branch'])}.")
    L.append(f"Definition gen_handoff : list N := {coq_list(g['handoff'])}.")
    L.append(f"Definition gen_load_next : list N := {coq_list(g['load_next'])}.")
    L.append("(* per writer (same order as gen_locked): the `None =>` arm of `match next_seq.get(..)` - the first append after a")
    L.append("   restart - takes the seq from load_next_seq_for and from nothing else (true); false = some other source of a seq")
    L.append("   (e.g. the sidecar's tail through try_read_last_seq) is consulted there *)")
    L.append("Definition gen_cold_start : list bool :=\n  [" + ";\n   ".join(f"(* {fn} *) {coq_bool(ok)}" for fn, ok in g["cold_start"]) + "].")
    L.append("")
    L.append("(* which version of the code the source is *)")
    L.append("Definition gen_ver : ver :=")
    L.append("  {| fw := gen_log_newline_in_line && lN_eqb (filter (N.eqb 101) gen_log_append) [101];")
    L.append("     fr := match gen_load_next with 130 :: _ => true | _ => false end;")
    L.append("     ff := gen_log_flush_unconditional |}.")
    L.append("")
    L.append("Definition fr0 : frame := mkf 0 1 0 10 None.")
    L.append("Definition modelled (l : list N) : list N := filter modelled_code l.")
    L.append("(* position of the source-only effects: lock between cont.before_lock and cont.locked, resolution right after,")
    L.append("   broadcast between cont.sidecar and cont.bcast *)")
    L.append("Definition locked_spec : list N :=")
    L.append("  [11; 121; 12; 123; 124; 122] ++ skel (truth_append fixed fr0) ++ [13] ++ skel (side_append 0 fr0) ++ [14; 120; 15; 106; 16].")
    L.append("Definition create_locked_spec : list N :=")
    L.append("  skel (truth_append fixed fr0) ++ [13] ++ skel (side_append 0 fr0) ++ [14; 120; 15; 107] ++ skel save_index ++ [19; 17; 106; 18].")
    L.append("Definition lineage_spec (pre : list N) : list N :=")
    L.append("  pre ++ [11; 121; 12] ++ create_locked_spec ++ skel (truth_append fixed fr0) ++ [13] ++ skel (side_append 0 fr0) ++ [14; 120; 15; 17; 106; 18].")
    L.append("")
    L.append("Definition gen_crash_effects_ok_b : bool :=")
    L.append("  ver_eqb gen_ver fixed")
    L.append("  && lN_eqb gen_log_append (skel (truth_append fixed fr0))")
    L.append("  && lN_eqb gen_side_append (skel (side_append 0 fr0))")
    L.append("  && lN_eqb gen_derived_order [201; 202; 203; 204; 205; 206]")
    L.append("  && lN_eqb gen_rebuild (skel (rebuild 0 [fr0]))")
    L.append("  && lN_eqb gen_save_index (skel save_index)")
    L.append("  && lN_eqb gen_write_blob (skel (write_blob 0))")
    L.append("  && lN_eqb gen_snapshot (flat_map sinstr_code (snap_prog [])) && gen_snapshot_after_emits")
    L.append("  && gen_writers_use_atomic && gen_artifact_before_frame && gen_leaf_calls_ok && gen_create_saves_always")
    L.append("  && Nat.eqb (length gen_locked) 11")
    L.append("  && forallb (fun l => lN_eqb l locked_spec && lN_eqb (modelled l) (skel (locked_append fixed st_warm 0 0 10 None))) gen_locked")
    L.append("  && lN_eqb gen_create_locked create_locked_spec")
    L.append("  && lN_eqb gen_create ([11; 121; 12] ++ create_locked_spec)")
    L.append("  && lN_eqb (modelled gen_create) (skel (create fixed 0 0 10 true))")
    L.append("  && lN_eqb gen_branch (lineage_spec [])")
    L.append("  && lN_eqb (modelled gen_branch) (skel (child fixed 0 0 10 10 [] None))")
    L.append("  && lN_eqb gen_handoff (lineage_spec (skel (write_blob 0)))")
    L.append("  && lN_eqb (modelled gen_handoff) (skel (write_blob 0 ++ child fixed 0 0 10 10 [] (Some 0)))")
    L.append("  && lN_eqb gen_load_next [130; 131; 132; 133; 131; 134].")
    L.append("")
    L.append("Lemma gen_crash_effects_ok : gen_crash_effects_ok_b = true.")
    L.append("Proof. vm_compute. reflexivity. Qed.")
    L.append("Lemma gen_ver_ok : ver_eqb gen_ver fixed = true.")
    L.append("Proof. vm_compute. reflexivity. Qed.")
    L.append("(* every one of the 11 writers numbers its first frame after a restart from the log (Model/CrashCold.v: FromLog) *)")
    L.append("Lemma gen_cold_start_ok : (Nat.eqb (length gen_cold_start) 11 && forallb (fun b => b) gen_cold_start) = true.")
    L.append("Proof. vm_compute. reflexivity. Qed.")
    os.makedirs(a.out, exist_ok=True)
    open(os.path.join(a.out, "CrashEffects.v"), "w").write("\n".join(L) + "\n")
    for n in notes:
        print(n)
    for u in UNKNOWN_SEEN:
        print("UNKNOWN file-system effect (code 197):", u)
    print("log_append", g["log_append"], "side_append", g["side_append"], "derived", g["derived_order"])
    print("locked[0]", g["locked"][0] if g["locked"] else None)
    print("create_locked", g["create_locked"], "branch", g["branch"], "handoff", g["handoff"], "load_next", g["load_next"])
    return 0


if __name__ == "__main__":
    sys.exit(main())
