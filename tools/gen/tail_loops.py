#!/usr/bin/env python3
"""T1 extractor for C04/C08: reads the five tail-doubling loops of crates/ripd/src/continuities.rs
(constants, presence of the cap break, whether outer accumulators are cleared per scan, whether the
truth replay after the loop also covers a non-exhaustive scan) plus the other window constants the
models use, and writes coq/Gen/TailLoops.v with the obligations

    gen_tail_loops_found : gen_ok_tail_loops = true
    gen_tail_loops_wf    : forallb loop_wf gen_loops = true

Pattern based; anything it cannot find makes gen_ok_tail_loops false (it never guesses).
Usage: tail_loops.py --repo /repo --out coq/Gen      (self-test: tail_loops.py --selftest)"""
import re, sys, os, argparse

LOOPS = [  # (Coq name, Rust function)
    ("compile_input", "load_context_compile_input_recent_messages_v1"),
    ("compaction_status", "compaction_status_v1"),
    ("cursor_status", "provider_cursor_status_v1"),
    ("cursor_rotate", "provider_cursor_rotate_v1"),
    ("selection_status", "context_selection_status_v1"),
]


def strip_comments(src):
    # line comments only (the file has no block comments inside these functions); keep string
    # literals intact well enough: `//` inside a string does not occur in the loop bodies
    return re.sub(r"//[^\n]*", "", src)


def match_brace(src, i):
    """src[i] == '{' -> index of the matching '}' (string literals with braces are rare here and
    balanced: format!("{x}"))."""
    depth = 0
    j = i
    while j < len(src):
        ch = src[j]
        if ch == "{":
            depth += 1
        elif ch == "}":
            depth -= 1
            if depth == 0:
                return j
        j += 1
    return -1


def fn_body(src, name):
    m = re.search(r"\bfn\s+" + re.escape(name) + r"\s*\(", src)
    if not m:
        return None
    i = src.find("{", m.end())
    # skip a `-> Result<..>` clause: the first '{' after the signature's closing paren at depth 0
    depth = 0
    k = m.end() - 1
    while k < len(src):
        if src[k] == "(":
            depth += 1
        elif src[k] == ")":
            depth -= 1
            if depth == 0:
                break
        k += 1
    i = src.find("{", k)
    j = match_brace(src, i)
    if i < 0 or j < 0:
        return None
    return src[i + 1:j]


def const_value(body, name):
    m = re.search(r"const\s+" + name + r"\s*:\s*\w+\s*=\s*([0-9_\s\*]+);", body)
    if not m:
        return None
    v = 1
    for part in m.group(1).split("*"):
        part = part.strip().replace("_", "")
        if not part.isdigit():
            return None
        v *= int(part)
    return v


def enclosing_if_conditions(text):
    """conditions of the `if` blocks that are still open at the end of text"""
    stack = []
    i = 0
    pending_if = None
    for m in re.finditer(r"\bif\b|\{|\}", text):
        tok = m.group(0)
        if tok == "if":
            pending_if = m.end()
        elif tok == "{":
            if pending_if is not None:
                stack.append(("if", text[pending_if:m.start()].strip()))
                pending_if = None
            else:
                stack.append(("blk", ""))
        else:
            if stack:
                stack.pop()
            pending_if = None
    return [c for k, c in stack if k == "if"]


def read_loop(src, fname):
    """-> dict or (None, reason)"""
    body = fn_body(src, fname)
    if body is None:
        return None, f"function {fname} not found"
    ini = const_value(body, "INITIAL_TAIL_BYTES")
    mxb = const_value(body, "MAX_TAIL_BYTES")
    mxe = const_value(body, "MAX_TAIL_EVENTS")
    if None in (ini, mxb, mxe):
        return None, f"{fname}: window constants not found"
    if not re.search(r"let\s+mut\s+tail_bytes\s*=\s*INITIAL_TAIL_BYTES\s*;", body):
        return None, f"{fname}: `let mut tail_bytes = INITIAL_TAIL_BYTES;` not found"
    m = re.search(r"while\s+tail_bytes\s*<=\s*MAX_TAIL_BYTES\b", body)
    if not m:
        return None, f"{fname}: `while tail_bytes <= MAX_TAIL_BYTES` not found"
    i = body.find("{", m.end())
    j = match_brace(body, i)
    if i < 0 or j < 0:
        return None, f"{fname}: loop body not delimited"
    cond_rest = body[m.end():i]
    if "{" in cond_rest or "}" in cond_rest:
        return None, f"{fname}: unexpected loop header"
    loop = body[i + 1:j]
    before, after = body[:m.start()], body[j + 1:]
    if not re.search(r"MAX_TAIL_EVENTS\s*,\s*tail_bytes\s*,?\s*\)", loop):
        return None, f"{fname}: scan call with (MAX_TAIL_EVENTS, tail_bytes) not found"
    dbl = re.search(r"tail_bytes\s*=\s*\(\s*tail_bytes\s*\*\s*2\s*\)\s*\.min\(\s*MAX_TAIL_BYTES\s*\)\s*;", loop)
    if not dbl:
        return None, f"{fname}: doubling statement not found"
    # any other assignment to tail_bytes would invalidate the skeleton
    if len(re.findall(r"\btail_bytes\s*=[^=]", loop)) != 1:
        return None, f"{fname}: tail_bytes assigned more than once in the loop"
    cap = re.search(r"if\s+tail_bytes\s*>=\s*MAX_TAIL_BYTES\s*\{\s*break\s*;\s*\}", loop)
    cap_break = bool(cap) and cap.start() < dbl.start()
    # the cap break must be at the loop's top level (not nested in a match arm)
    if cap_break:
        depth = 0
        for ch in loop[:cap.start()]:
            depth += (ch == "{") - (ch == "}")
        cap_break = depth == 0
    # accumulators: Vecs declared before the loop and pushed to inside it
    clears = True
    accs = []
    for am in re.finditer(r"let\s+mut\s+(\w+)\s*:\s*Vec<[^;=]*>\s*=\s*Vec::new\(\)\s*;", before):
        v = am.group(1)
        pm = re.search(r"\b" + v + r"\.push\(", loop)
        if pm:
            accs.append(v)
            cm = re.search(r"\b" + v + r"\.clear\(\)\s*;", loop)
            if not (cm and cm.start() < pm.start()):
                clears = False
    # fallback guard: the `if` blocks enclosing the first replay_events call after the loop
    rp = re.search(r"\.replay_events\(", after)
    if not rp:
        return None, f"{fname}: no truth replay after the loop"
    guards = enclosing_if_conditions(after[:rp.start()])
    resolved = []
    for g in guards:
        gm = re.fullmatch(r"(\w+)", g)
        if gm:
            dm = re.search(r"let\s+" + gm.group(1) + r"\s*=\s*([^;]*);", after)
            resolved.append(dm.group(1) if dm else g)
        else:
            resolved.append(g)
    covers = True
    for g in resolved:
        ok = ".is_none()" in g
        for fm in re.finditer(r"!\s*(\w+)", g):
            flag = fm.group(1)
            for bm in re.finditer(r"if\s+([^{}]*tail\.complete[^{}]*)\{([^{}]*)\}", loop):
                if re.search(r"\b" + flag + r"\s*=\s*true\s*;", bm.group(2)):
                    ok = True
        covers = covers and ok
    return {"initial": ini, "max_bytes": mxb, "max_events": mxe, "cap_break": cap_break, "clears": clears,
            "fallback": covers, "accs": accs, "guards": resolved}, None


def other_constants(repo):
    out = {}
    def grab(path, name, key):
        p = os.path.join(repo, path)
        if not os.path.exists(p):
            return
        s = strip_comments(open(p).read())
        m = re.search(r"const\s+" + name + r"\s*:\s*\w+\s*=\s*([0-9_\s\*]+);", s)
        if m:
            v = 1
            for part in m.group(1).split("*"):
                v *= int(part.strip().replace("_", ""))
            out[key] = v
    grab("crates/ripd/src/context_compiler.rs", "RECENT_MESSAGES_V1_LIMIT", "recent_limit")
    grab("crates/ripd/src/context_compiler.rs", "HIERARCHICAL_SUMMARIES_V1_MAX_REFS", "hier_max_refs")
    grab("crates/ripd/src/continuity_stream_cache.rs", "REVERSE_SCAN_CHUNK_BYTES", "reverse_chunk")
    grab("crates/ripd/src/continuity_seek_index.rs", "SEEK_INDEX_STRIDE_EVENTS_V1", "seek_stride")
    # the inflight-job scan (single bounded scan, no doubling) and the cursor key cap
    p = os.path.join(repo, "crates/ripd/src/continuities.rs")
    s = strip_comments(open(p).read())
    b = fn_body(s, "find_inflight_compaction_job_id_best_effort_v1")
    if b:
        e, by = const_value(b, "MAX_TAIL_EVENTS"), const_value(b, "MAX_TAIL_BYTES")
        if e and by:
            out["inflight_events"], out["inflight_bytes"] = e, by
    # the checkpoint-sidecar look-up (single bounded scan that must be complete)
    pc = os.path.join(repo, "crates/ripd/src/continuity_stream_cache.rs")
    if os.path.exists(pc):
        bc = fn_body(strip_comments(open(pc).read()), "latest_compaction_checkpoint_before_or_at_seq_v1")
        if bc:
            e, by = const_value(bc, "MAX_BACKSCAN_EVENTS"), const_value(bc, "MAX_BACKSCAN_BYTES")
            if e and by:
                out["ckpt_events"], out["ckpt_bytes"] = e, by
    b = fn_body(s, "provider_cursor_status_v1")
    if b:
        k = const_value(b, "MAX_KEYS")
        if k:
            out["cursor_max_keys"] = k
    b = fn_body(s, "context_selection_status_v1")
    if b:
        d, mx = const_value(b, "DEFAULT_LIMIT"), const_value(b, "MAX_LIMIT")
        if d and mx:
            out["selection_default_limit"], out["selection_max_limit"] = d, mx
    return out


NEEDED = ["recent_limit", "hier_max_refs", "reverse_chunk", "seek_stride", "inflight_events", "inflight_bytes",
          "cursor_max_keys", "selection_default_limit", "selection_max_limit", "ckpt_events", "ckpt_bytes"]


def coq_bool(b):
    return "true" if b else "false"


def generate(repo):
    path = os.path.join(repo, "crates/ripd/src/continuities.rs")
    notes, ok = [], True
    loops = []
    if not os.path.exists(path):
        ok = False
        notes.append("continuities.rs not found")
        src = ""
    else:
        src = strip_comments(open(path).read())
    for cname, fname in LOOPS:
        d, why = read_loop(src, fname) if src else (None, "no source")
        if d is None:
            ok = False
            notes.append(why)
            d = {"initial": 0, "max_bytes": 0, "max_events": 0, "cap_break": False, "clears": False, "fallback": False,
                 "accs": [], "guards": []}
        loops.append((cname, fname, d))
    consts = other_constants(repo) if src else {}
    for k in NEEDED:
        if k not in consts:
            ok = False
            notes.append(f"constant {k} not found")
            consts[k] = 0
    L = []
    L.append("(* GENERATED by tools/gen/tail_loops.py from crates/ripd/src/{continuities,context_compiler,continuity_stream_cache,continuity_seek_index}.rs")
    L.append("   on every ./check run -- do not edit.  A committed copy serves as seed only. *)")
    L.append("From RipV Require Import Base.Prelude Model.TailLoop.")
    L.append("")
    L.append(f"Definition gen_ok_tail_loops : bool := {coq_bool(ok)}.")
    for n in notes:
        L.append(f"(* extractor: {n} *)")
    L.append("")
    for cname, fname, d in loops:
        guards = [re.sub(r"\s+", " ", g).replace("*)", "* )").replace("(*", "( *") for g in d['guards']]
        L.append(f"(* {fname}: accumulators pushed in the loop = {d['accs']}; guard(s) of the truth replay after the loop = {guards} *)")
        L.append(f"Definition gen_loop_{cname} : cfg :=")
        L.append(f"  {{| l_initial := {d['initial']}; l_max_bytes := {d['max_bytes']}; l_max_events := {d['max_events']};")
        L.append(f"     l_cap_break := {coq_bool(d['cap_break'])}; l_clears := {coq_bool(d['clears'])}; l_incomplete_fallback := {coq_bool(d['fallback'])} |}}.")
    L.append("")
    L.append("Definition gen_loops : list cfg := [" + "; ".join(f"gen_loop_{c}" for c, _, _ in loops) + "].")
    L.append("")
    for k in NEEDED:
        L.append(f"Definition gen_{k} : N := {consts[k]}.")
    L.append("")
    L.append("Lemma gen_tail_loops_found : gen_ok_tail_loops = true.")
    L.append("Proof. vm_compute. reflexivity. Qed.")
    L.append("Lemma gen_tail_loops_wf : forallb loop_wf gen_loops = true.")
    L.append("Proof. vm_compute. reflexivity. Qed.")
    L.append("Lemma gen_tail_consts_pos : forallb (fun x => 0 <? x) [" + "; ".join(f"gen_{k}" for k in NEEDED) + "] = true.")
    L.append("Proof. vm_compute. reflexivity. Qed.")
    return "\n".join(L) + "\n", ok, notes, loops


SELFTEST = r'''
impl S {
    pub fn provider_cursor_rotate_v1(&self, thread_id: &str) -> Result<u8, String> {
        const INITIAL_TAIL_BYTES: usize = 256 * 1024;
        const MAX_TAIL_BYTES: usize = 8 * 1024 * 1024;
        const MAX_TAIL_EVENTS: usize = 10_000;
        let mut target = None;
        let mut tail_bytes = INITIAL_TAIL_BYTES;
        while tail_bytes <= MAX_TAIL_BYTES && target.is_none() {
            match self.stream_cache.scan_tail(thread_id, MAX_TAIL_EVENTS, tail_bytes) {
                Ok(Some(tail)) => { if tail.complete { break; } }
                Ok(None) => break,
                Err(_) => break,
            }
            %CAP%
            tail_bytes = (tail_bytes * 2).min(MAX_TAIL_BYTES);
        }
        if target.is_none() {
            let events = self.replay_events(thread_id)?;
        }
        Ok(0)
    }
}
'''


def selftest():
    a, _ = read_loop(SELFTEST.replace("%CAP%", ""), "provider_cursor_rotate_v1")
    b, _ = read_loop(SELFTEST.replace("%CAP%", "if tail_bytes >= MAX_TAIL_BYTES { break; }"), "provider_cursor_rotate_v1")
    c, why = read_loop(SELFTEST.replace("(tail_bytes * 2)", "(tail_bytes * 3)"), "provider_cursor_rotate_v1")
    assert a and not a["cap_break"] and a["fallback"] and a["clears"] and a["initial"] == 262144 and a["max_events"] == 10000, a
    assert b and b["cap_break"], b
    assert c is None and "doubling" in why, (c, why)
    print("tail_loops.py selftest ok")


def main():
    ap = argparse.ArgumentParser()
    ap.add_argument("--repo", default="/repo")
    ap.add_argument("--out", default=None)
    ap.add_argument("--selftest", action="store_true")
    a = ap.parse_args()
    if a.selftest:
        selftest()
        return 0
    text, ok, notes, loops = generate(a.repo)
    out = os.path.join(a.out or ".", "TailLoops.v")
    old = open(out).read() if os.path.exists(out) else None
    if old != text:
        with open(out, "w") as f:
            f.write(text)
    for cname, fname, d in loops:
        print(f"{cname:18s} initial={d['initial']} max_bytes={d['max_bytes']} max_events={d['max_events']} "
              f"cap_break={d['cap_break']} clears={d['clears']} incomplete_fallback={d['fallback']}")
    for n in notes:
        print("NOTE:", n)
    # rc 0 even when a construct is missing: the failed obligation gen_tail_loops_found reports it
    return 0


if __name__ == "__main__":
    sys.exit(main())
