#!/usr/bin/env python3
"""T1 extractor for C09: the constants of the compaction planner / scheduler and the truncated-scan guard.

Reads
  crates/ripd/src/continuities.rs           : every `stride_messages.unwrap_or(N)` of the compaction entry points (all
      must agree), `req.limit.unwrap_or(1).clamp(lo, hi)` of compaction_cut_points_v1, `limit: Some(N)` of the three
      planners (status / schedule / spawn_job), `max_new_checkpoints.unwrap_or(1).clamp(lo, hi)` of schedule and
      spawn_job (must agree), MAX_TAIL_EVENTS of find_inflight_compaction_job_id_best_effort_v1
      that compaction_auto_schedule_spawn_job_v1 adopts `spawned.planned` after the spawn and compaction_auto_schedule_v1
      runs the job on `response.planned` (the S20 fix: the model's `astep` is the fixed scheduler)
  crates/ripd/src/continuity_stream_cache.rs : MAX_BACKSCAN_EVENTS of latest_compaction_checkpoint_before_or_at_seq_v1
      and that the function returns Err when the bounded scan is not `complete` (the S19 fix)
  both: the five scans over checkpoint frames (manual base, cut_points truth fallback, status fallback, job base truth
      scan, sidecar look-up) break a to_seq tie by the greater frame seq ("the latest such frame winning")
  crates/ripd/src/compaction_auto_summary.rs : MAX_HIGHLIGHTS and the `.take(N)` of render_actor_counts (what a summary
      records of its delta: the model's k_highlights / k_actors_shown)
Emits coq/Gen/CompactionConsts.v: gen_consts : consts, gen_ok_compaction_consts : bool and the obligations
gen_compaction_consts_ok (every construct found, lo <= hi, defaults inside the clamps) and gen_consts_are_real
(gen_consts = real_consts, the value the case files evaluate the model at).  The C09 theorems hold for every
`consts`.  A construct that is not found sets gen_ok_compaction_consts := false (never guess)."""
import argparse, os, re


def strip_comments(s):
    s = re.sub(r"//[^\n]*", "", s)
    return re.sub(r"/\*.*?\*/", "", s, flags=re.S)


def num(x):
    return int(x.replace("_", ""))


def fn_body(src, name):
    """text of `fn name` up to the next fn at the same (impl) indentation"""
    m = re.search(r"\n(\s*)(?:pub(?:\([a-z]+\))?\s+)?fn\s+%s\b" % re.escape(name), src)
    if not m:
        return None
    start = m.end()
    n = re.search(r"\n%s(?:pub(?:\([a-z]+\))?\s+)?fn\s+\w+" % re.escape(m.group(1)), src[start:])
    return src[start:start + n.start()] if n else src[start:]


def main():
    ap = argparse.ArgumentParser()
    ap.add_argument("--repo", required=True)
    ap.add_argument("--out", required=True)
    a = ap.parse_args()
    notes, ok = [], True

    def rd(rel):
        try:
            return strip_comments(open(os.path.join(a.repo, rel)).read()).split("#[cfg(test)]\nmod tests")[0]
        except OSError as e:
            notes.append("cannot read %s: %s" % (rel, e))
            return ""

    co = rd("crates/ripd/src/continuities.rs")
    sc = rd("crates/ripd/src/continuity_stream_cache.rs")
    vals = dict(stride=0, lim_lo=0, lim_hi=0, plan=0, mx_lo=0, mx_hi=0, ckw=0, infl=0)

    fns = {n: fn_body(co, n) for n in (
        "compaction_checkpoint_cumulative_v1", "compaction_cut_points_v1", "compaction_status_v1",
        "compaction_auto_schedule_spawn_job_v1", "compaction_auto_spawn_job_v1",
        "find_inflight_compaction_job_id_best_effort_v1")}
    for n, b in fns.items():
        if b is None:
            ok = False
            notes.append("fn %s not found" % n)
            fns[n] = ""

    strides = set()
    for n in ("compaction_checkpoint_cumulative_v1", "compaction_cut_points_v1", "compaction_status_v1",
              "compaction_auto_schedule_spawn_job_v1", "compaction_auto_spawn_job_v1"):
        m = re.findall(r"stride_messages\s*\.unwrap_or\(\s*([0-9_]+)\s*\)", fns[n])
        if len(m) != 1:
            ok = False
            notes.append("%s: expected one stride_messages.unwrap_or(N), found %d" % (n, len(m)))
        strides.update(num(x) for x in m)
    if len(strides) == 1:
        vals["stride"] = strides.pop()
    else:
        ok = False
        notes.append("default strides disagree: %s" % sorted(strides))

    m = re.search(r"req\.limit\s*\.unwrap_or\(\s*1\s*\)\s*\.clamp\(\s*([0-9_]+)\s*,\s*([0-9_]+)\s*\)", fns["compaction_cut_points_v1"])
    if m:
        vals["lim_lo"], vals["lim_hi"] = num(m.group(1)), num(m.group(2))
    else:
        ok = False
        notes.append("cut_points: req.limit.unwrap_or(1).clamp(lo, hi) not found")

    plans = set()
    for n in ("compaction_status_v1", "compaction_auto_schedule_spawn_job_v1", "compaction_auto_spawn_job_v1"):
        m = re.findall(r"limit\s*:\s*Some\(\s*([0-9_]+)\s*\)", fns[n])
        if len(m) != 1:
            ok = False
            notes.append("%s: expected one `limit: Some(N)`, found %d" % (n, len(m)))
        plans.update(num(x) for x in m)
    if len(plans) == 1:
        vals["plan"] = plans.pop()
    else:
        ok = False
        notes.append("planner limits disagree: %s" % sorted(plans))

    clamps = set()
    for n in ("compaction_auto_schedule_spawn_job_v1", "compaction_auto_spawn_job_v1"):
        m = re.findall(r"max_new_checkpoints\s*\.unwrap_or\(\s*1\s*\)\s*\.clamp\(\s*([0-9_]+)\s*,\s*([0-9_]+)\s*\)", fns[n])
        if len(m) != 1:
            ok = False
            notes.append("%s: expected one max_new_checkpoints.unwrap_or(1).clamp(lo, hi), found %d" % (n, len(m)))
        clamps.update((num(x), num(y)) for x, y in m)
    if len(clamps) == 1:
        vals["mx_lo"], vals["mx_hi"] = clamps.pop()
    else:
        ok = False
        notes.append("max_new clamps disagree: %s" % sorted(clamps))

    m = re.search(r"const\s+MAX_TAIL_EVENTS\s*:\s*usize\s*=\s*([0-9_]+)\s*;", fns["find_inflight_compaction_job_id_best_effort_v1"])
    if m:
        vals["infl"] = num(m.group(1))
    else:
        ok = False
        notes.append("find_inflight: MAX_TAIL_EVENTS not found")

    lk = fn_body(sc, "latest_compaction_checkpoint_before_or_at_seq_v1")
    guarded = False
    if lk is None:
        ok = False
        notes.append("fn latest_compaction_checkpoint_before_or_at_seq_v1 not found")
    else:
        m = re.search(r"const\s+MAX_BACKSCAN_EVENTS\s*:\s*usize\s*=\s*([0-9_]+)\s*;", lk)
        if m:
            vals["ckw"] = num(m.group(1))
        else:
            ok = False
            notes.append("checkpoint look-up: MAX_BACKSCAN_EVENTS not found")
        # the scan result is refused when truncated, before `best` is computed
        g = re.search(r"if\s+!\s*parsed\.complete\s*\{\s*return\s+Err\(", lk)
        b = re.search(r"let\s+mut\s+best\b", lk)
        guarded = bool(g and b and g.start() < b.start())
        if not guarded:
            ok = False
            notes.append("checkpoint look-up: `if !parsed.complete { return Err(..) }` before the selection not found")

    # S20 fix: after a successful spawn the scheduler adopts the spawned job's plan (decision frame, response, job)
    sj = fns["compaction_auto_schedule_spawn_job_v1"]
    i_spawn = sj.find("self.compaction_auto_spawn_job_v1(")
    m_adopt = re.search(r"let\s+planned\s*=\s*spawned\.planned\.clone\(\)\s*;", sj)
    i_dec = sj.rfind('decision: "scheduled".to_string()')
    adopts = bool(m_adopt and i_spawn >= 0 and i_spawn < m_adopt.start() < i_dec)
    sv = fn_body(co, "compaction_auto_schedule_v1") or ""
    runs_resp = bool(re.search(r"compaction_auto_run_spawned_job_v1\(\s*thread_id\s*,\s*&job_id\s*,\s*response\.stride_messages\s*,\s*&response\.cut_rule_id\s*,\s*&response\.planned", sv))
    if not (adopts and runs_resp):
        ok = False
        notes.append("schedule: `let planned = spawned.planned.clone();` between spawn_job and the scheduled decision (adopts=%s), job run on &response.planned (%s) not found" % (adopts, runs_resp))

    # "the latest such frame (by stream order) winning": every scan over checkpoint frames breaks a to_seq tie by the
    # greater frame seq (the model's ck_better / best_lt_truth); one occurrence per scan
    ties = [
        ("compaction_checkpoint_cumulative_v1", co, r"\*checkpoint_to_seq\s*==\s*best_checkpoint_to_seq\s*&&\s*event\.seq\s*>\s*best_checkpoint_event_seq"),
        ("compaction_cut_points_v1", co, r"\*checkpoint_to_seq\s*==\s*current_to_seq\s*&&\s*\*checkpoint_seq\s*>\s*best_checkpoint_seq"),
        ("compaction_status_v1", co, r"\*to_seq\s*==\s*best_to_seq\s*&&\s*event\.seq\s*>\s*best_event_seq"),
        ("compaction_auto_run_spawned_job_v1", co, r"\*checkpoint_to_seq\s*==\s*best_to_seq\s*&&\s*event\.seq\s*>\s*best_event_seq"),
        ("latest_compaction_checkpoint_before_or_at_seq_v1", sc, r"\*to_seq\s*==\s*current_to_seq\s*&&\s*event\.seq\s*>\s*current\.seq"),
    ]
    tie_latest = True
    for fname, src, rx in ties:
        body = fn_body(src, fname)
        k = len(re.findall(rx, body)) if body is not None else -1
        if k != 1:
            tie_latest = False
            ok = False
            notes.append("%s: expected one to_seq-tie clause preferring the greater frame seq, found %d" % (fname, k))

    # what an auto summary records of its delta (the model's k_highlights / k_actors_shown)
    su = rd("crates/ripd/src/compaction_auto_summary.rs")
    hi, shown = 0, 0
    m = re.search(r"const\s+MAX_HIGHLIGHTS\s*:\s*usize\s*=\s*([0-9_]+)\s*;", su)
    if m:
        hi = num(m.group(1))
    else:
        ok = False
        notes.append("compaction_auto_summary.rs: MAX_HIGHLIGHTS not found")
    ra = fn_body(su, "render_actor_counts")
    m = re.findall(r"counts\s*\.iter\(\)\s*\.take\(\s*([0-9_]+)\s*\)", ra or "")
    if len(m) == 1:
        shown = num(m[0])
    else:
        ok = False
        notes.append("render_actor_counts: counts.iter().take(N) not found")

    os.makedirs(a.out, exist_ok=True)
    with open(os.path.join(a.out, "CompactionConsts.v"), "w") as f:
        f.write("(* GENERATED by tools/gen/compaction_consts.py from crates/ripd/src/{continuities,continuity_stream_cache}.rs — do not edit *)\n")
        f.write("From RipV Require Import Base.Prelude Model.Compaction.\n\n")
        for n in notes:
            f.write("(* note: %s *)\n" % n.replace("*)", "* )"))
        f.write("Definition gen_ok_compaction_consts : bool := %s.\n" % ("true" if ok else "false"))
        f.write("Definition gen_ck_scan_guarded : bool := %s.\n" % ("true" if guarded else "false"))
        f.write("Definition gen_sched_adopts_spawned_plan : bool := %s.\n" % ("true" if (adopts and runs_resp) else "false"))
        f.write("Definition gen_ck_tie_break_latest : bool := %s.\n" % ("true" if tie_latest else "false"))
        f.write("Definition gen_k_highlights : N := %d.\nDefinition gen_k_actors_shown : nat := %d.\n" % (hi, shown))
        f.write("Definition gen_consts : consts :=\n  {| k_default_stride := %d; k_limit_lo := %d; k_limit_hi := %d; k_plan_limit := %d;\n"
                "     k_maxnew_lo := %d; k_maxnew_hi := %d; k_ck_window := %d; k_inflight_window := %d |}.\n\n"
                % (vals["stride"], vals["lim_lo"], vals["lim_hi"], vals["plan"], vals["mx_lo"], vals["mx_hi"], vals["ckw"], vals["infl"]))
        f.write("Definition consts_eqb (a b : consts) : bool :=\n"
                "  lN_eqb [k_default_stride a; k_limit_lo a; k_limit_hi a; k_plan_limit a; k_maxnew_lo a; k_maxnew_hi a; k_ck_window a; k_inflight_window a]\n"
                "         [k_default_stride b; k_limit_lo b; k_limit_hi b; k_plan_limit b; k_maxnew_lo b; k_maxnew_hi b; k_ck_window b; k_inflight_window b].\n"
                "Definition consts_wf (k : consts) : bool :=\n"
                "  (k_limit_lo k <=? k_limit_hi k) && (k_maxnew_lo k <=? k_maxnew_hi k) && (1 <=? k_limit_lo k) && (1 <=? k_maxnew_lo k)\n"
                "  && negb (k_default_stride k =? 0) && (k_plan_limit k <=? k_limit_hi k) && (k_limit_lo k <=? k_plan_limit k).\n\n")
        f.write("Lemma gen_compaction_consts_ok : (gen_ok_compaction_consts && gen_ck_scan_guarded && gen_sched_adopts_spawned_plan && consts_wf gen_consts) = true.\n"
                "Proof. vm_compute. reflexivity. Qed.\n")
        f.write("Lemma gen_ck_tie_break_latest_ok : gen_ck_tie_break_latest = true.\nProof. vm_compute. reflexivity. Qed.\n")
        f.write("Lemma gen_summary_consts_are_model : ((gen_k_highlights =? k_highlights) && Nat.eqb gen_k_actors_shown k_actors_shown) = true.\n"
                "Proof. vm_compute. reflexivity. Qed.\n")
        f.write("Lemma gen_consts_are_real : consts_eqb gen_consts real_consts = true.\nProof. vm_compute. reflexivity. Qed.\n")
    print("compaction_consts: ok=%s %s %s" % (ok, vals, "; ".join(notes)))
    return 0


if __name__ == "__main__":
    raise SystemExit(main())
