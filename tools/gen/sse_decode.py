#!/usr/bin/env python3
"""T1 extractor for C15: the facts about the provider stream decoding path that coq/Model/Sse.v, coq/Model/SseJson.v and
the proofs rest on, read off the Rust source on every run.

Reads
  crates/rip-provider-openresponses/src/lib.rs : SseDecoder::push (the buffer is only appended to, split on '\\n', pending
      tail, `trim_end_matches('\\r')` on every complete line before the rules, the `strip_prefix("event:")` /
      `strip_prefix("data:")` chain in source order with the trimming applied to the value, blank-line dispatch),
      SseDecoder::finish, parse_event ("[DONE]", the nesting bound), ParsedEvent::event (name / type mismatch message),
      output_text_delta, EventFrameMapper::{new, map, emit_provider_event, emit};
  crates/rip-kernel/src/lib.rs : MAX_PAYLOAD_NESTING;
  crates/ripd/src/session.rs : OpenResponsesSsePipe::{new, push_sse_str, push_bytes, finish}, truncate_after_done, the
      reader loop of stream_openresponses_request (what the two `drain` sites of push_bytes drop, one U+FFFD per site, the
      cut after [DONE] in both push_sse_str and finish, `frame.seq += self.seq_offset` in both, `*self.seq += frame_count`).
Emits coq/Gen/SseGen.v: gen_decoder_facts / gen_mapper_facts / gen_pipe_facts (records of Model/SseFacts.v) and the
obligations gen_sse_decoder_ok, gen_sse_mapper_ok, gen_sse_pipe_ok (`*_facts_ok gen_* = true`, by vm_compute).
A construct that is not found gives `false` / an empty value in its field (never a guess), so the obligation fails and
names the record; the notes say which construct."""
import argparse, os, re, sys


def strip_comments(s):
    out, i, n = [], 0, len(s)
    while i < n:
        c = s[i]
        if c == '"':
            j = i + 1
            while j < n and s[j] != '"':
                j += 2 if s[j] == "\\" else 1
            out.append(s[i:j + 1])
            i = j + 1
        elif c == "'" and i + 2 < n and (s[i + 2] == "'" or (s[i + 1] == "\\" and i + 3 < n and s[i + 3] == "'")):
            k = i + (3 if s[i + 2] == "'" else 4)
            out.append(s[i:k])
            i = k
        elif s.startswith("//", i):
            while i < n and s[i] != "\n":
                i += 1
        elif s.startswith("/*", i):
            j = s.find("*/", i + 2)
            i = n if j < 0 else j + 2
        else:
            out.append(c)
            i += 1
    return "".join(out)


def block_from(src, start):
    """text of the brace block that opens at the first '{' at or after `start` (string / char literals skipped)"""
    i = src.find("{", start)
    if i < 0:
        return None
    depth, j, n = 0, i, len(src)
    while j < n:
        c = src[j]
        if c == '"':
            j += 1
            while j < n and src[j] != '"':
                j += 2 if src[j] == "\\" else 1
        elif c == "'" and j + 2 < n and (src[j + 2] == "'" or (src[j + 1] == "\\" and j + 3 < n and src[j + 3] == "'")):
            j += 2 if src[j + 2] == "'" else 3
        elif c == "{":
            depth += 1
        elif c == "}":
            depth -= 1
            if depth == 0:
                return src[i:j + 1]
        j += 1
    return None


def fn_body(src, sig):
    i = src.find(sig)
    return block_from(src, i) if i >= 0 else None


def ws(s):
    return re.sub(r"\s+", "", s or "")


def unescape(lit):
    return (lit.replace("\\n", "\n").replace("\\r", "\r").replace("\\t", "\t").replace('\\"', '"').replace("\\'", "'").replace("\\\\", "\\"))


def coq_str(s):
    return "[" + "; ".join(str(ord(c)) for c in s) + "]"


def coq_bool(b):
    return "true" if b else "false"


def main():
    ap = argparse.ArgumentParser()
    ap.add_argument("--repo", required=True)
    ap.add_argument("--out", required=True)
    a = ap.parse_args()
    notes = []

    def rd(rel):
        try:
            return strip_comments(open(os.path.join(a.repo, rel)).read())
        except OSError as e:
            notes.append("cannot read %s: %s" % (rel, e))
            return ""

    def fact(cond, what):
        if not cond:
            notes.append(what)
        return bool(cond)

    lib = rd("crates/rip-provider-openresponses/src/lib.rs")
    ses = rd("crates/ripd/src/session.rs")
    ker = rd("crates/rip-kernel/src/lib.rs")

    # ------------------------------------------------------------ SseDecoder
    dec = fn_body(lib, "impl SseDecoder") or ""
    push = fn_body(dec, "pub fn push(&mut self, chunk: &str) -> Vec<ParsedEvent>") or ""
    fact(push, "SseDecoder::push not found")
    pw = ws(push)
    # every use of the buffer in push, in order: appended to once (the chunk itself), split, tested for its end, replaced by the tail
    uses = re.findall(r"self\.buffer(\.[a-z_]+\([^()]*\)|=[^;]*;|\.[a-z_]+\(&[^()]*\([^()]*\)\))", pw)
    append_verbatim = fact(
        uses[:1] == [".push_str(chunk)"] and [u for u in uses if u.startswith(".push_str") or u.startswith(".insert") or u.startswith(".extend")] == [".push_str(chunk)"]
        and pw.count("self.buffer") == len(uses) and ".replace(" not in pw and "chunk" not in pw.replace("self.buffer.push_str(chunk)", "", 1).replace("chunk:&str", ""),
        "push: the buffer is not appended to by exactly one `self.buffer.push_str(chunk)` (uses: %s)" % uses)
    m = re.search(r"self\.buffer\.split\('((?:\\.|[^'\\]))'\)", push)
    split_char = ord(unescape(m.group(1))) if m else None
    fact(m, "push: `self.buffer.split('<char>')` not found")
    loop = block_from(push, push.find("while let Some(line) = lines.next()")) if "while let Some(line) = lines.next()" in push else ""
    fact(loop, "push: `while let Some(line) = lines.next()` not found")
    lw = ws(loop)
    tail_pat = "letis_last=lines.peek().is_none();ifis_last&&!self.buffer.ends_with('\\n'){pending_tail=Some(line.to_string());break;}"
    pending_tail = fact(lw.startswith("{" + tail_pat) and "self.buffer=pending_tail.unwrap_or_default();" in pw
                        and "letmutlines=self.buffer.split(" in pw and "letmutpending_tail=None;" in pw,
                        "push: pending-tail handling (is_last && !ends_with('\\n') => keep as buffer) not in the expected shape")
    # the first statement after the pending-tail test must be the per-line trim
    after_tail = lw[1 + len(tail_pat):] if lw.startswith("{" + tail_pat) else lw
    mt = re.match(r"letline=line\.trim_end_matches\('((?:\\.|[^'\\]))'\);", after_tail)
    eol_trim = ord(unescape(mt.group(1))) if mt else None
    fact(mt, "push: `let line = line.trim_end_matches('<char>');` is not the first statement on a complete line")
    chain = after_tail[mt.end():] if mt else after_tail
    # the if / else-if chain, in source order
    rules, ok_empty_event = [], False
    pos = 0
    branch_re = re.compile(r"(?:else)?ifletSome\(rest\)=line\.strip_prefix\(\"((?:\\.|[^\"\\])*)\"\)")
    chain_src = loop[loop.find("trim_end_matches"):] if "trim_end_matches" in loop else loop
    for mm in re.finditer(r"if\s+let\s+Some\(rest\)\s*=\s*line\.strip_prefix\(\"((?:\\.|[^\"\\])*)\"\)", chain_src):
        blk = ws(block_from(chain_src, mm.end()))
        lit = unescape(mm.group(1))
        mv = re.match(r"\{letvalue=rest(\.trim\(\)|\.trim_start\(\)|\.trim_end\(\)|);", blk)
        trim = {".trim()": "TrimBoth", ".trim_start()": "TrimStart", "": "TrimNone"}.get(mv.group(1)) if mv else None
        rest = blk[mv.end():] if mv else blk
        if rest == "self.current_event=ifvalue.is_empty(){None}else{Some(value.to_string())};}" and trim:
            rules.append((lit, "ASetEvent " + trim))
            ok_empty_event = True
        elif rest == "self.current_data.push(value.to_string());}" and trim:
            rules.append((lit, "APushData " + trim))
        else:
            notes.append("push: branch strip_prefix(%r) not understood: %s" % (lit, blk[:120]))
            rules.append((lit, "APushData TrimNone") if False else ("?" + lit, "ASetEvent TrimNone"))
    fact(rules, "push: no `if let Some(rest) = line.strip_prefix(..)` branch found")
    # nothing but the strip_prefix branches, the blank-line branch and the comment branch
    n_if = len(re.findall(r"elseif|if", re.sub(r"\{[^{}]*\}", "{}", re.sub(r"\{[^{}]*\}", "{}", re.sub(r"\{[^{}]*\}", "{}", chain)))))
    mb = re.search(r"elseifline\.is_empty\(\)(\{.*?\})elseifline\.starts_with\(':'\)\{continue;\}\}$", chain)
    blank = mb.group(1) if mb else ""
    blank_dispatch = fact(
        blank == "{ifis_last{pending_tail=Some(String::new());break;}if!self.current_data.is_empty(){letdata=self.current_data.join(\"\\n\");letraw=data.clone();events.push(self.parse_event(raw));self.current_data.clear();self.current_event=None;}}",
        "push: blank-line branch (dispatch iff current_data non-empty: join, parse_event, clear, current_event = None) not in the expected shape")
    fact(chain.count("line.strip_prefix(") == len(rules) and chain.count("elseif") == len(rules) + 1 and chain.count("self.current_event=") == 2 and chain.count("self.current_data.") == 4,
         "push: the rule chain has other branches / other edits of current_event / current_data than the model's")
    if not (chain.count("line.strip_prefix(") == len(rules) and chain.count("elseif") == len(rules) + 1 and chain.count("self.current_event=") == 2 and chain.count("self.current_data.") == 4):
        blank_dispatch = False
    mj = re.search(r"self\.current_data\.join\(\"((?:\\.|[^\"\\])*)\"\)", push)
    join = unescape(mj.group(1)) if mj else ""
    fin = ws(fn_body(dec, "pub fn finish(&mut self) -> Vec<ParsedEvent>"))
    finish = fact(fin == "{ifself.buffer.is_empty(){returnVec::new();}letchunk=format!(\"{}\\n\",self.buffer);self.buffer.clear();self.push(&chunk)}",
                  "SseDecoder::finish is not `if empty {return}; chunk = buffer + \"\\n\"; buffer.clear(); self.push(&chunk)`")
    pe = fn_body(dec, "fn parse_event(&self, raw: String) -> ParsedEvent") or ""
    md = re.match(r"\{ifraw==\"((?:\\.|[^\"\\])*)\"\{returnParsedEvent::done\(raw\);\}matchserde_json::from_str::<Value>\(&raw\)\{", ws(pe))
    done = unescape(md.group(1)) if md else ""
    fact(md, "parse_event does not start with `if raw == \"..\" { return ParsedEvent::done(raw); } match serde_json::from_str::<Value>(&raw)`")
    nest_ok = fact("Ok(value)ifrip_kernel::json_nesting(&value)>rip_kernel::MAX_PAYLOAD_NESTING=>{" in ws(pe)
                   and "Ok(value)=>{ParsedEvent::event(raw,self.current_event.clone(),value,self.validation)}" in ws(pe)
                   and "Err(err)=>ParsedEvent::invalid_json(raw,err.to_string(),self.current_event.clone())" in ws(pe)
                   and "ParsedEvent::invalid_json(raw,err,self.current_event.clone())" in ws(pe),
                   "parse_event: the three arms (too deep => invalid_json, Ok => event, Err => invalid_json with the parser's message) not found")
    mk = re.search(r"pub\s+const\s+MAX_PAYLOAD_NESTING\s*:\s*usize\s*=\s*([0-9_]+)\s*;", ker)
    max_nesting = int(mk.group(1).replace("_", "")) if (mk and nest_ok) else 0
    fact(mk, "rip_kernel::MAX_PAYLOAD_NESTING not found")
    mn = re.search(r"\"payload nests \{\} levels deep \(at most \{\} can be stored in a frame\)\"", pe)
    fact(mn, "parse_event: the text of the nesting error changed (model: SseJson.nest_msg)")
    if not mn:
        max_nesting = 0

    # ------------------------------------------------------------ ParsedEvent::event / EventFrameMapper
    pev = fn_body(lib, "fn event(") or ""
    pevw = ws(pev)
    mm_ = re.search(r"format!\(\s*\"(event name '\{event_name\}' does not match type '\{type_name\}')\"\s*\)", pev)
    mismatch = re.split(r"\{event_name\}|\{type_name\}", mm_.group(1)) if mm_ else []
    fact(mm_, "ParsedEvent::event: the mismatch message format changed")
    i_val = pevw.find("ifletErr(errs)=validate_stream_event(&validation_data){errors.extend(errs);}")
    i_mis = pevw.find("ifletSome(event_name)=event.as_ref(){ifletSome(type_name)=data.get(\"type\").and_then(|v|v.as_str()){ifevent_name!=type_name{errors.push(format!(")
    mismatch_after = fact(0 <= i_val < i_mis and pevw.count("errors.push(") == 1 and pevw.count("errors.extend(") == 2,
                          "ParsedEvent::event: validation errors first, then the mismatch error iff event_name != type_name — not in the expected shape")
    data_is_parsed = fact(re.search(r"Self\{kind:ParsedEventKind::Event,event,raw,data:Some\(data\),errors,response_errors,\}\}$", pevw) is not None and pevw.count("Some(data)") == 1,
                          "ParsedEvent::event does not end in `Self { kind: Event, event, raw, data: Some(data), errors, response_errors }`")
    validation_data = fact(
        "letvalidation_data=ifvalidation.normalize_missing_item_ids{normalize_event_for_validation(&data)}else{data.clone()};" in pevw
        and "ifletSome(response)=validation_data.get(\"response\"){ifletErr(errs)=validate_response_resource(response){response_errors.extend(errs);}}" in pevw
        and pevw.count("validation_data") == 3,
        "ParsedEvent::event: validation_data (normalised iff the option is set) / validators on it — not in the expected shape")
    otd = ws(fn_body(lib, "fn output_text_delta(parsed: &ParsedEvent) -> Option<String>"))
    mo = re.match(r"\{letdata=parsed\.data\.as_ref\(\)\?;letobj=data\.as_object\(\)\?;letevent_type=obj\.get\(\"((?:\\.|[^\"\\])*)\"\)\.and_then\(\|value\|value\.as_str\(\)\);ifevent_type!=Some\(\"((?:\\.|[^\"\\])*)\"\)\{returnNone;\}obj\.get\(\"((?:\\.|[^\"\\])*)\"\)\.and_then\(\|value\|value\.as_str\(\)\)\.map\(\|value\|value\.to_string\(\)\)\}$", otd)
    fact(mo, "output_text_delta is not `data.as_object()?.get(type) == Some(OTD) => get(delta).as_str()`")
    type_key, otd_lit, delta_key = (unescape(mo.group(1)), unescape(mo.group(2)), unescape(mo.group(3))) if mo else ("", "", "")
    epe = ws(fn_body(lib, "fn emit_provider_event(&mut self, parsed: &ParsedEvent) -> Event"))
    raw_for_text = fact("ParsedEventKind::Done=>(ProviderEventStatus::Done,None,Some(parsed.raw.clone()))" in epe
                        and "ParsedEventKind::InvalidJson=>(ProviderEventStatus::InvalidJson,None,Some(parsed.raw.clone()),)" in epe
                        and "ParsedEventKind::Event=>(ProviderEventStatus::Event,parsed.data.clone(),None)" in epe
                        and "let(status,data,raw)=matchparsed.kind{" in epe and re.search(r"status,event_name:parsed\.event\.clone\(\),data,raw,errors:parsed\.errors\.clone\(\),response_errors:parsed\.response_errors\.clone\(\),", epe) is not None,
                        "emit_provider_event: (status, data, raw) per kind / fields passed through unchanged — not in the expected shape")
    name_from_sse = "event_name:parsed.event.clone()," in epe
    fact(name_from_sse, "emit_provider_event: event_name is not parsed.event.clone()")
    mp = ws(fn_body(lib, "pub fn map(&mut self, parsed: &ParsedEvent) -> Vec<Event>"))
    prov_then_delta = fact(mp == "{letprovider_frame=self.emit_provider_event(parsed);letmutframes=vec![provider_frame];ifletSome(delta)=output_text_delta(parsed){frames.push(self.emit(EventKind::OutputTextDelta{delta}));}frames}",
                           "EventFrameMapper::map is not provider frame + at most one OutputTextDelta")
    em = ws(fn_body(lib, "fn emit(&mut self, kind: EventKind) -> Event"))
    nw = ws(fn_body(lib, "pub fn new(session_id: impl Into<String>) -> Self"))
    seq01 = fact("seq:self.seq,kind,};self.seq+=1;event}" in em and em.count("self.seq") == 2 and "seq:0," in nw,
                 "EventFrameMapper: seq starts at 0 / emit uses self.seq then `self.seq += 1` — not in the expected shape")

    # ------------------------------------------------------------ OpenResponsesSsePipe
    pipe = fn_body(ses, "impl<'a> OpenResponsesSsePipe<'a>") or ""
    fact(pipe, "impl OpenResponsesSsePipe not found")
    new = ws(fn_body(pipe, "fn new("))
    offset_at_creation = fact("seq_offset:*seq,seq," in new and "mapper:EventFrameMapper::new(" in new and "decoder:SseDecoder::new_with_validation(validation)," in new,
                              "OpenResponsesSsePipe::new: seq_offset is not `*seq` (or decoder / mapper not fresh)")

    def batch(body, source):
        """(cut before mapping, base added to frame.seq, *seq advanced by the frame count) of push_sse_str / finish"""
        b = ws(body)
        cut = b.startswith("{letmutparsed=self.decoder.%s;ifparsed.is_empty(){returnfalse;}truncate_after_done(&mutparsed);letmutframes=Vec::new();foreventin&parsed{" % source) \
            and b.find("truncate_after_done(&mutparsed);") < b.find("self.mapper.map(event)") and b.count("self.mapper.map(") == 1 and b.count("truncate_after_done(") == 1
        mb_ = re.findall(r"forframein&mutframes\{frame\.seq\+=([^;]*);\}", b)
        base = {"self.seq_offset": "BaseSeqOffset", "*self.seq": "BaseRunningSeq"}.get(mb_[0], "BaseOther") if (len(mb_) == 1 and b.count("frame.seq") == 1 and b.count(".seq") == b.count("self.seq") + 1) else "BaseOther"
        adv = "letframe_count=frames.len();" in b and b.count("*self.seq+=frame_count asu64;".replace(" ", "")) == 1 and b.count("*self.seq") == (2 if base == "BaseRunningSeq" else 1) \
            and "self.sink.emit_all(frames).await;" in b and ".any(|event|event.kind==ParsedEventKind::Done)" in b
        return cut, base, adv

    pss = fn_body(pipe, "async fn push_sse_str(&mut self, chunk: &str) -> bool")
    fns = fn_body(pipe, "async fn finish(&mut self) -> bool")
    fact(pss and fns, "push_sse_str / finish not found")
    cut_push, base_push, adv_push = batch(pss, "push(chunk)")
    cut_fin, base_fin, adv_fin = batch(fns, "finish()")
    fact(cut_push, "push_sse_str: `truncate_after_done(&mut parsed)` right after the decoder call, before the mapper — not found")
    fact(cut_fin, "finish: `truncate_after_done(&mut parsed)` right after the decoder call, before the mapper — not found")
    fact(base_push == "BaseSeqOffset", "push_sse_str: frames are not offset by `self.seq_offset` (found: %s)" % base_push)
    fact(base_fin == "BaseSeqOffset", "finish: frames are not offset by `self.seq_offset` (found: %s)" % base_fin)
    fact(adv_push and adv_fin, "push_sse_str / finish: `*self.seq += frame_count as u64` after emit_all — not in the expected shape")
    tad = ws(fn_body(ses, "fn truncate_after_done(parsed: &mut Vec<ParsedEvent>)"))
    cut_first = fact(tad == "{ifletSome(pos)=parsed.iter().position(|event|event.kind==ParsedEventKind::Done){parsed.truncate(pos+1);}}",
                     "truncate_after_done is not `position of the first Done => truncate(pos + 1)`")

    pb = ws(fn_body(pipe, "async fn push_bytes(&mut self, utf8_buf: &mut Vec<u8>, bytes: &[u8]) -> bool"))
    fact(pb, "push_bytes not found")
    head_ok = pb.startswith("{utf8_buf.extend_from_slice(bytes);letmutsaw_done=false;loop{matchstd::str::from_utf8(utf8_buf){Ok(text)=>{saw_done=self.push_sse_str(text).await;utf8_buf.clear();break;}Err(err)=>{letvalid=err.valid_up_to();ifvalid==0{")
    i0 = pb.find("ifvalid==0{")
    i1 = pb.find("continue;}", i0)
    br0 = pb[i0 + len("ifvalid==0{"):i1] if 0 <= i0 < i1 else ""
    br1 = pb[i1 + len("continue;}"):] if i1 >= 0 else ""
    fffd = 'saw_done=self.push_sse_str("\\u{FFFD}").await;ifsaw_done{utf8_buf.clear();break;}'
    if br0 == "letSome(invalid_len)=err.error_len()else{break;};utf8_buf.drain(..invalid_len.min(utf8_buf.len()));" + fffd:
        drain0, keep0 = "DrainErrorLen", True
    elif re.fullmatch(r"iferr\.error_len\(\)\.is_none\(\)\{break;\}utf8_buf\.remove\(0\);" + re.escape(fffd), br0):
        drain0, keep0 = "DrainOneByte", True
    else:
        drain0, keep0 = "DrainOther", False
    want1 = ("letvalid_text=std::str::from_utf8(&utf8_buf[..valid]).expect(\"validutf8prefix\");saw_done=self.push_sse_str(valid_text).await;utf8_buf.drain(..valid);"
             "ifsaw_done{utf8_buf.clear();break;}iferr.error_len().is_none(){break;}"
             "letinvalid_len=err.error_len().unwrap_or(1);letdrain_len=invalid_len.min(utf8_buf.len());utf8_buf.drain(..drain_len);" + fffd + "}}}saw_done}")
    drain1 = "DrainErrorLen" if br1 == want1 else "DrainOther"
    fact(head_ok, "push_bytes: head (extend, loop, from_utf8, Ok => push the text and clear) not in the expected shape")
    fact(drain0 == "DrainErrorLen", "push_bytes: at valid_up_to = 0 the buffer is not drained by error_len (found: %s)" % drain0)
    fact(drain1 == "DrainErrorLen", "push_bytes: after the valid prefix the buffer is not drained by valid_up_to then error_len")
    one_fffd = fact(pb.count('push_sse_str("\\u{FFFD}")') == 2 and br0.count("push_sse_str(") == 1 and br1.count("push_sse_str(") == 2 and pb.count("push_sse_str(") == 4 and head_ok,
                    "push_bytes: not exactly one U+FFFD push per invalid-sequence site")
    incomplete_kept = fact(keep0 and drain1 == "DrainErrorLen" and ".remove(" not in pb.replace("utf8_buf.remove(0);", "", 1 if drain0 == "DrainOneByte" else 0) and pb.count("utf8_buf.clear()") == 4,
                           "push_bytes: error_len() == None does not simply break (keeping the bytes), or the buffer is edited elsewhere")
    so = fn_body(ses, "async fn stream_openresponses_request") or ""
    sow = ws(so)
    reader = fact(
        "letmutsaw_done=pipe.push_bytes(&mututf8_buf,&first_chunk).await;while!saw_done{letSome(next)=stream.next().awaitelse{break;};letchunk=matchnext{Ok(chunk)=>chunk,Err(err)=>{pipe.emit_transport_error(err.to_string()).await;returnErr(\"provider_error\".to_string());}};saw_done=pipe.push_bytes(&mututf8_buf,&chunk).await;}if!saw_done{let_=pipe.finish().await;}Ok(())}" in sow
        and sow.count("pipe.push_bytes(") == 2 and sow.count("pipe.finish()") == 1 and sow.count("OpenResponsesSsePipe::new(") >= 1,
        "stream_openresponses_request: the reader loop (push_bytes per chunk until saw_done; finish() iff never saw_done) not in the expected shape")
    # the verification hook must drive the pipe the same way
    hk = ws(fn_body(ses, "pub(crate) async fn run_sse_pipe("))
    reader = fact(reader and "letmututf8_buf=Vec::new();letmutsaw_done=false;forchunkin&chunks{saw_done=pipe.push_bytes(&mututf8_buf,chunk).await;ifsaw_done{break;}}if!saw_done{matchtransport_error{Some(err)=>pipe.emit_transport_error(err).await,None=>{let_=pipe.finish().await;}}}" in hk,
                  "verif hook run_sse_pipe does not drive the pipe like the reader loop") and reader

    os.makedirs(a.out, exist_ok=True)
    with open(os.path.join(a.out, "SseGen.v"), "w") as f:
        f.write("(* GENERATED by tools/gen/sse_decode.py from crates/rip-provider-openresponses/src/lib.rs, crates/ripd/src/session.rs,\n"
                "   crates/rip-kernel/src/lib.rs — do not edit *)\n")
        f.write("From RipV Require Import Base.Prelude Base.Json Model.Sse Model.SseJson Model.SseFacts.\n")
        for n in notes:
            f.write("(* note: %s *)\n" % n.replace("*)", "* )").replace("(*", "( *"))
        f.write("Definition gen_decoder_facts : decoder_facts :=\n  {| df_append_verbatim := %s;\n     df_split_char := %d;\n     df_pending_tail := %s;\n     df_eol_trim_char := %s;\n     df_rules := [%s];\n     df_empty_event_is_none := %s;\n     df_blank_dispatch := %s;\n     df_join := %s;\n     df_finish := %s;\n     df_done := %s;\n     df_max_nesting := %d%%nat |}.\n" % (
            coq_bool(append_verbatim), split_char if split_char is not None else 0, coq_bool(pending_tail),
            "(Some %d)" % eol_trim if eol_trim is not None else "None",
            "; ".join("(%s, %s)" % (coq_str(p), act) for p, act in rules), coq_bool(ok_empty_event), coq_bool(blank_dispatch),
            coq_str(join), coq_bool(finish), coq_str(done), max_nesting))
        f.write("Lemma gen_sse_decoder_ok : decoder_facts_ok gen_decoder_facts = true.\nProof. vm_compute. reflexivity. Qed.\n")
        f.write("Definition gen_mapper_facts : mapper_facts :=\n  {| mf_type_key := %s;\n     mf_delta_key := %s;\n     mf_otd := %s;\n     mf_delta_from_object_only := %s;\n     mf_mismatch := [%s];\n     mf_mismatch_after_validation := %s;\n     mf_event_data_is_parsed_value := %s;\n     mf_validation_data := %s;\n     mf_raw_for_text_kinds := %s;\n     mf_event_name_from_sse := %s;\n     mf_provider_then_delta := %s;\n     mf_seq_from_zero_by_one := %s |}.\n" % (
            coq_str(type_key), coq_str(delta_key), coq_str(otd_lit), coq_bool(bool(mo)), "; ".join(coq_str(p) for p in mismatch), coq_bool(mismatch_after),
            coq_bool(data_is_parsed), coq_bool(validation_data), coq_bool(raw_for_text), coq_bool(name_from_sse), coq_bool(prov_then_delta), coq_bool(seq01)))
        f.write("Lemma gen_sse_mapper_ok : mapper_facts_ok gen_mapper_facts = true.\nProof. vm_compute. reflexivity. Qed.\n")
        f.write("Definition gen_pipe_facts : pipe_facts :=\n  {| pf_offset_is_seq_at_creation := %s;\n     pf_drain_at_start := %s;\n     pf_drain_after_valid := %s;\n     pf_one_fffd_per_invalid := %s;\n     pf_incomplete_kept := %s;\n     pf_cut_in_push := %s;\n     pf_cut_in_finish := %s;\n     pf_cut_is_upto_first_done := %s;\n     pf_base_in_push := %s;\n     pf_base_in_finish := %s;\n     pf_seq_advanced_by_count := %s;\n     pf_reader_loop := %s |}.\n" % (
            coq_bool(offset_at_creation), drain0, drain1, coq_bool(one_fffd), coq_bool(incomplete_kept), coq_bool(cut_push), coq_bool(cut_fin), coq_bool(cut_first),
            base_push, base_fin, coq_bool(adv_push and adv_fin), coq_bool(reader)))
        f.write("Lemma gen_sse_pipe_ok : pipe_facts_ok gen_pipe_facts = true.\nProof. vm_compute. reflexivity. Qed.\n")
    for n in notes:
        print("note:", n)
    print("sse_decode: rules=%s split=%s eol_trim=%s drain=(%s,%s) base=(%s,%s) cut=(%s,%s) notes=%d" % (
        rules, split_char, eol_trim, drain0, drain1, base_push, base_fin, cut_push, cut_fin, len(notes)))
    return 0


if __name__ == "__main__":
    sys.exit(main())
