#!/usr/bin/env python3
"""T1 extractor for C10: the guard `ContinuityStore::handoff` applies to a caller-supplied summary_artifact_id.

Reads crates/ripd/src/handoff_context_bundle.rs:
  * `fn artifact_exists(workspace_root: &Path, artifact_id: &str) -> bool { <one expression> }` - the expression must be
    a conjunction (`&&`) of terms, each either `!artifact_id.is_empty()` or
    `artifacts_blobs_dir(workspace_root).join(artifact_id).is_file()` / `.exists()`, or (since the repair of S30)
    `let mut c = Path::new(artifact_id).components(); matches!((c.next(), c.next()), (Some(Component::Normal(n)), None)
    if n == OsStr::new(artifact_id)) && artifacts_blobs_dir(workspace_root).join(artifact_id).is_file()` -> GPlainIsFile
    (optionally through
    `std::fs::metadata(..)`-free plain Path calls only); the shape is emitted as an `aguard` of Model/ArtGuard.v:
      non-empty && is_file -> GNonEmptyIsFile, is_file -> GIsFile, non-empty && exists -> GNonEmptyExists,
      exists -> GExists; anything else (more terms, `||`, another callee) -> gen_ok_art_guard := false;
  * `fn artifacts_blobs_dir(workspace_root: &Path) -> PathBuf { workspace_root.join(".rip").join("artifacts").join("blobs") }`
    (the directory the writers of this module use - `write_blob_atomic` must call the same function);
and crates/ripd/src/continuities.rs, `pub fn handoff`: the statement
  `if let Some(artifact_id) = summary_artifact_id.as_deref() { if !..artifact_exists(&self.workspace_root, artifact_id) { return Err(`
must stand before the first `create_continuity(` / `write_bundle_v1(` / `.append(` of the function, and the id must not
be reassigned in between (`summary_artifact_id =` appears only after the guard).
Emits coq/Gen/HandoffGuard.v with the obligation gen_art_guard_ok: found, placed before every write, and sound
(Model/ArtGuard.v guard_sound: an accepted id resolves to a regular file - proved for every sound guard).  Never guesses."""
import argparse, os, re


def strip(s):
    s = re.sub(r"//[^\n]*", "", s)
    s = re.sub(r"/\*.*?\*/", lambda m: re.sub(r"[^\n]", " ", m.group(0)), s, flags=re.S)
    return s


def fn_body(src, head_re):
    """text between the braces of the first fn whose header matches head_re (brace counting; strings in these
    functions hold no braces except format placeholders, which balance)"""
    m = re.search(head_re, src)
    if not m:
        return None
    i = src.find("{", m.end() - 1)
    if i < 0:
        return None
    depth, j = 0, i
    while j < len(src):
        if src[j] == "{":
            depth += 1
        elif src[j] == "}":
            depth -= 1
            if depth == 0:
                return src[i + 1:j]
        j += 1
    return None


def squash(s):
    return re.sub(r"\s+", "", s)


def main():
    ap = argparse.ArgumentParser()
    ap.add_argument("--repo", required=True)
    ap.add_argument("--out", required=True)
    a = ap.parse_args()
    notes = []
    ok = True
    guard = None
    placed = False
    dir_ok = False
    try:
        hb = strip(open(os.path.join(a.repo, "crates/ripd/src/handoff_context_bundle.rs")).read())
        ct = strip(open(os.path.join(a.repo, "crates/ripd/src/continuities.rs")).read())
    except OSError as e:
        hb = ct = ""
        ok = False
        notes.append("cannot read source: %s" % e)
    if ok:
        body = fn_body(hb, r"\bfn\s+artifact_exists\s*\(\s*workspace_root\s*:\s*&Path\s*,\s*artifact_id\s*:\s*&str\s*\)\s*->\s*bool\s*\{")
        if body is None:
            ok = False
            notes.append("fn artifact_exists(workspace_root: &Path, artifact_id: &str) -> bool not found")
        else:
            expr = squash(body)
            notes.append("guard expression: %s" % expr)
            plain_re = (r"letmut(\w+)=Path::new\(artifact_id\)\.components\(\);matches!\(\(\1\.next\(\),\1\.next\(\)\),"
                        r"\(Some\(Component::Normal\((\w+)\)\),None\)if\2==(?:std::ffi::)?OsStr::new\(artifact_id\)\)"
                        r"&&artifacts_blobs_dir\(workspace_root\)\.join\(artifact_id\)\.is_file\(\)")
            if re.fullmatch(plain_re, expr):
                # the id is ONE normal path component, equal to the whole id, and names a regular file
                guard = "GPlainIsFile"
            elif "||" in expr or ";" in expr or "if" in re.findall(r"\b\w+\b", body) or "return" in body:
                ok = False
                notes.append("guard is not a plain conjunction")
            else:
                terms = expr.split("&&")
                nonempty, probe = False, None
                for t in terms:
                    if t == "!artifact_id.is_empty()":
                        nonempty = True
                    elif t == "artifacts_blobs_dir(workspace_root).join(artifact_id).is_file()":
                        probe = "is_file" if probe in (None, "is_file") else "mixed"
                    elif t == "artifacts_blobs_dir(workspace_root).join(artifact_id).exists()":
                        probe = "exists" if probe in (None, "exists") else "mixed"
                    else:
                        ok = False
                        notes.append("unknown guard term: %s" % t)
                if probe == "mixed":
                    # is_file && exists = is_file
                    probe = "is_file"
                if ok and probe is None:
                    ok = False
                    notes.append("guard does not look at the file system")
                if ok:
                    guard = {(True, "is_file"): "GNonEmptyIsFile", (False, "is_file"): "GIsFile",
                             (True, "exists"): "GNonEmptyExists", (False, "exists"): "GExists"}[(nonempty, probe)]
        dbody = fn_body(hb, r"\bfn\s+artifacts_blobs_dir\s*\(\s*workspace_root\s*:\s*&Path\s*\)\s*->\s*PathBuf\s*\{")
        wbody = fn_body(hb, r"\bfn\s+write_blob_atomic\s*\(")
        dir_ok = (dbody is not None and squash(dbody) == 'workspace_root.join(".rip").join("artifacts").join("blobs")'
                  and wbody is not None and "artifacts_blobs_dir(workspace_root)" in squash(wbody))
        if not dir_ok:
            notes.append("artifacts_blobs_dir is not <ws>/.rip/artifacts/blobs shared with write_blob_atomic")
        hbody = fn_body(ct, r"\bpub\s+fn\s+handoff\s*\(")
        if hbody is None:
            notes.append("pub fn handoff not found")
        else:
            h = squash(hbody)
            g = re.search(r"ifletSome\(artifact_id\)=summary_artifact_id\.as_deref\(\)\{if!(?:crate::)?(?:handoff_context_bundle::)?artifact_exists\(&self\.workspace_root,artifact_id\)\{returnErr\(", h)
            if not g:
                notes.append("handoff does not refuse an id artifact_exists rejects")
            else:
                before = h[:g.start()]
                writes = [w for w in ("create_continuity(", "write_bundle_v1(", ".append(", "summary_artifact_id=Some(", "summary_artifact_id=") if w in before]
                # `let (summary_markdown, mut summary_artifact_id) = summary;` is the binding, not a reassignment
                before_wo_binding = before.replace("let(summary_markdown,mutsummary_artifact_id)=summary;", "")
                writes = [w for w in writes if w in before_wo_binding]
                if writes:
                    notes.append("handoff writes before the guard: %s" % writes)
                else:
                    placed = True
    out = ["(* GENERATED by tools/gen/handoff_guard.py from crates/ripd/src/handoff_context_bundle.rs (artifact_exists,",
           "   artifacts_blobs_dir) and crates/ripd/src/continuities.rs (pub fn handoff) - do not edit. *)",
           "From RipV Require Import Base.Prelude Base.Fs Model.ArtGuard.", ""]
    for n in notes:
        out.append("(* NOTE: %s *)" % n.replace("*)", "* )").replace("(*", "( *"))
    out.append("Definition gen_ok_art_guard : bool := %s." % ("true" if ok and guard else "false"))
    out.append("Definition gen_art_guard : aguard := %s." % (guard or "GExists"))
    out.append("Definition gen_art_dir_ok : bool := %s." % ("true" if dir_ok else "false"))
    out.append("Definition gen_handoff_guard_before_writes : bool := %s." % ("true" if placed else "false"))
    out.append("")
    out.append("(* obligation: the guard was found, is one of the shapes under which an accepted id reads back AND is a blob of the")
    out.append("   store (guard_confines: ArtGuardProofs.guard_confines_store),")
    out.append("   (ArtGuardProofs.guard_sound_resolves) looks into the directory the bundle writer uses, and handoff")
    out.append("   applies it before anything is written *)")
    out.append("Lemma gen_art_guard_ok :")
    out.append("  gen_ok_art_guard && guard_sound gen_art_guard && guard_confines gen_art_guard && gen_art_dir_ok && gen_handoff_guard_before_writes = true.")
    out.append("Proof. vm_compute. reflexivity. Qed.")
    dest = os.path.join(a.out, "HandoffGuard.v") if os.path.isdir(a.out) else a.out
    open(dest, "w").write("\n".join(out) + "\n")


if __name__ == "__main__":
    main()
