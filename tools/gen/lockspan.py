#!/usr/bin/env python3
"""T1 extractor for C11 (workspace lock).  Reads from the rip checkout

  crates/ripd/src/workspace_lock.rs   Semaphore::new(n), the `!matches!(tool_name, ..)` list
  crates/ripd/src/runner.rs           one WorkspaceLock::new() handed to the sessions and the TaskEngine
  crates/*/src/**/*.rs (non-test)     every `registry.register("name", ..)` / `register_alias("a", "b")`
  crates/ripd/src/session.rs          the three lock call sites (envelope tool, checkpoint, agent loop):
                                      order of guard-let / tool run / emit / append_tool_side_effects /
                                      guard scope end (or an explicit drop), and the two lock-free branches
  crates/ripd/src/tasks/mod.rs        run_task: spawned-emit / guard-let / run_*_task / fn end

and writes coq/Gen/LockSpans.v with `gen_cfg : cfg` and the obligations

    gen_lockspans_found : gen_ok_lockspans = true
    gen_lockspans_wf    : wf_cfg gen_cfg = true

Pattern based; anything it cannot find makes gen_ok_lockspans false (it never guesses).
Usage: lockspan.py --repo /repo --out coq/Gen"""
import re, sys, os, argparse, glob

problems = []


def problem(msg):
    problems.append(msg)


def strip_comments(src):
    return re.sub(r"//[^\n]*", "", src)


def cut_tests(src):
    m = re.search(r"#\[cfg\(test\)\]\s*(?:pub\s*(?:\([a-z]+\))?\s*)?mod\s+\w+\s*\{", src)
    return src[:m.start()] if m else src


def match_brace(src, i):
    depth = 0
    j = i
    while j < len(src):
        ch = src[j]
        if ch == "{":
            depth += 1
        elif ch == "}":
            depth -= 1
            if depth == 0:
                return j
        j += 1
    return -1


def fn_body(src, name):
    m = re.search(r"\bfn\s+" + re.escape(name) + r"\b[^(]*\(", src)
    if not m:
        return None
    depth = 0
    k = m.end() - 1
    while k < len(src):
        if src[k] == "(":
            depth += 1
        elif src[k] == ")":
            depth -= 1
            if depth == 0:
                break
        k += 1
    i = src.find("{", k)
    j = match_brace(src, i)
    if i < 0 or j < 0:
        return None
    return src[i + 1:j]


def block_after(src, pos):
    """the `{...}` block that starts at the first '{' at or after pos -> (body, end index)"""
    i = src.find("{", pos)
    if i < 0:
        return None, -1
    j = match_brace(src, i)
    if j < 0:
        return None, -1
    return src[i + 1:j], j


def depth_at(body, pos):
    d = 0
    for ch in body[:pos]:
        if ch == "{":
            d += 1
        elif ch == "}":
            d -= 1
    return d


RUN_PATS = {
    "tool": r"tool_runner\s*\.\s*run\s*\(",
    "ckpt": r"tool_runner\s*\.\s*(?:create_checkpoint|rewind_checkpoint)\s*\(",
    "task": r"\brun_(?:pipes|pty)_task\s*\(",
}
EMIT_PAT = r"\b(?:emit_events\s*\(|sink\s*\.\s*emit_all\s*\()"
APPEND_PAT = r"\bappend_tool_side_effects\s*\("
ACQ_PAT = r"\blet\s+(\w+)\s*=\s*workspace_lock\s*\.\s*acquire\s*\(\s*\)\s*\.\s*await\s*;"
ANY_ACQ = r"\.\s*acquire\s*\(\s*\)"


def span_of(body, kind, what):
    """ops of a block in textual order; every `run` occurrence is listed (so a run before the guard
    shows up), the guard ends at an explicit drop / shadowing or at the block end."""
    ev = []
    acqs = list(re.finditer(ACQ_PAT, body))
    if len(acqs) != 1 or len(re.findall(ANY_ACQ, body)) != 1:
        problem(f"{what}: expected exactly one `let g = workspace_lock.acquire().await;` ({len(acqs)} found)")
        return None
    a = acqs[0]
    g = a.group(1)
    if g == "_":
        problem(f"{what}: guard bound to `_` (dropped at once)")
        ev.append((a.start(), "OAcquire"))
        ev.append((a.end(), "ORelease"))
        g = None
    else:
        if depth_at(body, a.start()) != 0:
            problem(f"{what}: guard declared in a nested block")
            return None
        ev.append((a.start(), "OAcquire"))
        rel = None
        for m in re.finditer(r"\b(?:drop|std::mem::drop|mem::drop)\s*\(\s*" + re.escape(g) + r"\s*\)", body):
            rel = m.start() if rel is None else min(rel, m.start())
        for m in re.finditer(r"\blet\s+(?:mut\s+)?" + re.escape(g) + r"\b", body[a.end():]):
            p = a.end() + m.start()
            rel = p if rel is None else min(rel, p)
        # moved into something else (a spawned task, a function call): treat as unknown
        for m in re.finditer(r"[(,]\s*" + re.escape(g) + r"\s*[,)]", body[a.end():]):
            if not re.match(r".*\bdrop\s*$", body[:a.end() + m.start()][-12:], re.S):
                problem(f"{what}: guard `{g}` passed somewhere")
        ev.append((rel if rel is not None else len(body) + 1, "ORelease"))
    for m in re.finditer(RUN_PATS[kind], body):
        ev.append((m.start(), "ORun"))
    for m in re.finditer(EMIT_PAT, body):
        ev.append((m.start(), "OEmit"))
    for m in re.finditer(APPEND_PAT, body):
        ev.append((m.start(), "OAppend"))
    if kind == "task":
        ev = [e for e in ev if e[1] != "OEmit"]
    ev.sort()
    ops = [o for _, o in ev]
    if kind in ("ckpt", "task"):
        # the two alternatives (create | rewind, pipes | pty) are arms of one match: one Run, provided
        # both lie on the same side of every other op
        idx = [i for i, o in enumerate(ops) if o == "ORun"]
        if len(idx) == 2 and idx[1] == idx[0] + 1:
            del ops[idx[1]]
        elif len(idx) != 2:
            problem(f"{what}: expected the two run alternatives, found {len(idx)}")
    return ops


def ro_span_of(body, what):
    ev = []
    if re.search(ANY_ACQ, body):
        ev.append((re.search(ANY_ACQ, body).start(), "OAcquire"))
    for m in re.finditer(RUN_PATS["tool"], body):
        ev.append((m.start(), "ORun"))
    for m in re.finditer(EMIT_PAT, body):
        ev.append((m.start(), "OEmit"))
    for m in re.finditer(APPEND_PAT, body):
        ev.append((m.start(), "OAppend"))
    ev.sort()
    return [o for _, o in ev]


def coq_str(s):
    return "[" + "; ".join(str(ord(c)) for c in s) + "]"


def coq_ops(ops):
    return "[" + "; ".join(ops) + "]"


def main():
    ap = argparse.ArgumentParser()
    ap.add_argument("--repo", default="/repo")
    ap.add_argument("--out", default="coq/Gen")
    a = ap.parse_args()
    R = a.repo

    def read(rel):
        try:
            return cut_tests(strip_comments(open(os.path.join(R, rel)).read()))
        except OSError as e:
            problem(f"cannot read {rel}: {e}")
            return ""

    # ---- workspace_lock.rs
    wl = read("crates/ripd/src/workspace_lock.rs")
    permits = None
    m = re.findall(r"Semaphore::new\(\s*([0-9_]+)\s*\)", wl)
    if len(m) == 1:
        permits = int(m[0].replace("_", ""))
    else:
        problem("workspace_lock.rs: Semaphore::new(<literal>) not found exactly once")
    body = fn_body(wl, "requires_workspace_lock")
    listed = None        # names the classification lists
    default_lock = None  # answer for a name it does not list
    if body is None:
        problem("requires_workspace_lock not found")
    else:
        names_alt = r"((?:\"[^\"]*\"\s*\|?\s*)+)"
        mm = re.fullmatch(r"\s*(!?)\s*matches!\s*\(\s*tool_name\s*,\s*" + names_alt + r"\)\s*", body)
        mc = re.fullmatch(r"\s*(!?)\s*([A-Z][A-Z0-9_]*)\s*\.\s*contains\s*\(\s*&\s*tool_name\s*\)\s*", body)
        if mm:
            listed = re.findall(r"\"([^\"]*)\"", mm.group(2))
            default_lock = mm.group(1) == "!"
        elif mc:
            cm = re.search(r"\bconst\s+" + mc.group(2) + r"\s*:\s*&\s*\[\s*&\s*str\s*\]\s*=\s*&\s*\[([^\]]*)\]\s*;", wl)
            if not cm or not re.fullmatch(r"\s*(?:\"[^\"]*\"\s*,?\s*)*", cm.group(1)):
                problem("requires_workspace_lock: the constant list `%s` is not a literal `&[&str]`" % mc.group(2))
            else:
                listed = re.findall(r"\"([^\"]*)\"", cm.group(1))
                default_lock = mc.group(1) == "!"
        else:
            problem("requires_workspace_lock is neither `[!]matches!(tool_name, \"..\" | ..)` nor `[!]CONST.contains(&tool_name)`")
    lockfree = listed
    # acquire must hand out a permit of this semaphore that lives as long as the guard
    acq = fn_body(wl, "acquire")
    if acq is None or not re.search(r"acquire_owned\s*\(\s*\)", acq) or "WorkspaceGuard { _permit: permit }" not in acq:
        problem("WorkspaceLock::acquire is not `acquire_owned` wrapped in WorkspaceGuard { _permit }")
    if not re.search(r"struct\s+WorkspaceGuard\s*\{\s*_permit\s*:\s*OwnedSemaphorePermit\s*,?\s*\}", wl):
        problem("WorkspaceGuard does not own the permit")
    if re.search(r"add_permits|forget\s*\(", wl):
        problem("workspace_lock.rs adds / forgets permits")

    # ---- runner.rs: one lock, shared
    rn = read("crates/ripd/src/runner.rs")
    shared = False
    newb = fn_body(rn, "new")
    spb = fn_body(rn, "spawn_session")
    if newb is None or spb is None:
        problem("SessionEngine::new / spawn_session not found")
    else:
        n_new = len(re.findall(r"WorkspaceLock::new\s*\(\s*\)", rn))
        te = re.search(r"TaskEngine::new\s*\(", newb)
        te_args = None
        if te:
            j = te.end() - 1
            depth = 0
            k = j
            while k < len(newb):
                if newb[k] == "(":
                    depth += 1
                elif newb[k] == ")":
                    depth -= 1
                    if depth == 0:
                        break
                k += 1
            te_args = newb[j:k]
        ok = (
            n_new == 1
            and re.search(r"let\s+workspace_lock\s*=\s*Arc::new\(\s*WorkspaceLock::new\(\s*\)\s*\)\s*;", newb) is not None
            and te_args is not None
            and re.search(r"[,(]\s*workspace_lock\.clone\(\)\s*,", te_args) is not None
            and re.search(r"\n\s*workspace_lock\s*,\s*\n", newb) is not None
            and re.search(r"workspace_lock\s*:\s*self\.workspace_lock\.clone\(\)", spb) is not None
        )
        shared = bool(ok)
        if not ok:
            problem("runner.rs: the lock created in SessionEngine::new is not the one given to TaskEngine::new and to run_session")

    # ---- registered tools (non-test code of every crate)
    registered = []
    aliases = []
    for f in sorted(glob.glob(os.path.join(R, "crates", "*", "src", "**", "*.rs"), recursive=True)):
        if os.path.basename(f) in ("tests.rs",) or f.endswith("_tests.rs"):
            continue
        if os.sep + "rip-bench" + os.sep in f:
            continue  # benchmark binary with its own throw-away registry, not the product
        try:
            src = cut_tests(strip_comments(open(f).read()))
        except OSError:
            continue
        if "ToolRegistry" not in src:
            continue
        for m in re.finditer(r"\.\s*register\s*\(\s*(\"([^\"]*)\"|[^,\s][^,]*),", src):
            if m.group(2) is None:
                problem(f"{os.path.relpath(f, R)}: register() with a non-literal name `{m.group(1).strip()}`")
            else:
                registered.append(m.group(2))
        for m in re.finditer(r"\.\s*register_alias\s*\(\s*(\"([^\"]*)\"|[^,]+),\s*(\"([^\"]*)\"|[^,)]+)\s*,?\s*\)", src):
            if m.group(2) is None or m.group(4) is None:
                problem(f"{os.path.relpath(f, R)}: register_alias() with a non-literal name")
            else:
                registered.append(m.group(2))
                aliases.append((m.group(2), m.group(4)))
        if len(re.findall(r"\.\s*register_alias\s*\(", src)) != len([1 for m in re.finditer(r"\.\s*register_alias\s*\(\s*\"[^\"]*\"\s*,\s*\"[^\"]*\"", src)]):
            problem(f"{os.path.relpath(f, R)}: a register_alias() call was not understood")
    if not registered:
        problem("no registered tools found")

    # ---- session.rs
    ss = read("crates/ripd/src/session.rs")
    vh = re.search(r"pub\(crate\)\s+mod\s+verif_hooks", ss)
    ss_main = ss[:vh.start()] if vh else ss
    spans = {}
    stray = 0
    rs = fn_body(ss_main, "run_session")
    lp = fn_body(ss_main, "run_openresponses_agent_loop")
    if rs is None or lp is None:
        problem("run_session / run_openresponses_agent_loop not found")
    else:
        # envelope tool
        m = re.search(r"InputAction::Tool\s*\(\s*\w+\s*\)\s*=>", rs)
        arm, _ = block_after(rs, m.end()) if m else (None, -1)
        if arm is None:
            problem("run_session: InputAction::Tool arm not found")
        else:
            # the condition must be exactly the classification (nothing and-ed / or-ed to it)
            m2 = re.search(r"(?<![!\w])if\s+requires_workspace_lock\s*\(\s*&invocation\.name\s*\)\s*(?=\{)", arm)
            if not m2:
                problem("run_session: `if requires_workspace_lock(&invocation.name)` not found")
            else:
                lb, lend = block_after(arm, m2.end())
                m3 = re.match(r"\s*else\s*", arm[lend + 1:])
                if lb is None or not m3:
                    problem("run_session: locked / else blocks not found")
                else:
                    rb, rend = block_after(arm, lend + 1 + m3.end())
                    spans["tool"] = span_of(lb, "tool", "session.rs envelope tool")
                    spans["ro"] = ro_span_of(rb, "session.rs envelope read-only")
                    rest = arm[:m2.start()] + arm[rend + 1:]
                    stray += len(re.findall(RUN_PATS["tool"], rest))
        # checkpoint
        m = re.search(r"InputAction::Checkpoint\s*\(\s*\w+\s*\)\s*=>", rs)
        arm, _ = block_after(rs, m.end()) if m else (None, -1)
        if arm is None:
            problem("run_session: InputAction::Checkpoint arm not found")
        else:
            spans["ckpt"] = span_of(arm, "ckpt", "session.rs checkpoint")
        # agent loop
        m2 = re.search(r"\belse\s+if\s+requires_workspace_lock\s*\(\s*&invocation\.name\s*\)\s*(?=\{)", lp)
        if not m2:
            problem("agent loop: `else if requires_workspace_lock(&invocation.name)` not found")
        else:
            lb, lend = block_after(lp, m2.end())
            m3 = re.match(r"\s*else\s*", lp[lend + 1:])
            if lb is None or not m3:
                problem("agent loop: locked / else blocks not found")
            else:
                rb, rend = block_after(lp, lend + 1 + m3.end())
                spans["loop_tool"] = span_of(lb, "tool", "session.rs agent loop")
                spans["loop_ro"] = ro_span_of(rb, "session.rs agent loop read-only")
                rest = lp[:m2.start()] + lp[rend + 1:]
                stray += len(re.findall(RUN_PATS["tool"], rest))
        # any run / checkpoint call outside the analysed functions' analysed blocks
        total_tool = len(re.findall(RUN_PATS["tool"], ss_main))
        total_ckpt = len(re.findall(RUN_PATS["ckpt"], ss_main))
        in_fns = len(re.findall(RUN_PATS["tool"], rs)) + len(re.findall(RUN_PATS["tool"], lp))
        stray += total_tool - in_fns
        stray += total_ckpt - 2
    # other files of ripd calling the tool runner
    for f in sorted(glob.glob(os.path.join(R, "crates", "ripd", "src", "**", "*.rs"), recursive=True)):
        rel = os.path.relpath(f, R)
        if rel.endswith("session.rs") or os.path.basename(f) == "tests.rs" or f.endswith("_tests.rs"):
            continue
        src = cut_tests(strip_comments(open(f).read()))
        stray += len(re.findall(RUN_PATS["tool"], src)) + len(re.findall(RUN_PATS["ckpt"], src))

    # ---- tasks/mod.rs
    tm = read("crates/ripd/src/tasks/mod.rs")
    rt = fn_body(tm, "run_task")
    if rt is None:
        problem("run_task not found")
    else:
        ops = span_of(rt, "task", "tasks/mod.rs run_task")
        sp = re.search(r"EventKind::ToolTaskSpawned\b", rt)
        a0 = re.search(ACQ_PAT, rt)
        if ops is not None:
            if sp and a0 and sp.start() < a0.start():
                ops = ["OSpawned"] + ops
            elif sp:
                # spawned emitted after the guard: put it where it is
                ops = ops[:1] + ["OSpawned"] + ops[1:]
            spans["task"] = ops
        stray += len(re.findall(RUN_PATS["task"], tm)) - len(re.findall(RUN_PATS["task"], rt))
    for f in ("crates/ripd/src/tasks/pipes.rs", "crates/ripd/src/tasks/pty.rs", "crates/ripd/src/server.rs"):
        src = read(f)
        # the definitions themselves (`async fn run_pipes_task(`) are not calls
        calls = [m for m in re.finditer(RUN_PATS["task"], src) if not re.search(r"fn\s+$", src[:m.start()][-8:])]
        stray += len(calls)

    # ---- rip-tools shell: an abandoned call (runner timeout drops the future) kills its command
    sh_src = read("crates/rip-tools/src/builtins/shell.rs")
    rc = fn_body(sh_src, "run_command")
    abandon_kills = False
    if rc is None:
        problem("shell.rs: run_command not found")
    else:
        sp = re.search(r"\.\s*spawn\s*\(\s*\)", rc)
        kd = re.search(r"\bcmd\s*\.\s*kill_on_drop\s*\(\s*true\s*\)\s*;", rc)
        ncmd = len(re.findall(r"Command::new\s*\(", sh_src))
        abandon_kills = bool(sp and kd and kd.start() < sp.start() and ncmd == 1)

    for k in ("tool", "ro", "loop_tool", "loop_ro", "ckpt", "task"):
        if spans.get(k) is None:
            problem(f"span {k} not extracted")
            spans[k] = []

    ok = not problems
    out = []
    out.append("(* GENERATED by tools/gen/lockspan.py from the rip checkout — do not edit. *)")
    out.append("From RipV Require Import Base.Prelude Model.WsLock.")
    out.append("")
    for p in problems:
        out.append("(* PROBLEM: %s *)" % p.replace("*)", "* )"))
    out.append("Definition gen_ok_lockspans : bool := %s." % ("true" if ok else "false"))
    out.append("")
    out.append("Definition gen_cfg : cfg := {|")
    out.append("  permits := %d;" % (permits if permits is not None else 0))
    out.append("  shared_lock := %s;" % ("true" if shared else "false"))
    out.append("  stray_sites := %d;" % max(stray, 0))
    out.append("  abandon_kills := %s;" % ("true" if abandon_kills else "false"))
    out.append("  class_default_lock := %s;" % ("true" if default_lock else "false"))
    out.append("  class_listed := [%s];" % "; ".join(coq_str(s) for s in (listed or [])))
    out.append("  registered := [%s];" % "; ".join(coq_str(s) for s in registered))
    out.append("  aliases := [%s];" % "; ".join("(%s, %s)" % (coq_str(a), coq_str(t)) for a, t in aliases))
    out.append("  span_tool := %s;" % coq_ops(spans["tool"]))
    out.append("  span_ro := %s;" % coq_ops(spans["ro"]))
    out.append("  span_loop_tool := %s;" % coq_ops(spans["loop_tool"]))
    out.append("  span_loop_ro := %s;" % coq_ops(spans["loop_ro"]))
    out.append("  span_ckpt := %s;" % coq_ops(spans["ckpt"]))
    out.append("  span_task := %s" % coq_ops(spans["task"]))
    out.append("|}.")
    out.append("")
    out.append("(* names as read: default_lock = %s; listed = %s; registered = %s; aliases = %s *)" % (default_lock, listed, registered, aliases))
    out.append("")
    out.append("Lemma gen_lockspans_found : gen_ok_lockspans = true.")
    out.append("Proof. vm_compute. reflexivity. Qed.")
    out.append("")
    out.append("Lemma gen_lockspans_wf : wf_cfg gen_cfg = true.")
    out.append("Proof. vm_compute. reflexivity. Qed.")
    out.append("")
    os.makedirs(a.out, exist_ok=True)
    path = os.path.join(a.out, "LockSpans.v")
    new = "\n".join(out)
    old = None
    try:
        old = open(path).read()
    except OSError:
        pass
    if old != new:
        open(path, "w").write(new)
    print("lockspan: ok=%s permits=%s shared=%s stray=%s default_lock=%s listed=%s registered=%s aliases=%s" % (ok, permits, shared, stray, default_lock, listed, registered, aliases))
    for k in ("tool", "ro", "loop_tool", "loop_ro", "ckpt", "task"):
        print("  span %-9s %s" % (k, " ".join(spans[k])))
    for p in problems:
        print("  PROBLEM:", p)
    return 0


if __name__ == "__main__":
    sys.exit(main())
