#!/usr/bin/env python3
"""T1 extractor for C20: every place in the TUI / headless sources that cuts a string by a BYTE position.

A Rust `String::truncate(n)`, a range slice `s[a..]` / `s[..b]` / `s[a..b]`, `split_at`, `split_off`, `drain(range)`,
`replace_range`, `insert_str` panic when the position falls inside a multi-byte character (the defect class of S18:
`out.truncate(cut)` inside a glyph of the chips line).  The model's cuts (Model/Tui.v drop_to, Model/Summary.v trunc)
are on character boundaries by construction; this extractor ties that modelling decision to the source:

Reads  crates/rip-tui/src/*.rs and crates/rip-cli/src/*.rs (code before `#[cfg(test)] mod tests`)
  * every byte-position cut site, with the receiver classified as a string unless its declaration in the enclosing
    function (let / parameter) or its field type shows a Vec / slice / VecDeque / array (cutting those cannot split
    a character);
  * a string site is GUARDED when, in the same function and before the site, the position variable went through an
    `is_char_boundary(<that variable>)` loop, or was produced by `char_indices` / `find` / `rfind` / `len()` of a
    prefix, or `floor_char_boundary` / `ceil_char_boundary`;
  * every local `fn truncate(…)` must be the character-based one (`.chars().take(` and no byte cut in its body).
Emits coq/Gen/TuiCutSites.v: gen_cut_sites (file, line, kind, is_string, guarded), gen_ok_cut_sites and the obligation
gen_cut_sites_ok: every string site is guarded.  A new raw `String::truncate(n)` / byte slice makes the obligation
false.  The anchors the model relies on (push_output, push_preview in state.rs with their guarded slice; fn truncate
in summary.rs) must be found, otherwise gen_ok_cut_sites := false (never guess)."""
import argparse, glob, os, re, sys

KINDS = ["truncate", "range_slice", "split_at", "split_off", "drain", "replace_range", "insert_str"]
SITE = re.compile(r"(?P<recv>[A-Za-z_][A-Za-z0-9_]*(?:\.[A-Za-z_][A-Za-z0-9_]*(?:\([^()]*\))?)*)\s*(?:"
                  r"\.(?P<meth>truncate|split_at|split_off|drain|replace_range|insert_str)\(\s*(?P<arg>[^;]*)"
                  r"|\[(?P<lo>[^\[\]]*?)\.\.=?(?P<hi>[^\[\]]*?)\])")
NOT_STRING = re.compile(r"Vec<|VecDeque|vec!\[|Vec::|&\[|&mut \[|\[[A-Za-z0-9_:<> ]+;|collect::<Vec|\.split\(|\.lines\(\)\.collect|Rows?<|Line<|Span<|&\[u8\]|Vec<u8>|as_bytes\(\)|\.to_vec\(\)|chunks\(")


def strip_comments(s):
    # keep line structure (line numbers are reported)
    s = re.sub(r"//[^\n]*", "", s)
    return re.sub(r"/\*.*?\*/", lambda m: re.sub(r"[^\n]", " ", m.group(0)), s, flags=re.S)


def functions(lines):
    """(start_line_index, end_line_index, header) of every fn by brace matching"""
    out = []
    i = 0
    while i < len(lines):
        m = re.match(r"\s*(pub(\([a-z]+\))?\s+)?(async\s+)?fn\s+([A-Za-z0-9_]+)", lines[i])
        if not m:
            i += 1
            continue
        depth, j, seen = 0, i, False
        while j < len(lines):
            for ch in re.sub(r'"(\\.|[^"\\])*"', '""', re.sub(r"'(\\.|[^'\\])'", "' '", lines[j])):
                if ch == "{":
                    depth += 1
                    seen = True
                elif ch == "}":
                    depth -= 1
            if seen and depth <= 0:
                break
            j += 1
        out.append((i, j, m.group(4)))
        i += 1
    return out


def first_ident(expr):
    m = re.search(r"[A-Za-z_][A-Za-z0-9_]*", expr or "")
    return m.group(0) if m else None


def main():
    ap = argparse.ArgumentParser()
    ap.add_argument("--repo", required=True)
    ap.add_argument("--out", required=True)
    a = ap.parse_args()
    notes, ok = [], True
    files = sorted(glob.glob(os.path.join(a.repo, "crates/rip-tui/src/*.rs"))) + sorted(glob.glob(os.path.join(a.repo, "crates/rip-cli/src/*.rs")))
    if len(files) < 6 or not any(f.endswith("rip-cli/src/main.rs") for f in files):
        ok = False
        notes.append("expected the rip-tui sources and rip-cli main.rs, found %d files" % len(files))
    sites = []          # (file_index, line, kind_index, is_string, guarded, text)
    fn_defs = []        # (file, line, char_based)
    anchors = {"push_output": False, "push_preview": False, "summary_truncate": False}
    for fi, path in enumerate(files):
        rel = os.path.relpath(path, a.repo)
        try:
            raw = open(path).read()
        except OSError as e:
            ok = False
            notes.append("cannot read %s: %s" % (rel, e))
            continue
        cut = raw.find("#[cfg(test)]\nmod tests")
        src = strip_comments(raw[:cut] if cut >= 0 else raw)
        lines = src.split("\n")
        fields = dict(re.findall(r"^\s*(?:pub(?:\([a-z]+\))?\s+)?([a-z_][a-z0-9_]*)\s*:\s*([^,\n]+),\s*$", src, re.M))
        fns = functions(lines)
        for (s, e, name) in fns:
            body = "\n".join(lines[s:e + 1])
            if name == "truncate":
                char_based = ".chars().take(" in body and not re.search(r"\.truncate\(|\[[^\[\]]*\.\.[^\[\]]*\]", body)
                fn_defs.append((rel, s + 1, char_based))
                if rel.endswith("summary.rs") and char_based:
                    anchors["summary_truncate"] = True
            for li in range(s, e + 1):
                line = re.sub(r'"(\\.|[^"\\])*"', '""', lines[li])
                for m in SITE.finditer(line):
                    recv = m.group("recv")
                    if m.group("meth"):
                        kind = KINDS.index(m.group("meth"))
                        pos = first_ident(m.group("arg"))
                        if m.group("meth") == "drain" and ".." not in (m.group("arg") or ""):
                            continue
                    else:
                        if recv in ("vec", "matches", "assert", "println", "format", "write", "writeln", "json"):
                            continue
                        kind = 1
                        pos = first_ident(m.group("lo")) or first_ident(m.group("hi"))
                        if not (m.group("lo").strip() or m.group("hi").strip()):
                            continue            # s[..] is the whole string
                    base = recv.lstrip("*").split(".")
                    var = base[1] if base[0] == "self" and len(base) > 1 else base[0]
                    before = "\n".join(lines[s:li + 1])
                    decl = re.search(r"(?:let\s+(?:mut\s+)?%s\b[^;]*;|\b%s\s*:\s*[^,)]+[,)])" % (re.escape(var), re.escape(var)), before)
                    decl_txt = decl.group(0) if decl else ""
                    if base[0] == "self" and var in fields:
                        decl_txt += " " + fields[var]
                    is_string = not NOT_STRING.search(decl_txt)
                    guarded = False
                    if pos:
                        if re.search(r"is_char_boundary\(\s*%s\s*\)" % re.escape(pos), before):
                            guarded = True
                        if re.search(r"let\s+(?:mut\s+)?%s\b[^;]*(char_indices|\.r?find\(|floor_char_boundary|ceil_char_boundary)" % re.escape(pos), before):
                            guarded = True
                    elif (m.group("meth") and (m.group("arg") or "").strip().startswith("0")):
                        guarded = True
                    sites.append((fi, li + 1, kind, is_string, guarded, "%s:%d %s" % (rel, li + 1, lines[li].strip()[:90])))
                    if is_string and guarded and rel.endswith("state.rs") and name in ("push_output", "push_preview") and kind == 1:
                        anchors[name] = True
    for k, v in anchors.items():
        if not v:
            ok = False
            notes.append("anchor not found: " + k)
    fns_ok = all(c for (_, _, c) in fn_defs) and len(fn_defs) >= 1
    out = []
    out.append("(* GENERATED by tools/gen/tui_cut_sites.py from crates/rip-tui/src/*.rs and crates/rip-cli/src/*.rs — do not edit. *)")
    out.append("From RipV Require Import Base.Prelude.")
    out.append("")
    out.append("(* a place that cuts by a byte position: file number, line, kind (%s)," % ", ".join("%d %s" % (i, k) for i, k in enumerate(KINDS)))
    out.append("   whether the receiver is a string, whether the position is brought onto a character boundary first *)")
    out.append("Record cut_site := { cs_file : N; cs_line : N; cs_kind : N; cs_string : bool; cs_guarded : bool }.")
    out.append("")
    for i, p in enumerate(files):
        out.append("(* file %d = %s *)" % (i, os.path.relpath(p, a.repo)))
    out.append("Definition gen_cut_sites : list cut_site :=")
    out.append("  [")
    for n, (fi, ln, kind, s, g, txt) in enumerate(sites):
        out.append("    {| cs_file := %d; cs_line := %d; cs_kind := %d; cs_string := %s; cs_guarded := %s |}%s  (* %s *)"
                   % (fi, ln, kind, "true" if s else "false", "true" if g else "false", ";" if n + 1 < len(sites) else "",
                      txt.replace("*)", "* )").replace("(*", "( *")))
    out.append("  ].")
    out.append("")
    for (rel, ln, c) in fn_defs:
        out.append("(* fn truncate at %s:%d : %s *)" % (rel, ln, "character based (.chars().take)" if c else "NOT character based"))
    out.append("Definition gen_cut_fns_char_based : bool := %s." % ("true" if fns_ok else "false"))
    for nline in notes:
        out.append("(* note: %s *)" % nline)
    out.append("Definition gen_ok_cut_sites : bool := %s." % ("true" if ok else "false"))
    out.append("")
    out.append("Definition cut_site_ok (s : cut_site) : bool := negb (cs_string s) || cs_guarded s.")
    out.append("Definition cut_sites_wf (l : list cut_site) : bool := forallb cut_site_ok l.")
    out.append("")
    out.append("(* obligation: every string cut in the TUI / headless sources is on a character boundary *)")
    out.append("Lemma gen_cut_sites_ok : gen_ok_cut_sites && gen_cut_fns_char_based && cut_sites_wf gen_cut_sites = true.")
    out.append("Proof. vm_compute. reflexivity. Qed.")
    os.makedirs(a.out, exist_ok=True)
    with open(os.path.join(a.out, "TuiCutSites.v"), "w") as f:
        f.write("\n".join(out) + "\n")
    print("tui_cut_sites: %d sites (%d on strings, %d unguarded), %d fn truncate, ok=%s %s"
          % (len(sites), sum(1 for x in sites if x[3]), sum(1 for x in sites if x[3] and not x[4]), len(fn_defs), ok, "; ".join(notes)))
    return 0


if __name__ == "__main__":
    sys.exit(main())
