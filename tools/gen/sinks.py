#!/usr/bin/env python3
"""T1 extractor for C03 (four views): every place where ripd publishes a frame feeds ALL its sinks from the
same, unmodified `Event` binding.

Reads (non-test code of)
  crates/ripd/src/continuities.rs   sinks: event_log.append(&X)   stream_cache.append_best_effort(&X)   sender.send(X.clone())
  crates/ripd/src/session.rs        sinks: event_log.append(&X)   <buffer guard>.push(X.clone())         sender.send(X.clone())
  crates/ripd/src/tasks/mod.rs      sinks: event_log.append(&X)   <buffer guard>.push(X.clone())         sender.send(X.clone())
An emit site is one `.send(X.clone())` on a broadcast sender.  For each site the script records which binding
feeds the log append and the store (sidecar / snapshot buffer) next to it, whether the binding is declared
`mut` and whether it is assigned through (`X.f = ..`, `&mut X`) inside the function.
Emits coq/Gen/Sinks.v: gen_sinks : list Wire.sink_site + the obligation `wf_sinks gen_sinks = true` — the
premise under which Model/Wire.v's `emit` (one value to four sinks) is what the code does.
If a file yields no site, or a send does not have the shape `.send(<ident>.clone())`, gen_ok_sinks := false.
"""
import argparse, os, re, sys


def strip_comments(s):
    s = re.sub(r"//[^\n]*", "", s)
    return re.sub(r"/\*.*?\*/", "", s, flags=re.S)


def blank_literals(s):
    """replace the contents of string, raw-string, byte-string and char literals by spaces (same length), so
    that brace / paren matching and the regexes below never see code-looking text inside literals"""
    out, i, n = [], 0, len(s)
    while i < n:
        c = s[i]
        m = re.match(r'b?r(#*)"', s[i:i + 12])
        if m and (i == 0 or not (s[i - 1].isalnum() or s[i - 1] == "_")):
            close = '"' + m.group(1)
            j = s.find(close, i + m.end())
            j = n if j < 0 else j + len(close)
            out.append(s[i:i + m.end()] + " " * max(0, j - len(close) - i - m.end()) + close)
            i = j
        elif c == '"':
            j = i + 1
            while j < n and s[j] != '"':
                j += 2 if s[j] == "\\" else 1
            out.append('"' + " " * (j - i - 1) + '"')
            i = j + 1
        elif c == "'":
            m2 = re.match(r"'(\\.[^']*|[^'\\])'", s[i:i + 12])
            if m2:
                out.append("'" + " " * (m2.end() - 2) + "'")
                i += m2.end()
            else:
                out.append(c)       # a lifetime
                i += 1
        else:
            out.append(c)
            i += 1
    return "".join(out)


def brace_end(src, start):
    depth, j = 1, start
    while depth > 0 and j < len(src):
        c = src[j]
        if c == "{":
            depth += 1
        elif c == "}":
            depth -= 1
        j += 1
    return j


def strip_tests(src):
    """remove `#[cfg(test)] mod x { .. }` blocks"""
    out, i = "", 0
    for m in re.finditer(r"#\s*\[cfg\(test\)\]\s*(?:pub(?:\([a-z]+\))?\s+)?mod\s+\w+\s*\{", src):
        if m.start() < i:
            continue
        out += src[i:m.start()]
        i = brace_end(src, m.end())
    return out + src[i:]


def functions(src):
    """(name, params, body_start, body_end) of every fn"""
    res = []
    for m in re.finditer(r"\bfn\s+(\w+)\s*(?:<[^>{]*>)?\s*\(", src):
        # find the parameter list end, then the body's opening brace
        depth, j = 1, m.end()
        while depth > 0 and j < len(src):
            if src[j] == "(":
                depth += 1
            elif src[j] == ")":
                depth -= 1
            j += 1
        params = src[m.end():j - 1]
        k = j
        while k < len(src) and src[k] not in "{;":
            k += 1
        if k >= len(src) or src[k] == ";":
            continue
        end = brace_end(src, k + 1)
        res.append((m.group(1), params, k + 1, end))
    return res


SEND = re.compile(r"\bsender\s*\.\s*send\s*\(")


def paren_arg(text, start):
    """text[start] is just after '('; returns (argument text, index after the closing paren)"""
    depth, j = 1, start
    while depth > 0 and j < len(text):
        if text[j] == "(":
            depth += 1
        elif text[j] == ")":
            depth -= 1
        j += 1
    return text[start:j - 1].strip(), j
LOG = re.compile(r"\bevent_log\s*\.\s*append\s*\(\s*&\s*(\w+)\s*\)")
SIDE = re.compile(r"\bstream_cache\s*\.\s*append_best_effort\s*\(\s*&\s*(\w+)\s*\)")
PUSH = re.compile(r"\b(?:guard|events|buffer)\s*\.\s*push\s*\(\s*(\w+)\s*\.\s*clone\s*\(\s*\)\s*\)")


def nearest(rx, text, lo, hi, pos):
    """nearest match of rx inside text[lo:hi]: the last one before pos, else the first one after"""
    before, after = None, None
    for m in rx.finditer(text, lo, hi):
        if m.start() < pos:
            before = m
        elif after is None:
            after = m
    return before or after


def sites_of(path, rel, store_rx, notes):
    src = blank_literals(strip_tests(strip_comments(open(path).read())))
    out = []
    for name, params, b0, b1 in functions(src):
        body = src[b0:b1]
        sends = []
        for m in SEND.finditer(body):
            arg, end = paren_arg(body, m.end())
            # control channels carry enum values built in place (`sender.send(TaskControl::Resize { .. })`), not frames
            if re.match(r"[A-Z]\w*::", arg):
                continue
            sends.append((m.start(), end, arg))
        for i, (s0, s1, arg) in enumerate(sends):
            am = re.match(r"(\w+)\s*\.\s*clone\s*\(\s*\)$", arg)
            if not am:
                notes.append(f"{rel}:{name}: sender.send({arg}) is not `<binding>.clone()`")
                out.append({"file": rel, "fn": name, "binding": "?", "log": None, "store": None, "mut": True, "assigned": True,
                            "cont": rel.endswith("continuities.rs"), "order": ["SSend"], "checked": False, "guard_held": False, "gnote": "send of something that is not a binding"})
                continue
            x = am.group(1)
            lo = sends[i - 1][1] if i > 0 else 0
            hi = sends[i + 1][0] if i + 1 < len(sends) else len(body)
            lg = nearest(LOG, body, lo, hi, s0)
            st = nearest(store_rx, body, lo, hi, s0)
            decl_mut = bool(re.search(r"\blet\s+mut\s+" + re.escape(x) + r"\b", body)) or bool(re.search(r"\bmut\s+" + re.escape(x) + r"\s*:", params))
            assigned = bool(re.search(r"\b" + re.escape(x) + r"\s*\.\s*[\w.]+\s*(?:[-+*/|&^]?=)(?!=)", body)) or bool(re.search(r"&\s*mut\s+" + re.escape(x) + r"\b", body))
            def depth_at(pos):
                return body.count("{", 0, pos) - body.count("}", 0, pos)
            # a sink that sits in a deeper block than the send is conditional: not every published frame reaches it
            cond_log = lg is not None and depth_at(lg.start()) != depth_at(s0)
            cond_store = st is not None and depth_at(st.start()) != depth_at(s0)
            # ---- order of the three statements, and what happens to the log append's result
            pos = []
            if lg is not None:
                pos.append((lg.start(), "SLog"))
            if st is not None:
                pos.append((st.start(), "SStore"))
            pos.append((s0, "SSend"))
            order = [nm for _p, nm in sorted(pos)]
            checked = False
            if lg is not None:
                # the statement the append sits in: from the previous `;` / `{` / `}` to the next `;`
                a0 = max(body.rfind(";", 0, lg.start()), body.rfind("{", 0, lg.start()), body.rfind("}", 0, lg.start())) + 1
                a1 = body.find(";", lg.end())
                stmt = body[a0:a1 if a1 >= 0 else len(body)]
                dropped = re.match(r"\s*let\s+_\s*=", stmt) is not None
                # `<..>.append(&x) [.map_err(..)] ?` with nothing swallowing the error in between
                tail = stmt[stmt.find("append"):]
                checked = (not dropped) and re.search(r"\)\s*\?\s*$", tail) is not None \
                    and re.search(r"\.\s*(ok|unwrap_or\w*|or_else|or)\s*\(", tail) is None
            # ---- the seq mutex of the continuity store: still held at the send, counter advanced after it
            guard_held = False
            gnote = ""
            if rel.endswith("continuities.rs"):
                gm = re.search(r"\blet\s+mut\s+(\w+)\s*=\s*self\s*\.\s*next_seq\s*\.\s*lock\s*\(", body)
                gp = re.search(r"\b(\w+)\s*:\s*&\s*mut\s+HashMap\s*<\s*String\s*,\s*u64\s*>", params)
                g = gm.group(1) if gm else (gp.group(1) if gp else None)
                if g is None:
                    gnote = "no seq mutex guard in the function"
                elif gm and gm.start() > (lg.start() if lg else s0):
                    gnote = "the seq mutex is taken after the log append"
                else:
                    ge = re.escape(g)
                    dropped_before = re.search(r"\bdrop\s*\(\s*" + ge + r"\s*\)", body[:s1]) is not None \
                        or re.search(r"\b(?:std\s*::\s*)?mem\s*::\s*drop\s*\(\s*" + ge + r"\s*\)", body[:s1]) is not None
                    advanced_after = re.search(r"\b" + ge + r"\s*\.\s*insert\s*\(", body[s1:hi]) is not None
                    bumped_before = re.search(r"\b" + ge + r"\s*\.\s*insert\s*\([^;]*\+\s*1\s*\)", body[lo:s0]) is not None
                    if dropped_before:
                        gnote = f"drop({g}) before the send: the seq mutex is released before the frame has reached all sinks"
                    elif not advanced_after:
                        gnote = f"no {g}.insert(..) after the send"
                    elif bumped_before:
                        gnote = f"{g}.insert(.., seq + 1) before the send: the counter is advanced before the frame is written"
                    else:
                        guard_held = True
            out.append({"file": rel, "fn": name, "binding": x,
                        "log": (lg.group(1) + (" (conditional)" if cond_log else "")) if lg else None,
                        "store": (st.group(1) + (" (conditional)" if cond_store else "")) if st else None,
                        "mut": decl_mut, "assigned": assigned,
                        "cont": rel.endswith("continuities.rs"), "order": order, "checked": checked,
                        "guard_held": guard_held, "gnote": gnote})
    return out


SHRINK = r"(truncate|drain|remove|swap_remove|pop|pop_front|pop_back|clear|retain|retain_mut|split_off|dedup\w*|resize\w*|set_len|shrink_to\w*|rotate_left|rotate_right)"


def buffer_use_of(repo, notes):
    """the per-session / per-task history buffers (the `events` field of SessionHandle / TaskHandle / TaskEmitter,
       the `buffer` parameter of emit_event): plain Vec<Event>, never shortened, and the snapshot is written from
       the locked buffer itself"""
    res = {"vec": True, "never_shortened": True, "snapshot_source": False}
    ok = True
    names = r"(?:guard|events|buffer|history)"
    seen_decl = 0
    for rel in ("crates/ripd/src/session.rs", "crates/ripd/src/tasks/mod.rs", "crates/ripd/src/runner.rs", "crates/ripd/src/server.rs"):
        p = os.path.join(repo, rel)
        if not os.path.exists(p):
            if rel.endswith(("session.rs", "tasks/mod.rs")):
                notes.append(f"{rel}: file not found")
                ok = False
            continue
        raw = open(p).read()
        src = blank_literals(strip_tests(strip_comments(raw)))
        # declarations of the buffers
        for m in re.finditer(r"\b(events|buffer)\s*:\s*&?\s*(?:'\w+\s+)?Arc\s*<\s*Mutex\s*<\s*([\w:]+)\s*<\s*Event\s*>\s*>\s*>", src):
            seen_decl += 1
            if m.group(2) != "Vec":
                res["vec"] = False
                notes.append(f"{rel}: history buffer `{m.group(1)}` is a {m.group(2)}<Event>, not a Vec<Event>")
        # anything that shortens them
        for m in re.finditer(r"\b" + names + r"\s*\.\s*" + SHRINK + r"\s*\(", src):
            res["never_shortened"] = False
            line = src.count("\n", 0, m.start()) + 1
            notes.append(f"{rel}: `{m.group(0).strip()}..)` shortens a history buffer (around line {line} of the stripped source)")
        for m in re.finditer(r"\bmem\s*::\s*(take|replace|swap)\s*\(\s*&\s*mut\s*\*?\s*" + names + r"\b", src):
            res["never_shortened"] = False
            notes.append(f"{rel}: `{m.group(0).strip()}` empties / replaces a history buffer")
        for m in re.finditer(r"\*\s*" + names + r"\s*=(?!=)", src):
            res["never_shortened"] = False
            notes.append(f"{rel}: `{m.group(0).strip()}` assigns a history buffer")
        # a capacity / limit constant compared with the buffer's length
        for m in re.finditer(r"\b" + names + r"\s*\.\s*len\s*\(\s*\)\s*(>=|>|==)\s*[A-Z][A-Z0-9_]+", src):
            res["never_shortened"] = False
            notes.append(f"{rel}: `{m.group(0).strip()}`: the length of a history buffer is compared with a constant (a cap)")
        if rel.endswith("session.rs"):
            # write_snapshot(<dir>, <id>, &<g>) with `let <g> = events.lock().await;` in the same function
            for name, _params, b0, b1 in functions(src):
                body = src[b0:b1]
                w = re.search(r"\bwrite_snapshot\s*\(", body)
                if not w:
                    continue
                arg, _end = paren_arg(body, w.end())
                last = arg.split(",")[-1].strip()
                gm = re.match(r"&\s*\*?\s*(\w+)$", last)
                if gm and re.search(r"\blet\s+(?:mut\s+)?" + re.escape(gm.group(1)) + r"\s*=\s*events\s*\.\s*lock\s*\(\s*\)\s*\.\s*await\s*;", body[:w.start()]):
                    res["snapshot_source"] = True
                else:
                    notes.append(f"session.rs fn {name}: write_snapshot is not handed the locked `events` buffer itself (argument `{last}`)")
    if seen_decl == 0:
        notes.append("no `events: Arc<Mutex<Vec<Event>>>` declaration found")
        ok = False
    if not res["snapshot_source"] and not any("write_snapshot" in n for n in notes):
        notes.append("session.rs: no write_snapshot(..) call found")
    return res, ok


def coq_bool(b):
    return "true" if b else "false"


def fn_body(src, name):
    for n, _params, b0, b1 in functions(src):
        if n == name:
            return src[b0:b1 - 1]
    return None


def depth_in(text, pos):
    return text.count("{", 0, pos) - text.count("}", 0, pos)


def replay_check_of(repo, notes):
    """shape of ContinuityStreamCache::try_replay and ContinuityStore::replay_events:
       first line seq 0 / successor seqs / empty refused / log fallback.  Anything not found in exactly the
       expected shape is reported as false (never guessed)."""
    res = {"first_zero": False, "successor": False, "empty_refused": False, "fallback_log": False}
    ok = True
    p = os.path.join(repo, "crates/ripd/src/continuity_stream_cache.rs")
    if not os.path.exists(p):
        notes.append("continuity_stream_cache.rs: file not found")
        return res, False
    src = blank_literals(strip_tests(strip_comments(open(p).read())))
    body = fn_body(src, "try_replay")
    if body is None:
        notes.append("continuity_stream_cache.rs: fn try_replay not found")
        return res, False
    lm = re.search(r"\bfor\s+\w+\s+in\s+reader\s*\.\s*lines\s*\(\s*\)\s*\{", body)
    if not lm:
        notes.append("try_replay: no `for .. in reader.lines()` loop")
        return res, False
    l1 = brace_end(body, lm.end())
    pre, loop, post = body[:lm.start()], body[lm.end():l1 - 1], body[l1:]
    cm = re.search(r"\blet\s+mut\s+(\w+)\s*:\s*u64\s*=\s*0\s*;", pre)
    if not cm:
        notes.append("try_replay: no `let mut <counter>: u64 = 0;` before the loop (the first line is not held to seq 0)")
    else:
        v = re.escape(cm.group(1))
        cmp_ = re.search(r"\bif\s+event\s*\.\s*seq\s*!=\s*" + v + r"\s*\{", loop)
        incs = list(re.finditer(r"\b" + v + r"\s*(?:=\s*" + v + r"\s*\.\s*saturating_add\s*\(\s*1\s*\)|\+=\s*1)\s*;", loop))
        assigns = list(re.finditer(r"\b" + v + r"\s*(?:[-+*/|&^]?=)(?!=)", loop))
        if cmp_ and depth_in(loop, cmp_.start()) == 0 and "return Err" in loop[cmp_.end():brace_end(loop, cmp_.end())]:
            res["first_zero"] = True
            if len(incs) == 1 and len(assigns) == 1 and depth_in(loop, incs[0].start()) == 0 and incs[0].start() > cmp_.start():
                res["successor"] = True
            else:
                notes.append(f"try_replay: the counter `{cm.group(1)}` is not advanced by exactly one unconditional `+1` after the comparison")
        else:
            notes.append(f"try_replay: no unconditional `if event.seq != {cm.group(1)} {{ return Err(..) }}` in the loop")
    em = re.search(r"\bif\s+events\s*\.\s*is_empty\s*\(\s*\)\s*\{", post)
    if em and depth_in(post, em.start()) == 0 and "return Err" in post[em.end():brace_end(post, em.end())]:
        res["empty_refused"] = True
    else:
        notes.append("try_replay: no `if events.is_empty() { return Err(..) }` after the loop")
    p2 = os.path.join(repo, "crates/ripd/src/continuities.rs")
    src2 = blank_literals(strip_tests(strip_comments(open(p2).read()))) if os.path.exists(p2) else ""
    b2 = fn_body(src2, "replay_events")
    if b2 is None:
        notes.append("continuities.rs: fn replay_events not found")
        ok = False
    else:
        served_rx = r"\bif\s+let\s+Ok\s*\(\s*Some\s*\(\s*(\w+)\s*\)\s*\)\s*=\s*self\s*\.\s*stream_cache\s*\.\s*try_replay\s*\(\s*continuity_id\s*\)\s*\{\s*return\s+Ok\s*\(\s*\1\s*\)\s*;\s*\}"
        fb_rx = r"\bself\s*\.\s*event_log\s*\.\s*replay_stream\s*\(\s*StreamKind::Continuity\s*,\s*continuity_id\s*\)"

        def served_then_log(b):
            served, fb = re.search(served_rx, b), re.search(fb_rx, b)
            return bool(served and fb and fb.start() > served.end() and depth_in(b, fb.start()) == 0)

        # since the S3-live repair the log fallback runs under the seq mutex in `replay_events_locked` (sidecar tried once
        # more, then the log): replay_events = served | lock; replay_events_locked(id)
        served = re.search(served_rx, b2)
        tail = re.search(r"\bself\s*\.\s*replay_events_locked\s*\(\s*continuity_id\s*\)\s*$", b2.strip())
        b3 = fn_body(src2, "replay_events_locked")
        if served_then_log(b2) or (served and tail and tail.start() > served.end() and b3 is not None and served_then_log(b3)):
            res["fallback_log"] = True
        else:
            notes.append("replay_events: not `if let Ok(Some(x)) = self.stream_cache.try_replay(id) { return Ok(x); }` followed by `self.event_log.replay_stream(StreamKind::Continuity, id)` (directly, or as the same shape in replay_events_locked called last)")
    return res, ok


def payload_bound_of(repo, notes):
    """rip_kernel::MAX_PAYLOAD_NESTING and the places where outside JSON enters a frame and is held to it"""
    bound, guards = 0, []
    p = os.path.join(repo, "crates/rip-kernel/src/lib.rs")
    src = blank_literals(strip_tests(strip_comments(open(p).read()))) if os.path.exists(p) else ""
    m = re.search(r"\bpub\s+const\s+MAX_PAYLOAD_NESTING\s*:\s*usize\s*=\s*(\d+)\s*;", src)
    if m and re.search(r"\bpub\s+fn\s+json_nesting\s*\(", src):
        bound = int(m.group(1))
    else:
        notes.append("rip-kernel: MAX_PAYLOAD_NESTING / json_nesting not found")
    GUARD = re.compile(r"json_nesting\s*\(\s*&\s*([\w.]+)\s*\)\s*(<=|>)\s*(?:rip_kernel\s*::\s*)?MAX_PAYLOAD_NESTING")
    for rel, fn, what in (("crates/rip-provider-openresponses/src/lib.rs", "parse_event", "provider event payload"),
                          ("crates/ripd/src/session.rs", "parse_action", "tool command envelope"),
                          ("crates/ripd/src/session.rs", None, "function-call arguments"),
                          ("crates/ripd/src/server.rs", "create_task", "POST /tasks arguments")):
        q = os.path.join(repo, rel)
        text = blank_literals(strip_tests(strip_comments(open(q).read()))) if os.path.exists(q) else ""
        found = False
        if fn is not None:
            b = fn_body(text, fn)
            if b is None and os.path.exists(q):
                # route strings such as "/x/*y" defeat the comment stripper on this file: look at the raw text
                # that follows the function header
                raw = open(q).read()
                h = re.search(r"\bfn\s+" + fn + r"\s*\(", raw)
                b = raw[h.end():h.end() + 1500] if h else None
            found = b is not None and GUARD.search(b) is not None
        else:
            # the match arm that parses `call.arguments`
            for m2 in re.finditer(r"from_str\s*::\s*<\s*Value\s*>\s*\(\s*&\s*call\s*\.\s*arguments\s*\)", text):
                if GUARD.search(text[m2.end():m2.end() + 400]):
                    found = True
        guards.append(found)
        if not found:
            notes.append(f"{rel}: {what} is not held to MAX_PAYLOAD_NESTING")
    return bound, guards


def log_write_of(repo, notes):
    """EventLog::append writes the line and flushes, unconditionally; the sidecar append flushes too"""
    res = {"writes_line": False, "flush": False, "side_flush": False, "forgets_failed": False}
    p = os.path.join(repo, "crates/rip-log/src/lib.rs")
    if not os.path.exists(p):
        notes.append("rip-log/src/lib.rs: file not found")
        return res, False
    src = blank_literals(strip_tests(strip_comments(open(p).read())))
    body = fn_body(src, "append")
    if body is None:
        notes.append("rip-log: fn append not found")
        return res, False
    w = re.search(r"\bwriter\s*\.\s*write_all\s*\(", body)
    if w and depth_in(body, w.start()) == 0:
        res["writes_line"] = True
    else:
        notes.append("EventLog::append: no unconditional writer.write_all(..)")
    fl = [m for m in re.finditer(r"\bwriter\s*\.\s*flush\s*\(\s*\)\s*\?\s*;", body)]
    if w and any(depth_in(body, m.start()) == 0 and m.start() > w.start() for m in fl):
        res["flush"] = True
    else:
        notes.append("EventLog::append: `writer.flush()?;` is missing or conditional (a frame handed to append is not on disk when append returns)")
    # the writer forgets what a failed write / flush left in its buffer (/repo fix W4): the log's writer is a `LogWriter`
    # whose write, write_all and flush all go through `guarded`, and `guarded` takes the BufWriter apart (`into_parts`:
    # no flush) when the call returned an error
    wt = re.search(r"\bwriter\s*:\s*Mutex\s*<\s*(\w+)\s*>", src)
    gb = fn_body(src, "guarded")
    im = re.search(r"\bimpl\s+Write\s+for\s+LogWriter\s*\{", src)
    routed = False
    if im:
        ib = src[im.end():brace_end(src, im.end())]
        routed = all(re.search(r"\bfn\s+" + f + r"\s*\([^)]*\)[^{]*\{\s*self\s*\.\s*guarded\s*\(", ib) for f in ("write", "write_all", "flush"))
    if wt and wt.group(1) == "LogWriter" and gb is not None and routed:
        e = re.search(r"\bif\s+result\s*\.\s*is_err\s*\(\s*\)\s*\{", gb)
        if e and depth_in(gb, e.start()) == 0 and "into_parts" in gb[e.end():brace_end(gb, e.end())] and not re.search(r"\.\s*flush\s*\(", gb[e.end():brace_end(gb, e.end())]):
            res["forgets_failed"] = True
    if not res["forgets_failed"]:
        notes.append("EventLog: the log's writer keeps the bytes of a failed write / flush (no LogWriter::guarded taking the BufWriter apart on error): the line of a refused append is written by the next successful one")
    p2 = os.path.join(repo, "crates/ripd/src/continuity_stream_cache.rs")
    src2 = blank_literals(strip_tests(strip_comments(open(p2).read()))) if os.path.exists(p2) else ""
    b2 = fn_body(src2, "append_best_effort")
    if b2 is not None:
        w2 = re.search(r"\bwriter\s*\.\s*write_all\s*\(", b2)
        f2 = [m for m in re.finditer(r"\bwriter\s*\.\s*flush\s*\(\s*\)", b2)]
        if w2 and any(depth_in(b2, m.start()) == 0 and m.start() > w2.start() for m in f2):
            res["side_flush"] = True
    if not res["side_flush"]:
        notes.append("append_best_effort: no unconditional writer.flush() after the write")
    return res, True


def top_statements(text):
    """(start, end) of the statements of a block at brace depth 0: split on `;` at depth 0 and after a `}` that closes a
    depth-0 block which is followed by something that is not `else` / `.` / `?` / `;` / `)` / `,`"""
    out, depth, par, st, i, n = [], 0, 0, 0, 0, len(text)
    while i < n:
        c = text[i]
        if c in "([":
            par += 1
        elif c in ")]":
            par -= 1
        elif c == "{":
            depth += 1
        elif c == "}":
            depth -= 1
            if depth == 0 and par == 0:
                rest = text[i + 1:].lstrip()
                if not re.match(r"(else\b|\.|\?|;|\)|,)", rest):
                    out.append((st, i + 1))
                    st = i + 1
        elif c == ";" and depth == 0 and par == 0:
            out.append((st, i + 1))
            st = i + 1
        i += 1
    if text[st:].strip():
        out.append((st, n))
    return out


def const_usize(src, name):
    """value of `const NAME: usize = <product of integer literals>;`"""
    m = re.search(r"\bconst\s+" + re.escape(name) + r"\s*:\s*(?:usize|u64)\s*=\s*([^;]+);", src)
    return int_product(m.group(1)) if m else None


def int_product(expr):
    parts = [p.strip().replace("_", "") for p in expr.split("*")]
    if not parts or not all(re.fullmatch(r"\d+(?:usize|u64)?", p) for p in parts):
        return None
    v = 1
    for p in parts:
        v *= int(re.sub(r"[a-z]\w*$", "", p))
    return v


def gate_of(src, body, side, notes, what):
    """every statement in front of the first `write_all` of an append-to-disk function that can make it return early
    (`return`, `?`), classified; anything not recognised is GOther (never guessed)"""
    w = re.search(r"\bwriter\s*\.\s*write_all\s*\(", body)
    if not w:
        notes.append(f"{what}: no writer.write_all(..)")
        return ["GOther"], False
    pre = body[:w.start()]
    # `if <cond> {` directly in front of the write (the write's own `if ..write_all(..).is_err() { return }`) is not part of pre
    pre = re.sub(r"\bif\s*$", "", pre)
    gate = []
    for a, b in top_statements(pre):
        st = pre[a:b]
        flat = re.sub(r"\s+", " ", st).strip()
        # verification-only statements (hooks: scheduling points, injected failures) do not exist in the production build
        if re.match(r"#\s*\[\s*cfg\s*\(\s*rip_verif\s*\)\s*\]", flat):
            continue
        early = re.search(r"\breturn\b", st) or re.search(r"\?\s*(?:;|\.|\)|,|$)", st)
        if not early:
            continue
        if re.fullmatch(r"let (?:mut )?\w+ = serde_json\s*::\s*to_string\s*\(\s*event\s*\)\s*\.\s*map_err\s*\(.*\)\s*\?\s*;", flat) or \
           re.fullmatch(r"let Ok\s*\(\s*(?:mut )?\w+\s*\) = serde_json\s*::\s*to_string\s*\(\s*event\s*\) else \{ return\s*;? \}\s*;?", flat):
            gate.append("GSerialize")
            continue
        if side and re.fullmatch(r"if event\s*\.\s*stream_kind\s*\(\s*\) != StreamKind\s*::\s*Continuity \{ return\s*;? \}", flat):
            gate.append("GKind")
            continue
        if side and (re.fullmatch(r"let Ok\s*\(\s*\w+\s*\) = OpenOptions\s*::\s*new\s*\(\s*\)[\w\s.()]*\.\s*open\s*\(\s*&\s*\w+\s*\) else \{ return\s*;? \}\s*;?", flat)
                     or re.fullmatch(r"let \w+ = match \w+\s*\.\s*metadata\s*\(\s*\) \{ Ok\s*\(\s*\w+\s*\) => \w+\s*\.\s*len\s*\(\s*\)\s*, Err\s*\(\s*_\s*\) => return\s*,? \}\s*;", flat)):
            gate.append("GIo")
            continue
        m = re.fullmatch(r"if (\w+)\s*\.\s*len\s*\(\s*\) (>=|>) ([\w:]+|[\d_]+(?:\s*\*\s*[\d_]+)*) \{ return Err\s*\(.*\)\s*;? \}", flat)
        if m:
            rhs = m.group(3)
            n = int_product(rhs) if re.match(r"\d", rhs) else const_usize(src, rhs.split("::")[-1])
            if n is not None:
                if m.group(2) == ">=":
                    n -= 1
                gate.append(f"GMaxLine {n}")
                notes.append(f"{what}: refuses a frame whose line is longer than {n} bytes (`{flat[:80]}`)")
                continue
        gate.append("GOther")
        notes.append(f"{what}: unrecognised early return in front of the write: `{flat[:120]}`")
    return gate, True


def append_gates_of(repo, notes):
    """the gate of EventLog::append and of the sidecar append: what can refuse a frame before it is written"""
    p = os.path.join(repo, "crates/rip-log/src/lib.rs")
    p2 = os.path.join(repo, "crates/ripd/src/continuity_stream_cache.rs")
    ok = True
    log_gate, side_gate = ["GOther"], ["GOther"]
    if os.path.exists(p):
        src = blank_literals(strip_tests(strip_comments(open(p).read())))
        body = fn_body(src, "append")
        if body is None:
            notes.append("rip-log: fn append not found")
            ok = False
        else:
            log_gate, k = gate_of(src, body, False, notes, "EventLog::append")
            ok = ok and k
    else:
        ok = False
    if os.path.exists(p2):
        src2 = blank_literals(strip_tests(strip_comments(open(p2).read())))
        b2 = fn_body(src2, "append_best_effort")
        if b2 is None:
            notes.append("continuity_stream_cache.rs: fn append_best_effort not found")
            ok = False
        else:
            side_gate, k = gate_of(src2, b2, True, notes, "append_best_effort")
            ok = ok and k
    else:
        ok = False
    return log_gate, side_gate, ok


def main():
    ap = argparse.ArgumentParser()
    ap.add_argument("--repo", required=True)
    ap.add_argument("--out", required=True)
    a = ap.parse_args()
    notes, sites, ok = [], [], True
    for rel, rx in (("crates/ripd/src/continuities.rs", SIDE), ("crates/ripd/src/session.rs", PUSH), ("crates/ripd/src/tasks/mod.rs", PUSH)):
        p = os.path.join(a.repo, rel)
        if not os.path.exists(p):
            notes.append(f"{rel}: file not found")
            ok = False
            continue
        s = sites_of(p, rel, rx, notes)
        if not s:
            notes.append(f"{rel}: no emit site found")
            ok = False
        sites += s
    if notes:
        ok = ok and not any("is not `<binding>.clone()`" in n for n in notes)
    lines = ["(* GENERATED by tools/gen/sinks.py from crates/ripd/src/{continuities,session,tasks/mod}.rs on every ./check run - do not edit.",
             "   One record per place where ripd publishes a frame: does the same unmodified binding feed the log append, the",
             "   store next to it (sidecar / snapshot buffer) and the broadcast send? *)",
             "From RipV Require Import Base.Prelude Base.Json Model.Wire Model.WireSized.", "",
             f"Definition gen_ok_sinks : bool := {coq_bool(ok)}.", ""]
    for n in notes:
        lines.append(f"(* note: {n} *)")
    lines.append("Definition gen_sinks : list sink_site := [")
    recs = []
    for s in sites:
        x = s["binding"]
        recs.append(f"  (* {s['file']} fn {s['fn']}: send({x}.clone()), log append(&{s['log']}), store <- {s['store']}"
                    f"{', mut' if s['mut'] else ''}{', assigned' if s['assigned'] else ''} *)\n"
                    f"  {{| ss_has_log := {coq_bool(s['log'] is not None)}; ss_same_log := {coq_bool(s['log'] == x)}; "
                    f"ss_has_store := {coq_bool(s['store'] is not None)}; ss_same_store := {coq_bool(s['store'] == x)}; "
                    f"ss_immutable := {coq_bool(not s['mut'] and not s['assigned'])};\n"
                    f"     (* order: {' ; '.join(s['order'])}; log append result {'checked (`?`)' if s['checked'] else 'dropped / not propagated'}"
                    f"{'; ' + s['gnote'] if s['gnote'] else ''} *)\n"
                    f"     ss_cont := {coq_bool(s['cont'])}; ss_order := {{| eo_ops := [{'; '.join(s['order'])}]; eo_log_checked := {coq_bool(s['checked'])} |}}; "
                    f"ss_guard_held := {coq_bool(s['guard_held'])} |}}")
    lines.append(";\n".join(recs))
    lines.append("].")
    lines.append("")
    lines.append("(* the obligation: every emit site of today's source hands one and the same frame to all its sinks *)")
    lines.append("Lemma gen_sinks_ok : gen_ok_sinks && wf_sinks gen_sinks = true.")
    lines.append("Proof. vm_compute. reflexivity. Qed.")
    lines.append("")
    lines.append(f"(* {len(sites)} emit sites *)")
    lines.append("")
    lines.append("(* the obligation on the ORDER: every continuity append path appends to the log first and propagates its error (`?`),")
    lines.append("   then writes the sidecar and publishes, all under the seq mutex; the session / task emitters feed every sink once *)")
    lines.append("Lemma gen_sinks_order_ok : gen_ok_sinks && wf_sinks_order gen_sinks = true.")
    lines.append("Proof. vm_compute. reflexivity. Qed.")
    bnotes = []
    bu, bok = buffer_use_of(a.repo, bnotes)
    lines.append("")
    lines.append("(* the buffers a snapshot is written from: plain Vec<Event>, never shortened, handed to write_snapshot as they are *)")
    for n in bnotes:
        lines.append(f"(* note: {n} *)")
    lines.append(f"Definition gen_ok_buffer : bool := {coq_bool(bok)}.")
    lines.append("Definition gen_buffer_use : buffer_use :=")
    lines.append(f"  {{| bu_vec := {coq_bool(bu['vec'])}; bu_never_shortened := {coq_bool(bu['never_shortened'])}; bu_snapshot_source := {coq_bool(bu['snapshot_source'])} |}}.")
    lines.append("Lemma gen_buffer_use_ok : gen_ok_buffer && wf_buffer_use gen_buffer_use = true.")
    lines.append("Proof. vm_compute. reflexivity. Qed.")
    rnotes = []
    rc, rok = replay_check_of(a.repo, rnotes)
    lw, lok = log_write_of(a.repo, rnotes)
    lines.append("")
    lines.append("(* shape of ContinuityStreamCache::try_replay / ContinuityStore::replay_events (the premise of c03_replay_after_cache_loss)")
    lines.append("   and of the two append-to-disk steps (the premise under which Wire.emit's k_log / k_sidecar are what a fresh reader finds) *)")
    for n in rnotes:
        lines.append(f"(* note: {n} *)")
    lines.append(f"Definition gen_ok_replay : bool := {coq_bool(rok)}.")
    lines.append("Definition gen_replay_check : replay_check :=")
    lines.append(f"  {{| rc_first_zero := {coq_bool(rc['first_zero'])}; rc_successor := {coq_bool(rc['successor'])}; "
                 f"rc_empty_refused := {coq_bool(rc['empty_refused'])}; rc_fallback_log := {coq_bool(rc['fallback_log'])} |}}.")
    lines.append("Lemma gen_replay_check_ok : gen_ok_replay && wf_replay_check gen_replay_check = true.")
    lines.append("Proof. vm_compute. reflexivity. Qed.")
    lines.append("")
    lines.append(f"Definition gen_ok_log_write : bool := {coq_bool(lok)}.")
    lines.append("Definition gen_log_write : log_write :=")
    lines.append(f"  {{| lw_writes_line := {coq_bool(lw['writes_line'])}; lw_flush := {coq_bool(lw['flush'])}; lw_side_flush := {coq_bool(lw['side_flush'])}; lw_forgets_failed := {coq_bool(lw['forgets_failed'])} |}}.")
    lines.append("Lemma gen_log_write_ok : gen_ok_log_write && wf_log_write gen_log_write = true.")
    lines.append("Proof. vm_compute. reflexivity. Qed.")
    bound, guards = payload_bound_of(a.repo, rnotes)
    lines.append("")
    lines.append("(* rip_kernel::MAX_PAYLOAD_NESTING and the four places where JSON from outside enters a frame *)")
    lines.append(f"Definition gen_payload_bound : N := {bound}.")
    lines.append("Definition gen_payload_guards : list bool := [" + "; ".join(coq_bool(g) for g in guards) + "].")
    lines.append("Lemma gen_payload_bound_ok : wf_payload_bound gen_payload_bound gen_payload_guards = true.")
    lines.append("Proof. vm_compute. reflexivity. Qed.")
    gnotes = []
    lg, sg, gok = append_gates_of(a.repo, gnotes)
    lines.append("")
    lines.append("(* the GATE of EventLog::append and of the sidecar append: every statement in front of the write that can make the")
    lines.append("   function return (`return`, `?`).  Expected: the serialiser's `?` only (sidecar: + not-a-continuity-frame, open / metadata")
    lines.append("   failure) - nothing that looks at the frame.  The session / task emitters drop the result of EventLog::append AFTER having")
    lines.append("   recorded and published the frame, so a frame the log refuses is live and in the snapshot and not in the log. *)")
    for n in gnotes:
        lines.append(f"(* note: {n} *)")
    lines.append(f"Definition gen_ok_append_gate : bool := {coq_bool(gok)}.")
    lines.append("Definition gen_append_gate : append_gate := [" + "; ".join(lg) + "].")
    lines.append("Definition gen_side_gate : append_gate := [" + "; ".join(sg) + "].")
    lines.append("Lemma gen_append_gate_ok : gen_ok_append_gate && wf_append_gate gen_append_gate && wf_side_gate gen_side_gate = true.")
    lines.append("Proof. vm_compute. reflexivity. Qed.")
    lines.append("")
    lines.append("(* the correspondence check of the sized streams (harness/src/bin/c03/sized.rs): the model predicts the views of every frame")
    lines.append("   from the gate above and from the order of the emit sites above *)")
    lines.append("Definition gen_sess_order : emit_order := order_of_sites false eo_sess gen_sinks.")
    lines.append("Definition gen_cont_order : emit_order := order_of_sites true eo_cont gen_sinks.")
    lines.append("Definition check_sized : sized_case -> bool := check_sized_with gen_append_gate gen_sess_order gen_cont_order.")
    lines.append("Definition sized_obs : sized_case -> list N := sized_obs_with gen_append_gate gen_sess_order gen_cont_order.")
    notes = notes + rnotes + bnotes + gnotes + [f"{x['fn']}: {x['gnote']}" for x in sites if x.get("gnote")]
    os.makedirs(a.out, exist_ok=True)
    with open(os.path.join(a.out, "Sinks.v"), "w") as f:
        f.write("\n".join(lines) + "\n")
    by = {}
    for s in sites:
        by[s["file"]] = by.get(s["file"], 0) + 1
    print(f"sinks: {len(sites)} emit sites {by}; ok={ok}; notes={notes}")
    return 0


if __name__ == "__main__":
    sys.exit(main())
