#!/usr/bin/env python3
"""T1 extractor for C03 (four views): every place where ripd publishes a frame feeds ALL its sinks from the
same, unmodified `Event` binding.

Reads (non-test code of)
  crates/ripd/src/continuities.rs   sinks: event_log.append(&X)   stream_cache.append_best_effort(&X)   sender.send(X.clone())
  crates/ripd/src/session.rs        sinks: event_log.append(&X)   <buffer guard>.push(X.clone())         sender.send(X.clone())
  crates/ripd/src/tasks/mod.rs      sinks: event_log.append(&X)   <buffer guard>.push(X.clone())         sender.send(X.clone())
An emit site is one `.send(X.clone())` on a broadcast sender.  For each site the script records which binding
feeds the log append and the store (sidecar / snapshot buffer) next to it, whether the binding is declared
`mut` and whether it is assigned through (`X.f = ..`, `&mut X`) inside the function.
Emits coq/Gen/Sinks.v: gen_sinks : list Wire.sink_site + the obligation `wf_sinks gen_sinks = true` — the
premise under which Model/Wire.v's `emit` (one value to four sinks) is what the code does.
If a file yields no site, or a send does not have the shape `.send(<ident>.clone())`, gen_ok_sinks := false.
"""
import argparse, os, re, sys


def strip_comments(s):
    s = re.sub(r"//[^\n]*", "", s)
    return re.sub(r"/\*.*?\*/", "", s, flags=re.S)


def blank_literals(s):
    """replace the contents of string, raw-string, byte-string and char literals by spaces (same length), so
    that brace / paren matching and the regexes below never see code-looking text inside literals"""
    out, i, n = [], 0, len(s)
    while i < n:
        c = s[i]
        m = re.match(r'b?r(#*)"', s[i:i + 12])
        if m and (i == 0 or not (s[i - 1].isalnum() or s[i - 1] == "_")):
            close = '"' + m.group(1)
            j = s.find(close, i + m.end())
            j = n if j < 0 else j + len(close)
            out.append(s[i:i + m.end()] + " " * max(0, j - len(close) - i - m.end()) + close)
            i = j
        elif c == '"':
            j = i + 1
            while j < n and s[j] != '"':
                j += 2 if s[j] == "\\" else 1
            out.append('"' + " " * (j - i - 1) + '"')
            i = j + 1
        elif c == "'":
            m2 = re.match(r"'(\\.[^']*|[^'\\])'", s[i:i + 12])
            if m2:
                out.append("'" + " " * (m2.end() - 2) + "'")
                i += m2.end()
            else:
                out.append(c)       # a lifetime
                i += 1
        else:
            out.append(c)
            i += 1
    return "".join(out)


def brace_end(src, start):
    depth, j = 1, start
    while depth > 0 and j < len(src):
        c = src[j]
        if c == "{":
            depth += 1
        elif c == "}":
            depth -= 1
        j += 1
    return j


def strip_tests(src):
    """remove `#[cfg(test)] mod x { .. }` blocks"""
    out, i = "", 0
    for m in re.finditer(r"#\s*\[cfg\(test\)\]\s*(?:pub(?:\([a-z]+\))?\s+)?mod\s+\w+\s*\{", src):
        if m.start() < i:
            continue
        out += src[i:m.start()]
        i = brace_end(src, m.end())
    return out + src[i:]


def functions(src):
    """(name, params, body_start, body_end) of every fn"""
    res = []
    for m in re.finditer(r"\bfn\s+(\w+)\s*(?:<[^>{]*>)?\s*\(", src):
        # find the parameter list end, then the body's opening brace
        depth, j = 1, m.end()
        while depth > 0 and j < len(src):
            if src[j] == "(":
                depth += 1
            elif src[j] == ")":
                depth -= 1
            j += 1
        params = src[m.end():j - 1]
        k = j
        while k < len(src) and src[k] not in "{;":
            k += 1
        if k >= len(src) or src[k] == ";":
            continue
        end = brace_end(src, k + 1)
        res.append((m.group(1), params, k + 1, end))
    return res


SEND = re.compile(r"\bsender\s*\.\s*send\s*\(")


def paren_arg(text, start):
    """text[start] is just after '('; returns (argument text, index after the closing paren)"""
    depth, j = 1, start
    while depth > 0 and j < len(text):
        if text[j] == "(":
            depth += 1
        elif text[j] == ")":
            depth -= 1
        j += 1
    return text[start:j - 1].strip(), j
LOG = re.compile(r"\bevent_log\s*\.\s*append\s*\(\s*&\s*(\w+)\s*\)")
SIDE = re.compile(r"\bstream_cache\s*\.\s*append_best_effort\s*\(\s*&\s*(\w+)\s*\)")
PUSH = re.compile(r"\b(?:guard|events|buffer)\s*\.\s*push\s*\(\s*(\w+)\s*\.\s*clone\s*\(\s*\)\s*\)")


def nearest(rx, text, lo, hi, pos):
    """nearest match of rx inside text[lo:hi]: the last one before pos, else the first one after"""
    before, after = None, None
    for m in rx.finditer(text, lo, hi):
        if m.start() < pos:
            before = m
        elif after is None:
            after = m
    return before or after


def sites_of(path, rel, store_rx, notes):
    src = blank_literals(strip_tests(strip_comments(open(path).read())))
    out = []
    for name, params, b0, b1 in functions(src):
        body = src[b0:b1]
        sends = []
        for m in SEND.finditer(body):
            arg, end = paren_arg(body, m.end())
            # control channels carry enum values built in place (`sender.send(TaskControl::Resize { .. })`), not frames
            if re.match(r"[A-Z]\w*::", arg):
                continue
            sends.append((m.start(), end, arg))
        for i, (s0, s1, arg) in enumerate(sends):
            am = re.match(r"(\w+)\s*\.\s*clone\s*\(\s*\)$", arg)
            if not am:
                notes.append(f"{rel}:{name}: sender.send({arg}) is not `<binding>.clone()`")
                out.append({"file": rel, "fn": name, "binding": "?", "log": None, "store": None, "mut": True, "assigned": True})
                continue
            x = am.group(1)
            lo = sends[i - 1][1] if i > 0 else 0
            hi = sends[i + 1][0] if i + 1 < len(sends) else len(body)
            lg = nearest(LOG, body, lo, hi, s0)
            st = nearest(store_rx, body, lo, hi, s0)
            decl_mut = bool(re.search(r"\blet\s+mut\s+" + re.escape(x) + r"\b", body)) or bool(re.search(r"\bmut\s+" + re.escape(x) + r"\s*:", params))
            assigned = bool(re.search(r"\b" + re.escape(x) + r"\s*\.\s*[\w.]+\s*(?:[-+*/|&^]?=)(?!=)", body)) or bool(re.search(r"&\s*mut\s+" + re.escape(x) + r"\b", body))
            def depth_at(pos):
                return body.count("{", 0, pos) - body.count("}", 0, pos)
            # a sink that sits in a deeper block than the send is conditional: not every published frame reaches it
            cond_log = lg is not None and depth_at(lg.start()) != depth_at(s0)
            cond_store = st is not None and depth_at(st.start()) != depth_at(s0)
            out.append({"file": rel, "fn": name, "binding": x,
                        "log": (lg.group(1) + (" (conditional)" if cond_log else "")) if lg else None,
                        "store": (st.group(1) + (" (conditional)" if cond_store else "")) if st else None,
                        "mut": decl_mut, "assigned": assigned})
    return out


def coq_bool(b):
    return "true" if b else "false"


def main():
    ap = argparse.ArgumentParser()
    ap.add_argument("--repo", required=True)
    ap.add_argument("--out", required=True)
    a = ap.parse_args()
    notes, sites, ok = [], [], True
    for rel, rx in (("crates/ripd/src/continuities.rs", SIDE), ("crates/ripd/src/session.rs", PUSH), ("crates/ripd/src/tasks/mod.rs", PUSH)):
        p = os.path.join(a.repo, rel)
        if not os.path.exists(p):
            notes.append(f"{rel}: file not found")
            ok = False
            continue
        s = sites_of(p, rel, rx, notes)
        if not s:
            notes.append(f"{rel}: no emit site found")
            ok = False
        sites += s
    if notes:
        ok = ok and not any("is not `<binding>.clone()`" in n for n in notes)
    lines = ["(* GENERATED by tools/gen/sinks.py from crates/ripd/src/{continuities,session,tasks/mod}.rs on every ./check run - do not edit.",
             "   One record per place where ripd publishes a frame: does the same unmodified binding feed the log append, the",
             "   store next to it (sidecar / snapshot buffer) and the broadcast send? *)",
             "From RipV Require Import Base.Prelude Base.Json Model.Wire.", "",
             f"Definition gen_ok_sinks : bool := {coq_bool(ok)}.", ""]
    for n in notes:
        lines.append(f"(* note: {n} *)")
    lines.append("Definition gen_sinks : list sink_site := [")
    recs = []
    for s in sites:
        x = s["binding"]
        recs.append(f"  (* {s['file']} fn {s['fn']}: send({x}.clone()), log append(&{s['log']}), store <- {s['store']}"
                    f"{', mut' if s['mut'] else ''}{', assigned' if s['assigned'] else ''} *)\n"
                    f"  {{| ss_has_log := {coq_bool(s['log'] is not None)}; ss_same_log := {coq_bool(s['log'] == x)}; "
                    f"ss_has_store := {coq_bool(s['store'] is not None)}; ss_same_store := {coq_bool(s['store'] == x)}; "
                    f"ss_immutable := {coq_bool(not s['mut'] and not s['assigned'])} |}}")
    lines.append(";\n".join(recs))
    lines.append("].")
    lines.append("")
    lines.append("(* the obligation: every emit site of today's source hands one and the same frame to all its sinks *)")
    lines.append("Lemma gen_sinks_ok : gen_ok_sinks && wf_sinks gen_sinks = true.")
    lines.append("Proof. vm_compute. reflexivity. Qed.")
    lines.append("")
    lines.append(f"(* {len(sites)} emit sites *)")
    os.makedirs(a.out, exist_ok=True)
    with open(os.path.join(a.out, "Sinks.v"), "w") as f:
        f.write("\n".join(lines) + "\n")
    by = {}
    for s in sites:
        by[s["file"]] = by.get(s["file"], 0) + 1
    print(f"sinks: {len(sites)} emit sites {by}; ok={ok}; notes={notes}")
    return 0


if __name__ == "__main__":
    sys.exit(main())
