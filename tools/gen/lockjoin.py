#!/usr/bin/env python3
"""T1 extractor for C11 ("in progress"): how long an execution that runs a shell command keeps the workspace lock.

The lock span of a background task is `run_task`'s guard scope around `run_pipes_task(..).await` /
`run_pty_task(..).await`; the span of a `bash` tool call is the session's guard scope around the tool run
(tools/gen/lockspan.py reads both).  This script reads what those calls WAIT FOR before they return, i.e. when
the execution counts as over:

  pipes task   the waiter skeleton of run_pipes_task as tools/gen/pump_join.py reads it for C17 (reused, not
               copied): `child.wait()` in the select, then the JOIN of each output pump - JAwait iff the pump's
               JoinHandle is used exactly once, as `<h>.await` at body level (not inside timeout(..), select!, a
               helper, a closure, an `if`; not aborted); anything else is JBounded: the waiter can get past it
               while a process still holds the pipe.  The pump itself must read to end-of-stream
               (pump_output_stream: no timeout / select! / sleep / abort / Instant).
  pty task     the reader thread (spawn_blocking, reads the master until end of output, nothing bounded) is
               awaited plainly on the way out, no `return` before that - or run_pty_task loops until the child has
               been waited for AND the reader thread's channel is closed (pump_join.extract_pty).
  shell tool   run_command drives the two captures and child.wait() by ONE body-level tokio::join!, nothing
               bounded or detached (pump_join.extract_shell); capture_stream reads to end-of-stream.
  runner       SessionEngine::new gives the shared ToolRunner a constant number of slots (literal), the runner's
               semaphore is built from it: with >= 2 slots a read-only call finds one next to the mutating call
               in progress (gen_runner_slots, obligation gen_runner_slots_ok)
  run_task     the guard is taken before the two run_*_task calls, both are awaited as they stand (not spawned,
               not wrapped in timeout / select!), the guard is not dropped before them.

Output coq/Gen/LockJoin.v: the three waiters as `list top` (Model/WsLockTree.v) + obligations
`gen_lockjoin_found` (everything was found) and `gen_lockjoin_wf` (every waiter releases only after both streams
were joined by a plain await).  Nothing is guessed: a construct that is not found makes gen_ok_lockjoin false.
"""
import argparse, os, re, sys

sys.path.insert(0, os.path.dirname(os.path.abspath(__file__)))
import pump_join as pj  # noqa: E402

BOUND = r"\btimeout\s*\(|\bselect!|\bsleep\s*\(|\.\s*abort\s*\(|\bInstant\b|\btimeout_at\s*\(|\binterval\s*\("


def fn_body(src, name):
    m = re.search(r"\bfn\s+" + re.escape(name) + r"\b[^{;]*?\(", src)
    if not m:
        return None
    sig_end = pj.match_close(src, m.end() - 1)
    b0 = src.find("{", sig_end)
    if b0 < 0:
        return None
    return src[b0 + 1:pj.match_close(src, b0) - 1]


def read(repo, *parts):
    p = os.path.join(repo, *parts)
    return pj.sanitize(open(p).read()) if os.path.exists(p) else None


def waiter(joins):
    return ["TAcq", "TSpawn", "TWaitShell"] + joins + ["TRel"]


def main():
    ap = argparse.ArgumentParser()
    ap.add_argument("--repo", required=True)
    ap.add_argument("--out", required=True)
    a = ap.parse_args()
    ok, notes = True, []

    def miss(msg):
        nonlocal ok
        ok = False
        notes.append("NOT FOUND / UNEXPECTED: " + msg)

    # ---- pipes task
    pok, ops, pnotes = pj.extract(a.repo)
    notes += pnotes
    if not pok:
        miss("run_pipes_task: pump_join.py could not read the waiter skeleton")
    order = []
    for o in ops:
        if o == "WSelect":
            order.append("TWaitShell")
        elif o.startswith("WSpawnPump") and "TSpawn" not in order:
            order.append("TSpawn")
        elif o.startswith("WJoin"):
            _, i, k = o.split()
            order.append(f"TJoin {'false' if i == '0' else 'true'} {k}")
    for i, s in ((0, "false"), (1, "true")):
        if not any(x.startswith(f"TJoin {s} ") for x in order):
            notes.append(f"pump {i} is never joined: the waiter does not wait for it")
            order.append(f"TJoin {s} JBounded")
    if "TSpawn" not in order or "TWaitShell" not in order:
        miss("run_pipes_task: spawn of the pumps / select on child.wait()")
    src = read(a.repo, "crates", "ripd", "src", "tasks", "pipes.rs")
    pump = fn_body(src, "pump_output_stream") if src else None
    if pump is None:
        miss("fn pump_output_stream")
    elif re.search(BOUND, pump):
        notes.append("pump_output_stream is bounded in time: " + ", ".join(sorted(set(re.findall(BOUND, pump)))))
        order = [re.sub(r"JAwait", "JBounded", x) for x in order]
    pipes_w = ["TAcq"] + order + ["TRel"]

    # ---- pty task
    pf, pn = pj.extract_pty(a.repo)
    notes += pn
    # the waiter reaches its end only after the pty's output has ended when EITHER its loop runs until the reader
    # thread's channel is closed (C17's facts) OR the reader thread itself - which reads the master until end of
    # output - is awaited plainly on the way out (sufficient for C11 on its own: C17 needs more than that)
    loop_waits = (pf["loop_until_exit_and_output_closed"] and pf["output_closed_only_on_channel_end"])
    reader_joined = False
    ysrc = read(a.repo, "crates", "ripd", "src", "tasks", "pty.rs")
    ybody = fn_body(ysrc, "run_pty_task") if ysrc else None
    if ybody is None:
        miss("fn run_pty_task")
    else:
        ydep = pj.depths(ybody)
        hs = []
        for mm in re.finditer(r"\blet\s+(?:mut\s+)?(\w+)\s*=\s*tokio::task::spawn_blocking\s*\(", ybody):
            if ydep[mm.start()] != 0:
                continue
            inner = ybody[mm.end():pj.match_close(ybody, mm.end() - 1)]
            if "output_tx" in inner and re.search(r"\breader\s*\.\s*read\s*\(", inner) and not re.search(BOUND, inner):
                hs.append((mm.group(1), pj.match_close(ybody, mm.end() - 1)))
        if len(hs) == 1:
            h, after = hs[0]
            uses = [mm.start() for mm in re.finditer(r"\b" + re.escape(h) + r"\b", ybody) if mm.start() >= after]
            reader_joined = (len(uses) == 1 and ydep[uses[0]] == 0
                             and re.match(re.escape(h) + r"\s*\.\s*await\b", ybody[uses[0]:]) is not None
                             and not re.search(r"\breturn\b", ybody[after:uses[0]]))
            notes.append(f"run_pty_task: reader thread `{h}` awaited plainly on the way out: {reader_joined}; loop until output closed: {loop_waits}")
        else:
            notes.append(f"run_pty_task: {len(hs)} reader thread(s) found")
    k = "JAwait" if (reader_joined or (loop_waits and pf["reader_thread_awaited_plainly"])) else "JBounded"
    if k == "JBounded":
        notes.append(f"run_pty_task does not wait for the end of the pty's output: {pf}")
    pty_w = waiter([f"TJoin false {k}", f"TJoin true {k}"])

    # ---- shell tool
    sf, sn = pj.extract_shell(a.repo)
    notes += sn
    k = "JAwait" if all(sf.values()) else "JBounded"
    ssrc = read(a.repo, "crates", "rip-tools", "src", "builtins", "shell.rs")
    cap = fn_body(ssrc, "capture_stream") if ssrc else None
    if cap is None:
        miss("fn capture_stream")
    elif re.search(BOUND, cap):
        notes.append("capture_stream is bounded in time")
        k = "JBounded"
    if k == "JBounded":
        notes.append(f"run_command does not join its captures unconditionally: {sf}")
    tool_w = waiter([f"TJoin false {k}", f"TJoin true {k}"])

    # ---- run_task: both calls awaited as they stand inside the guard scope
    msrc = read(a.repo, "crates", "ripd", "src", "tasks", "mod.rs")
    body = fn_body(msrc, "run_task") if msrc else None
    if body is None:
        miss("fn run_task")
    else:
        acq = re.search(r"\blet\s+(_\w+)\s*=\s*workspace_lock\s*\.\s*acquire\s*\(\s*\)\s*\.\s*await\s*;", body)
        if not acq:
            miss("run_task: `let _guard = workspace_lock.acquire().await;`")
        else:
            for call in ("pipes::run_pipes_task", "pty::run_pty_task"):
                ms = list(re.finditer(re.escape(call) + r"\s*\(", body))
                if len(ms) != 1 or ms[0].start() < acq.end():
                    miss(f"run_task: exactly one call of {call} after the acquire")
                    continue
                end = pj.match_close(body, ms[0].end() - 1)
                if not re.match(r"\s*\.\s*await\b", body[end:]):
                    miss(f"run_task: {call}(..) is not awaited as it stands")
                between = body[acq.end():ms[0].start()]
                if re.search(r"\btokio::spawn\b|\bspawn_blocking\b|" + BOUND, between) or re.search(r"\bdrop\s*\(\s*" + acq.group(1), between):
                    miss(f"run_task: between the acquire and {call}: a spawn / bound / drop of the guard")
            notes.append(f"run_task: guard `{acq.group(1)}` taken before run_pipes_task / run_pty_task, both awaited in place")

    # ---- the tool runner's own throttle: "read-only tools may overlap freely" needs a free slot next to the one
    # mutating call that can be in progress: SessionEngine::new hands ToolRunner::with_checkpoint_hook a CONSTANT
    # with a literal value, and the runner builds its semaphore from it (`.max(1)` at most raising it)
    slots = 0
    rsrc = read(a.repo, "crates", "ripd", "src", "runner.rs")
    tsrc = read(a.repo, "crates", "rip-tools", "src", "runtime.rs")
    if rsrc is None or tsrc is None:
        miss("crates/ripd/src/runner.rs / crates/rip-tools/src/runtime.rs")
    else:
        calls = list(re.finditer(r"\bToolRunner::(?:with_checkpoint_hook|new)\s*\(", rsrc))
        # test modules come after `#[cfg(test)]`
        cut = rsrc.find("#[cfg(test)]")
        calls = [m for m in calls if cut < 0 or m.start() < cut]
        if len(calls) != 1:
            miss(f"runner.rs: exactly one ToolRunner constructor call outside tests (found {len(calls)})")
        else:
            e = pj.match_close(rsrc, calls[0].end() - 1)
            args = [x.strip() for x in rsrc[calls[0].end():e - 1].split(",") if x.strip()]
            if len(args) < 2 or not re.fullmatch(r"[A-Z_][A-Z0-9_]*", args[1]):
                miss(f"runner.rs: the runner's concurrency argument is not a constant ({args[1] if len(args) > 1 else '?'})")
            else:
                c = re.search(r"\bconst\s+" + args[1] + r"\s*:\s*usize\s*=\s*(\d+)\s*;", rsrc)
                if not c:
                    miss(f"runner.rs: `const {args[1]}: usize = <literal>;`")
                else:
                    slots = int(c.group(1))
                    notes.append(f"runner slots: {args[1]} = {slots}")
        body = fn_body(tsrc, "with_checkpoint_hook")
        if body is None or not re.search(r"Semaphore::new\s*\(\s*max_concurrency(?:\s*\.\s*max\s*\(\s*\d+\s*\))?\s*\)", body):
            miss("runtime.rs with_checkpoint_hook: `Semaphore::new(max_concurrency[.max(n)])`")

    def coq(w):
        return "[" + "; ".join(w) + "]"

    lines = [
        "(* GENERATED by tools/gen/lockjoin.py (on top of tools/gen/pump_join.py) from crates/ripd/src/tasks/{mod,pipes,pty}.rs",
        "   and crates/rip-tools/src/builtins/shell.rs on every ./check run -- do not edit.  A committed copy serves as seed",
        "   only.  What an execution that runs a shell command waits for before it gives the workspace lock back (C11, T1). *)",
        "From RipV Require Import Base.Prelude Model.WsLockTree.",
        "",
        f"Definition gen_ok_lockjoin : bool := {'true' if ok else 'false'}.",
        "",
    ]
    for n in notes:
        lines.append("(* " + n.replace("(*", "( *").replace("*)", "* )") + " *)")
    lines += [
        f"Definition gen_pipes_task_waiter : list top := {coq(pipes_w)}.",
        f"Definition gen_pty_task_waiter : list top := {coq(pty_w)}.",
        f"Definition gen_shell_tool_waiter : list top := {coq(tool_w)}.",
        "",
        f"Definition gen_runner_slots : N := {slots}.",
        "",
        "Lemma gen_lockjoin_found : gen_ok_lockjoin = true.",
        "Proof. vm_compute. reflexivity. Qed.",
        "Lemma gen_lockjoin_wf :",
        "  waiter_wf gen_pipes_task_waiter && waiter_wf gen_pty_task_waiter && waiter_wf gen_shell_tool_waiter = true.",
        "Proof. vm_compute. reflexivity. Qed.",
        "Lemma gen_runner_slots_ok : runner_wf gen_runner_slots = true.",
        "Proof. vm_compute. reflexivity. Qed.",
    ]
    os.makedirs(a.out, exist_ok=True)
    open(os.path.join(a.out, "LockJoin.v"), "w").write("\n".join(lines) + "\n")
    for n in notes:
        print(n)
    print("ok:", ok, "pipes:", pipes_w, "pty:", pty_w, "tool:", tool_w)
    return 0


if __name__ == "__main__":
    sys.exit(main())
