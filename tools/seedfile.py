#!/usr/bin/env python3
"""tools/seedfile.py <seed-name> <src SEED dir> <meta json string>: files a confirmed seeded change under seeded/<seed-name>/."""
import sys, os, shutil, json
name, src, meta = sys.argv[1], sys.argv[2], json.loads(sys.argv[3])
root = os.path.dirname(os.path.dirname(os.path.abspath(__file__)))
d = os.path.join(root, "seeded", name)
os.makedirs(d, exist_ok=True)
shutil.copy(os.path.join(src, "patch.diff"), d)
if os.path.exists(os.path.join(src, "README.md")):
    shutil.copy(os.path.join(src, "README.md"), d)
if os.path.isdir(os.path.join(src, "demo")):
    shutil.copytree(os.path.join(src, "demo"), os.path.join(d, "demo"), dirs_exist_ok=True)
for lg in (".demo_with.log", ".demo_without.log"):
    p = os.path.join(src, lg)
    if os.path.exists(p):
        open(os.path.join(d, lg.strip(".")), "w").write(open(p, errors="replace").read()[-6000:])
json.dump(meta, open(os.path.join(d, "meta.json"), "w"), indent=1)
print("filed", d)
