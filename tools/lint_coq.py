#!/usr/bin/env python3
"""Lint of the Coq development, run by ./check on every property:
   * forbidden constructs (Admitted/admit/Axiom/Parameter/Conjecture/Hypothesis|Variable outside a Section,
     guard/positivity/universe switches, Admit Obligations, native_compute) anywhere in the property's closure;
   * every `Print Assumptions` under a property theorem reports `Closed under the global context` or only
     axioms on the property's allow-list;
   * theorem statements in Props/Cxx.v are pinned (props/pins/Cxx.json): a changed statement is reported.
   `python3 tools/lint_coq.py --repin Cxx` rewrites the pins after a deliberate change."""
import re, os, sys, json, hashlib

FORBIDDEN = [
    (r"\bAdmitted\b", "Admitted"), (r"\badmit\b", "admit"), (r"\bAxiom\b", "Axiom"), (r"\bAxioms\b", "Axioms"),
    (r"\bParameter\b", "Parameter"), (r"\bParameters\b", "Parameters"), (r"\bConjecture\b", "Conjecture"),
    (r"Admit\s+Obligations", "Admit Obligations"), (r"Unset\s+Guard\s+Checking", "Unset Guard Checking"),
    (r"Unset\s+Positivity\s+Checking", "Unset Positivity Checking"),
    (r"Unset\s+Universe\s+Checking", "Unset Universe Checking"), (r"bypass_check", "bypass_check"),
    (r"type-in-type", "-type-in-type"), (r"impredicative-set", "-impredicative-set"),
    (r"\bnative_compute\b", "native_compute"), (r"\bgive_up\b", "give_up"),
]


def strip_comments(s):
    out, depth, i = [], 0, 0
    while i < len(s):
        if s.startswith("(*", i):
            depth += 1
            i += 2
        elif s.startswith("*)", i) and depth > 0:
            depth -= 1
            i += 2
        else:
            if depth == 0:
                out.append(s[i])
            elif s[i] == "\n":
                out.append("\n")
            i += 1
    return "".join(out)


def source_closure(coq_dir, roots):
    seen, todo = [], list(roots)
    while todo:
        f = todo.pop()
        if f in seen or not os.path.exists(os.path.join(coq_dir, f)):
            continue
        seen.append(f)
        src = strip_comments(open(os.path.join(coq_dir, f)).read())
        for m in re.finditer(r"From\s+RipV\s+Require\s+(?:Import|Export)\s+([^.]*(?:\.[A-Za-z_][^.\s]*)*)\.", src):
            for mod in m.group(1).split():
                todo.append(mod.replace(".", "/") + ".v")
        for m in re.finditer(r"Require\s+(?:Import|Export)\s+RipV\.([A-Za-z0-9_.]+)\.", src):
            todo.append(m.group(1).replace(".", "/") + ".v")
    return sorted(seen)


def lint_sources(coq_dir, files):
    problems = []
    for f in files:
        src = strip_comments(open(os.path.join(coq_dir, f)).read())
        for rx, name in FORBIDDEN:
            for m in re.finditer(rx, src):
                line = src.count("\n", 0, m.start()) + 1
                problems.append(f"{f}:{line}: forbidden construct `{name}`")
        # Hypothesis / Variable / Context only inside a Section
        depth = 0
        for ln, line in enumerate(src.split("\n"), 1):
            if re.match(r"\s*Section\s+\w+", line):
                depth += 1
            elif re.match(r"\s*End\s+\w+", line) and depth > 0:
                depth -= 1
            elif depth == 0 and re.match(r"\s*(Hypothesis|Hypotheses|Variable|Variables|Context)\b", line):
                problems.append(f"{f}:{ln}: `{line.strip()[:40]}` outside a Section declares an axiom")
    proj = os.path.join(coq_dir, "_CoqProject")
    if os.path.exists(proj):
        txt = open(proj).read()
        for bad in ("-type-in-type", "-impredicative-set", "-vos", "-vok"):
            if bad in txt:
                problems.append(f"_CoqProject passes {bad}")
    return problems


def parse_assumptions(out):
    """Sequence of Print Assumptions results in coqc's output: 'closed' or list of axiom names."""
    res = []
    lines = out.split("\n")
    i = 0
    while i < len(lines):
        l = lines[i]
        if l.startswith("Closed under the global context"):
            res.append("closed")
        elif l.startswith("Axioms:"):
            names = []
            i += 1
            while i < len(lines) and (lines[i].startswith(" ") or re.match(r"^[A-Za-z_][\w.']*\s*:", lines[i])):
                m = re.match(r"^([A-Za-z_][\w.']*)\s*:", lines[i])
                if m:
                    names.append(m.group(1))
                i += 1
            res.append(names)
            continue
        i += 1
    return res


def check_assumptions(results, allowed, expected):
    problems = []
    if len(results) != expected:
        problems.append(f"expected {expected} Print Assumptions results, saw {len(results)}")
    for r in results:
        if r == "closed":
            continue
        for ax in r:
            if ax not in allowed:
                problems.append(f"theorem depends on axiom `{ax}` which is not on the property's allow-list")
    return problems


STMT_RE = re.compile(r"^\s*(Theorem|Example)\s+([A-Za-z0-9_']+)\s*:(.*?)\n\s*Proof\.", re.M | re.S)


def statements(props_path):
    src = strip_comments(open(props_path).read())
    return {m.group(2): hashlib.sha1(re.sub(r"\s+", " ", m.group(3)).strip().encode()).hexdigest()[:16]
            for m in STMT_RE.finditer(src)}


def check_pins(root, pid, props_path):
    pin_path = os.path.join(root, "props", "pins", pid + ".json")
    cur = statements(props_path)
    problems = []
    src = strip_comments(open(props_path).read())
    # every theorem is closed by `exact`
    for m in re.finditer(r"Proof\.(.*?)Qed\.", src, re.S):
        body = m.group(1).strip()
        if not re.fullmatch(r"exact\s+[^.]+(\.[A-Za-z_][\w']*)*\s*\.", body):
            problems.append(f"{os.path.basename(props_path)}: a proof is not a single `exact`: {body[:60]!r}")
    if not os.path.exists(pin_path):
        problems.append(f"no pinned statements for {pid} (run tools/lint_coq.py --repin {pid})")
        return problems
    pins = json.load(open(pin_path))
    for name, h in pins.items():
        if name not in cur:
            problems.append(f"pinned theorem `{name}` disappeared from {os.path.basename(props_path)}")
        elif cur[name] != h:
            problems.append(f"statement of `{name}` differs from its pin")
    for name in cur:
        if name not in pins:
            problems.append(f"theorem `{name}` is not pinned")
    return problems


if __name__ == "__main__":
    root = os.path.dirname(os.path.dirname(os.path.abspath(__file__)))
    if len(sys.argv) >= 3 and sys.argv[1] == "--repin":
        for pid in sys.argv[2:]:
            meta = json.load(open(os.path.join(root, "props", pid + ".json")))
            st = statements(os.path.join(root, "coq", meta["props_file"]))
            os.makedirs(os.path.join(root, "props", "pins"), exist_ok=True)
            json.dump(st, open(os.path.join(root, "props", "pins", pid + ".json"), "w"), indent=1, sort_keys=True)
            print(pid, len(st), "statements pinned")
    else:
        files = source_closure(os.path.join(root, "coq"), sys.argv[1:])
        for p in lint_sources(os.path.join(root, "coq"), files):
            print(p)
