#!/usr/bin/env python3
"""Regenerates MANIFEST.json from props/Cxx.json (claimed checks) and props/not_applicable.json."""
import json, os, glob, subprocess
root = os.path.dirname(os.path.dirname(os.path.abspath(__file__)))
checks = []
claimed = set()
for p in sorted(glob.glob(os.path.join(root, "props", "C*.json"))):
    m = json.load(open(p))
    if not m.get("claimed", True):
        continue
    pid = m["id"]
    claimed.add(pid)
    checks.append({
        "property_id": pid,
        "quick_cmd": f"./check {pid} --tier quick",
        "thorough_cmd": f"./check {pid} --tier thorough",
        "evidence_file": f"/verif/evidence/{pid}.json",
        "replay_cmd_template": f"./check {pid} --replay {{path}}",
        "engine": "coq+rv",
        "level_claimed": {"category": "proof", "text": m["level_text"], "design_ref": m.get("design_ref", "")},
        "level_note": m["level_note"],
        "technique": m["technique"],
    })
na = []
nap = os.path.join(root, "props", "not_applicable.json")
all_ids = [json.loads(l)["id"] for l in open(os.path.join(root, "properties.jsonl"))]
na_given = json.load(open(nap)) if os.path.exists(nap) else {}
for pid in all_ids:
    if pid not in claimed:
        na.append({"property_id": pid, "reason": na_given.get(pid, "not yet claimed: model, proofs and correspondence for this property are not built yet (the technique applies; see DESIGN.md §4)")})
try:
    hooks = subprocess.run(["git", "-C", "/repo", "log", "--format=%H %s", "--grep=^hook:"], capture_output=True, text=True).stdout.strip().split("\n")
    hooks = [h.split()[0] for h in hooks if h.strip()]
except Exception:
    hooks = []
man = {
    "version": 1,
    "setup_cmd": "./setup.sh",
    "hooks": {
        "guard": "rip_verif",
        "enable": "RUSTFLAGS=\"--cfg rip_verif\" (set by ./check and harness/.cargo/config.toml); the harness crate /verif/harness depends on /repo/crates/* by path, so every check rebuilds from /repo's working tree",
        "baseline_off_cmd": "cd /repo && cargo test --workspace --no-fail-fast --offline",
        "source_commits": hooks,
        "add_only": True,
    },
    "engines": [
        {"name": "coq", "path": "/verif/coq", "serves_properties": sorted(claimed), "kind_free_text": "Coq 8.16.1 development: executable Gallina models (Model/), proofs (Proofs/), property theorems (Props/), parts regenerated from /repo on every run (Gen/)"},
        {"name": "rv", "path": "/verif/harness", "serves_properties": sorted(claimed), "kind_free_text": "Rust correspondence harness: runs the real crates (path deps on /repo/crates, --cfg rip_verif) on generated cases, writes cases_*.v that Coq evaluates with vm_compute against the model, and runs an independent property oracle on the implementation"},
    ],
    "checks": checks,
    "not_applicable": na,
    "notes": "Driver: ./check <id> [--tier quick|thorough] [--seed N].  A property is claimed only when its Props/Cxx.v theorems are proved (no Admitted anywhere), its model is tied to the source (Gen/ regeneration and/or correspondence) and the check passes on the current tree.  See DESIGN.md.",
}
json.dump(man, open(os.path.join(root, "MANIFEST.json"), "w"), indent=1)
print("MANIFEST.json:", len(checks), "checks,", len(na), "not claimed")
