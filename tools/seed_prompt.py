#!/usr/bin/env python3
"""Prints the prompt for an independent mutation-seeding agent for property <id> (property text only, nothing from /verif)."""
import json, sys
pid = sys.argv[1]
wt = sys.argv[2]
for l in open('/verif/properties.jsonl'):
    d = json.loads(l)
    if d['id'] == pid:
        break
print(f"""You are testing how well a codebase's properties are protected.  You work ONLY inside the scratch git worktree {wt} (a checkout of the Rust project numman-ali/rip: a harness for coding agents — HTTP/SSE authority `ripd` over an append-only JSONL event log with rebuildable caches).  Do not read or write anything under /verif or /repo, and do not use any information from there.  The sandbox is offline (use `cargo ... --offline`; use `CARGO_TARGET_DIR={wt}/target`).

PROPERTY {pid}: {d['title']}
Statement: {d['statement']}
Quantifier: {d['quantifier']['text']}
Why the existing tests cannot settle it: {d['why_tests_cant']}
Code anchors (files): {', '.join(d['anchors']['files'])}
Mechanisms meant to make it hold: {'; '.join(m['name'] + ' (' + m.get('where','') + ')' for m in d['anchors']['mechanism'])}

YOUR JOB: produce THREE independent, realistic changes to the project's source (each one alone) that BREAK this property while the project STILL COMPILES and its EXISTING TEST SUITE STILL PASSES.  Each change should look like something a developer could plausibly commit (a refactoring slip, an optimisation, an off-by-one, a reordered statement, a narrowed lock, a dropped check, a changed constant) — not sabotage that ordinary use would expose at once.  Prefer changes that need something specific to manifest: a particular interleaving, a crash or fault at a particular point, a multi-step sequence of operations, an unusual input, or two cooperating sites that each look fine alone.  Make the three changes different in kind and in location (different functions/files where possible).  Lines containing `#[cfg(rip_verif)]` and the statement following them are verification hooks compiled out of normal builds: do not modify or rely on them.

For each change k = 1,2,3 deliver, under {wt}/SEED/{pid}-k/:
  - patch.diff  : `git diff` of the change against the worktree's HEAD (source files only; apply with `git apply`);
  - demo/       : a demonstration — a Rust test file (with instructions where to put it) or a small program/script — that FAILS (shows the property violated) with the change applied and PASSES without it; say exactly how to run it;
  - README.md   : what the change does, why it breaks the property, what it needs in order to manifest, and the commands you ran with their results (build, the relevant existing tests, the demo with and without the change).
Procedure per change: apply it in the worktree, `cargo build --offline --workspace`, run at least the existing tests of every crate you touched (`cargo test --offline -p <crate>`; PTY-related tests and a few permission tests — `pty_task_*`, `*_reports_unreadable_*`, `local_authority_recovers_from_stale_lock_under_concurrency…` — already fail in this sandbox at baseline, ignore those; the `pty_task_*` tests of ripd can HANG under plain `cargo test`, so run ripd's tests as `cargo test --offline -p ripd -- --skip pty_task`; the test `pipes_task_applies_cwd_and_env` is flaky at baseline; the machine is shared with many other jobs, so builds are slow — be patient, use generous timeouts, and build/test only the crates you need), run your demo (must fail), revert it (`git apply -R patch.diff` or `git checkout -- <files>`; never `git stash`, `git commit`, `git reset` or branch operations: the repository's refs are shared with other checkouts), run your demo again (must pass), save the files, and leave the worktree clean (`git checkout -- . ; git status` shows only SEED/ and demo files untracked) before starting the next change.  If an existing test catches your change, discard it and design another.  Your final message: a short list of the three changes (one line each: file/function, what it needs to manifest) and the paths of the deliverables.""")
