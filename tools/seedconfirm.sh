#!/bin/sh
# tools/seedconfirm.sh <worktree> <seed-dir> "<demo command>" <crate>...
# Coordinator's own confirmation of a seeded change in its scratch worktree: with the patch the existing tests of the
# touched crates pass (baseline always-fail / flaky tests excepted) and the demo fails; without it the demo passes.
set -u
W="$1"; S="$2"; DEMO="$3"; shift 3
export CARGO_TARGET_DIR="$W/target" CARGO_NET_OFFLINE=true
cd "$W" || exit 2
git checkout -q -- . ; git apply "$S/patch.diff" || { echo "PATCH DOES NOT APPLY"; exit 3; }
echo "## existing tests WITH the change"
for c in "$@"; do
  extra=""; [ "$c" = ripd ] && extra="--skip pty_task"
  timeout 3000 cargo test --offline -p "$c" --no-fail-fast -- $extra 2>&1 | grep -E "^test result|^test .* FAILED|^error(\[|:)" | sort | uniq -c | head -12
done
echo "## demo WITH the change (must fail)"
sh -c "$DEMO" > "$S/.demo_with.log" 2>&1; echo "demo rc=$?"; grep -E "^test result|^test .*(FAILED|ok)$|panicked at" "$S/.demo_with.log" | head -8
git apply -R "$S/patch.diff" || git checkout -q -- .
echo "## demo WITHOUT the change (must pass)"
sh -c "$DEMO" > "$S/.demo_without.log" 2>&1; echo "demo rc=$?"; grep -E "^test result|^test .*(FAILED|ok)$" "$S/.demo_without.log" | head -8
git status --short | grep -v SEED | head -5
