#!/bin/sh
# tools/seedcheck.sh <universe-name> <Cxx> <patch.diff> [check args]
# Runs ./check Cxx of a private universe (worktree of /repo HEAD + synced copy of /verif) against a seeded change,
# prints the verdict lines, and restores the universe's repo.  Nothing in /repo or /verif is touched.
set -u
name="$1"; pid="$2"; patch="$3"; shift 3
U="/var/tmp/u-$name"
[ -d "$U/repo" ] || /verif/tools/universe.sh create "$name" >/dev/null
/verif/tools/universe.sh sync "$name" >/dev/null
git -C "$U/repo" checkout -q -- . 
git -C "$U/repo" apply "$patch" || { echo "PATCH DOES NOT APPLY"; exit 3; }
(cd "$U/verif" && env -u RV_TARGET_DIR ./check "$pid" "$@" 2>&1 | grep -E "^\[C|VIOLATION|KNOWN-FINDING" | cut -c1-400)
rc=$?
for f in "$U"/verif/replays/*.json; do [ -f "$f" ] && { echo "--- $f"; head -c 1500 "$f"; echo; }; done 2>/dev/null | head -60
rm -f "$U"/verif/replays/*.json
git -C "$U/repo" checkout -q -- .
exit 0
