#!/bin/sh
# tools/coq_show.sh <file.v relative to coq/> <line>  — prints the goal before the tactic at <line> (debug aid)
cd /verif/coq
f="$1"; n="$2"; t=/var/tmp/coqshow_$$.v
awk -v n="$n" 'NR==n{print "Show."} {print}' "$f" > "$t"
timeout 300 coqc -Q . RipV -w -all "$t" 2>&1 | head -${3:-60}
rm -f "$t" /var/tmp/coqshow_$$.vo /var/tmp/coqshow_$$.glob /var/tmp/.coqshow_$$.aux /var/tmp/coqshow_$$.vos /var/tmp/coqshow_$$.vok
