//! Helpers shared by the C01 / C02 / C10 harnesses (owner: cont).  Not part of the `rv` lib: each
//! bin includes it with `#[path = "../contlib/mod.rs"] mod contlib;`.
#![allow(dead_code)]
use rip_kernel::{Event, EventKind, StreamKind};
use rip_log::EventLog;
use ripd::ContinuityStore;
use std::path::{Path, PathBuf};
use std::sync::Arc;

/// Names of the EventKind variants in declaration order (= etype codes of coq/Model/Frames.v).
pub const ETYPES: [&str; 38] = [
    "SessionStarted", "OutputTextDelta", "SessionEnded", "ContinuityCreated", "ContinuityMessageAppended",
    "ContinuityRunSpawned", "ContinuityContextSelectionDecided", "ContinuityContextCompiled",
    "ContinuityProviderCursorUpdated", "ContinuityCompactionCheckpointCreated",
    "ContinuityCompactionAutoScheduleDecided", "ContinuityJobSpawned", "ContinuityJobEnded", "ContinuityRunEnded",
    "ContinuityToolSideEffects", "ContinuityBranched", "ContinuityHandoffCreated", "ToolStarted", "ToolStdout",
    "ToolStderr", "ToolEnded", "ToolFailed", "OpenResponsesRequest", "OpenResponsesRequestStarted",
    "OpenResponsesResponseHeaders", "OpenResponsesResponseFirstByte", "ProviderEvent", "CheckpointCreated",
    "CheckpointRewound", "CheckpointFailed", "ToolTaskSpawned", "ToolTaskStatus", "ToolTaskCancelRequested",
    "ToolTaskCancelled", "ToolTaskOutputDelta", "ToolTaskStdinWritten", "ToolTaskResized", "ToolTaskSignalled",
];

pub fn variant_name(k: &EventKind) -> String {
    let d = format!("{k:?}");
    d.split(|c: char| !c.is_alphanumeric()).next().unwrap_or("").to_string()
}
pub fn etype_code(k: &EventKind) -> u64 {
    let n = variant_name(k);
    ETYPES.iter().position(|x| *x == n).map(|i| i as u64).unwrap_or(999)
}
pub fn coq_etype(code: u64) -> String {
    format!("E{}", ETYPES[code as usize])
}
pub fn kind_code(k: StreamKind) -> u64 {
    match k {
        StreamKind::Session => 0,
        StreamKind::Task => 1,
        StreamKind::Continuity => 2,
        StreamKind::Artifact => 3,
    }
}

/// A data dir + workspace root with the real EventLog and ContinuityStore opened on it.
pub struct Env {
    pub root: PathBuf,
    pub data_dir: PathBuf,
    pub ws: PathBuf,
    pub log: Arc<EventLog>,
    pub store: Arc<ContinuityStore>,
}
impl Env {
    pub fn open(root: &Path) -> Env {
        let data_dir = root.join("data");
        let ws = root.join("ws");
        std::fs::create_dir_all(&data_dir).unwrap();
        std::fs::create_dir_all(&ws).unwrap();
        let log = Arc::new(EventLog::new(data_dir.join("events.jsonl")).expect("event log"));
        let store = Arc::new(ContinuityStore::new(data_dir.clone(), ws.clone(), log.clone()).expect("store"));
        Env { root: root.to_path_buf(), data_dir, ws, log, store }
    }
    /// authority restart: every in-memory structure is dropped, the files stay
    pub fn restart(&mut self) {
        let root = self.root.clone();
        *self = Env::open(&root);
    }
    pub fn log_path(&self) -> PathBuf {
        self.data_dir.join("events.jsonl")
    }
    pub fn log_bytes(&self) -> Vec<u8> {
        std::fs::read(self.log_path()).unwrap_or_default()
    }
    pub fn sidecar_path(&self, id: &str) -> PathBuf {
        self.data_dir.join("continuity_streams").join(format!("{id}.jsonl"))
    }
    /// every cache file of one thread (full sidecar, mr/comp sidecars, indexes)
    pub fn cache_files(&self, id: &str) -> Vec<PathBuf> {
        let mut out = vec![];
        if let Ok(rd) = std::fs::read_dir(self.data_dir.join("continuity_streams")) {
            for e in rd.flatten() {
                if e.file_name().to_string_lossy().starts_with(&format!("{id}.")) {
                    out.push(e.path());
                }
            }
        }
        out.sort();
        out
    }
}

#[derive(Clone, Debug)]
pub struct Hdr {
    pub kind: StreamKind,
    pub sid: String,
    pub seq: u64,
    pub code: u64,
    pub id: String,
    pub ev: Event,
}

/// Splits the log into LF-terminated lines (+ unterminated rest) and parses each line as an Event.
/// Err(what) describes the first line that is not a whole frame.
pub fn parse_log(bytes: &[u8]) -> Result<Vec<Hdr>, String> {
    let mut out = vec![];
    let mut start = 0usize;
    for (i, b) in bytes.iter().enumerate() {
        if *b == b'\n' {
            let line = &bytes[start..i];
            let ev: Event = serde_json::from_slice(line).map_err(|e| format!("line {} is not a frame: {e}", out.len()))?;
            // the wire form carries stream_kind/stream_id redundantly: they must agree with the event
            let v: serde_json::Value = serde_json::from_slice(line).map_err(|e| e.to_string())?;
            if v.get("stream_id").and_then(|x| x.as_str()) != Some(ev.stream_id()) {
                return Err(format!("line {}: stream_id differs from session_id", out.len()));
            }
            out.push(Hdr { kind: ev.stream_kind(), sid: ev.stream_id().to_string(), seq: ev.seq, code: etype_code(&ev.kind), id: ev.id.clone(), ev });
            start = i + 1;
        }
    }
    if start != bytes.len() {
        return Err(format!("{} trailing bytes without newline", bytes.len() - start));
    }
    Ok(out)
}

/// [canon stream; seq; etype] per frame, streams named by first appearance (mirrors ContStore.canon_log)
pub fn canon_log(hs: &[Hdr]) -> Vec<u64> {
    let mut keys: Vec<(u64, String)> = vec![];
    let mut out = vec![];
    for h in hs {
        let key = (kind_code(h.kind), h.sid.clone());
        let i = match keys.iter().position(|k| *k == key) {
            Some(i) => i,
            None => {
                keys.push(key);
                keys.len() - 1
            }
        };
        out.push(i as u64);
        out.push(h.seq);
        out.push(h.code);
    }
    out
}

pub fn created_ids(hs: &[Hdr]) -> Vec<String> {
    hs.iter().filter(|h| matches!(h.ev.kind, EventKind::ContinuityCreated { .. })).map(|h| h.sid.clone()).collect()
}

/// independent C01 oracle on a parsed log: every stream is 0,1,2,.. in file order
pub fn first_order_violation(hs: &[Hdr]) -> Option<String> {
    let mut exp: std::collections::HashMap<(u64, String), u64> = Default::default();
    for (i, h) in hs.iter().enumerate() {
        let e = exp.entry((kind_code(h.kind), h.sid.clone())).or_insert(0);
        if h.seq != *e {
            return Some(format!("line {i}: stream {:?}/{} carries seq {} where {} is due", h.kind, &h.sid[..h.sid.len().min(8)], h.seq, *e));
        }
        *e += 1;
    }
    None
}

#[derive(Clone, Copy, Debug, PartialEq, Eq)]
pub enum Fault {
    Delete,
    CutLine,
    TearTail,
    Empty,
    Rollback(usize),
}
impl Fault {
    pub fn name(&self) -> String {
        match self {
            Fault::Delete => "delete".into(),
            Fault::CutLine => "cut_last_line".into(),
            Fault::TearTail => "tear_tail".into(),
            Fault::Empty => "empty".into(),
            Fault::Rollback(k) => format!("rollback_{k}"),
        }
    }
}

fn lines_of(bytes: &[u8]) -> Vec<Vec<u8>> {
    let mut v: Vec<Vec<u8>> = bytes.split(|b| *b == b'\n').map(|l| l.to_vec()).collect();
    if v.last().map(|l| l.is_empty()).unwrap_or(false) {
        v.pop();
    }
    v
}

/// Applies a cache fault to the full sidecar of `id` (the derived caches of the thread are removed
/// as well for Delete, so rebuild paths run).  Returns false when the file does not exist.
pub fn apply_fault(env: &Env, id: &str, f: Fault) -> bool {
    let p = env.sidecar_path(id);
    let Ok(bytes) = std::fs::read(&p) else { return false };
    let lines = lines_of(&bytes);
    let join = |ls: &[Vec<u8>]| {
        let mut b = vec![];
        for l in ls {
            b.extend_from_slice(l);
            b.push(b'\n');
        }
        b
    };
    match f {
        Fault::Delete => {
            for c in env.cache_files(id) {
                let _ = std::fs::remove_file(c);
            }
        }
        Fault::CutLine => {
            let n = lines.len().saturating_sub(1);
            std::fs::write(&p, join(&lines[..n])).unwrap();
        }
        Fault::Rollback(k) => {
            let n = lines.len().saturating_sub(k);
            std::fs::write(&p, join(&lines[..n])).unwrap();
        }
        Fault::TearTail => {
            if let Some(last) = lines.last() {
                let mut b = join(&lines[..lines.len() - 1]);
                b.extend_from_slice(&last[..last.len() / 2]);
                std::fs::write(&p, b).unwrap();
            }
        }
        Fault::Empty => {
            std::fs::write(&p, b"").unwrap();
        }
    }
    true
}
