//! Shared plumbing of the correspondence harness (T2): one PRNG, Coq term printers, the case-file
//! writer, result/evidence records.  Property-specific code lives in src/bin/cXX.rs.
use std::collections::{BTreeMap, BTreeSet};
use std::fmt::Write as _;
use std::path::{Path, PathBuf};

pub mod provider;
pub mod sched;

// ---------------------------------------------------------------- PRNG
#[derive(Clone)]
pub struct Rng(pub u64);
impl Rng {
    pub fn new(seed: u64) -> Self {
        Rng(seed ^ 0x9E37_79B9_7F4A_7C15)
    }
    pub fn next(&mut self) -> u64 {
        self.0 = self.0.wrapping_add(0x9E37_79B9_7F4A_7C15);
        let mut z = self.0;
        z = (z ^ (z >> 30)).wrapping_mul(0xBF58_476D_1CE4_E5B9);
        z = (z ^ (z >> 27)).wrapping_mul(0x94D0_49BB_1331_11EB);
        z ^ (z >> 31)
    }
    /// uniform in 0..n (n > 0)
    pub fn below(&mut self, n: u64) -> u64 {
        self.next() % n
    }
    pub fn range(&mut self, lo: u64, hi_incl: u64) -> u64 {
        lo + self.below(hi_incl - lo + 1)
    }
    pub fn chance(&mut self, num: u64, den: u64) -> bool {
        self.below(den) < num
    }
    pub fn pick<'a, T>(&mut self, xs: &'a [T]) -> &'a T {
        &xs[self.below(xs.len() as u64) as usize]
    }
    pub fn fork(&mut self) -> Rng {
        Rng(self.next())
    }
}

// ---------------------------------------------------------------- args
pub struct Args {
    pub seed: u64,
    pub tier: String,
    pub out: PathBuf,
    pub replay: Option<PathBuf>,
    pub extra: BTreeMap<String, String>,
}
impl Args {
    /// root of the rip checkout the harness was built against (default: ../../repo from the crate)
    pub fn repo(&self) -> PathBuf {
        self.extra.get("repo").map(PathBuf::from).unwrap_or_else(|| PathBuf::from("/repo"))
    }
    /// `--oracle-only 1`: failing-input search mode (skip the Coq case files)
    pub fn oracle_only(&self) -> bool {
        self.extra.get("oracle-only").map(|v| v == "1").unwrap_or(false)
    }
    pub fn thorough(&self) -> bool {
        self.tier == "thorough"
    }
}
pub fn parse_args() -> Args {
    let mut seed = 1u64;
    let mut tier = "quick".to_string();
    let mut out = PathBuf::from("/var/tmp/rv-out");
    let mut replay = None;
    let mut extra = BTreeMap::new();
    let av: Vec<String> = std::env::args().collect();
    let mut i = 1;
    while i < av.len() {
        let k = av[i].clone();
        let v = av.get(i + 1).cloned().unwrap_or_default();
        match k.as_str() {
            "--seed" => seed = v.parse().unwrap_or(1),
            "--tier" => tier = v,
            "--out" => out = PathBuf::from(v),
            "--replay" => replay = Some(PathBuf::from(v)),
            _ => {
                extra.insert(k.trim_start_matches("--").to_string(), v);
            }
        }
        i += 2;
    }
    std::fs::create_dir_all(&out).ok();
    Args { seed, tier, out, replay, extra }
}

// ---------------------------------------------------------------- Coq term printing
pub fn coq_n(x: u64) -> String {
    format!("{x}")
}
pub fn coq_nat(x: u64) -> String {
    format!("{x}%nat")
}
pub fn coq_bool(b: bool) -> &'static str {
    if b {
        "true"
    } else {
        "false"
    }
}
pub fn coq_list<T, F: Fn(&T) -> String>(xs: &[T], f: F) -> String {
    let mut s = String::from("[");
    for (i, x) in xs.iter().enumerate() {
        if i > 0 {
            s.push_str("; ");
        }
        s.push_str(&f(x));
    }
    s.push(']');
    s
}
pub fn coq_list_n(xs: &[u64]) -> String {
    coq_list(xs, |x| coq_n(*x))
}
pub fn coq_opt<T, F: Fn(&T) -> String>(x: &Option<T>, f: F) -> String {
    match x {
        None => "None".to_string(),
        Some(v) => format!("(Some {})", f(v)),
    }
}
/// code points of a Rust string
pub fn cps(s: &str) -> Vec<u64> {
    s.chars().map(|c| c as u64).collect()
}
pub fn coq_str(s: &str) -> String {
    coq_list_n(&cps(s))
}
pub fn coq_bytes(b: &[u8]) -> String {
    coq_list(b, |x| format!("{x}"))
}

// flat observation encoding mirrored by the models (`enc_*` in coq/Model/*.v)
pub fn enc_opt(out: &mut Vec<u64>, o: Option<u64>) {
    match o {
        None => out.push(0),
        Some(x) => {
            out.push(1);
            out.push(x)
        }
    }
}
pub fn enc_str(out: &mut Vec<u64>, s: &str) {
    let c = cps(s);
    out.push(c.len() as u64);
    out.extend(c);
}
pub fn enc_list(out: &mut Vec<u64>, l: &[u64]) {
    out.push(l.len() as u64);
    out.extend_from_slice(l);
}
pub fn enc_bytes(out: &mut Vec<u64>, l: &[u8]) {
    out.push(l.len() as u64);
    out.extend(l.iter().map(|b| *b as u64));
}
pub fn enc_bool(out: &mut Vec<u64>, b: bool) {
    out.push(b as u64)
}

// ---------------------------------------------------------------- case files
/// Writes sharded `cases_<k>.v` files.  Each file defines `cases : list <ty>` and prints
/// `bad_cases <check> cases` (indices of disagreeing cases) plus, for those, the model's own
/// observation, so the driver can report model-vs-implementation differences.
pub struct CaseWriter {
    pub dir: PathBuf,
    pub module: String,   // e.g. "Model.Tui"
    pub check: String,    // e.g. "check_case"
    pub model_obs: String, // e.g. "model_obs" (case -> list N) or "" if none
    pub per_file: usize,
    buf: Vec<String>,
    pub files: Vec<PathBuf>,
    pub total: usize,
    pub base: usize,
}
impl CaseWriter {
    pub fn new(dir: &Path, module: &str, check: &str, model_obs: &str, per_file: usize) -> Self {
        CaseWriter {
            dir: dir.to_path_buf(),
            module: module.to_string(),
            check: check.to_string(),
            model_obs: model_obs.to_string(),
            per_file,
            buf: vec![],
            files: vec![],
            total: 0,
            base: 0,
        }
    }
    /// case ids of this writer start at `base` (several writers in one run must not overlap)
    pub fn with_base(mut self, base: usize) -> Self {
        self.total = base;
        self.base = base;
        self
    }
    pub fn push(&mut self, term: String) -> usize {
        self.buf.push(term);
        self.total += 1;
        let id = self.total - 1;
        if self.buf.len() >= self.per_file {
            self.flush();
        }
        id
    }
    pub fn flush(&mut self) {
        if self.buf.is_empty() {
            return;
        }
        let k = self.files.len();
        let first = self.total - self.buf.len();
        std::fs::create_dir_all(&self.dir).ok();
        let p = self.dir.join(format!("cases_{k}.v"));
        let mut s = String::new();
        writeln!(s, "(* generated by the rv harness; first case id = {first} *)").unwrap();
        writeln!(s, "From RipV Require Import Base.Prelude {}.", self.module).unwrap();
        writeln!(s, "Definition cases := [").unwrap();
        for (i, c) in self.buf.iter().enumerate() {
            writeln!(s, "  {}{}", c, if i + 1 < self.buf.len() { ";" } else { "" }).unwrap();
        }
        writeln!(s, "].").unwrap();
        writeln!(s, "Definition bad := Eval vm_compute in (bad_cases {} cases).", self.check).unwrap();
        writeln!(s, "Goal True. idtac \"RV-FIRST {first}\". idtac \"RV-COUNT {}\". let b := eval cbv delta [bad] in bad in idtac \"RV-BAD\" b. exact I. Qed.", self.buf.len()).unwrap();
        if !self.model_obs.is_empty() {
            writeln!(s, "Definition badobs := Eval vm_compute in (map (fun i => (i, option_map {} (nth_error cases (N.to_nat i)))) (firstn 3 bad)).", self.model_obs).unwrap();
            writeln!(s, "Goal True. let b := eval cbv delta [badobs] in badobs in idtac \"RV-MODEL-OBS\" b. exact I. Qed.").unwrap();
        }
        std::fs::write(&p, s).unwrap();
        self.files.push(p);
        self.buf.clear();
    }
}

// ---------------------------------------------------------------- results
#[derive(serde::Serialize, Default)]
pub struct OracleViolation {
    pub case_id: i64,
    pub what: String,
    /// executable classification of the (shrunk) failing case; matched against KNOWN_FINDINGS "class"
    pub class: String,
    pub replay: serde_json::Value,
}

#[derive(serde::Serialize, Default)]
pub struct RunResult {
    pub property: String,
    pub seed: u64,
    pub tier: String,
    pub evaluations: u64,
    pub distinct_nontrivial: u64,
    pub rule: String,
    pub samples: Vec<serde_json::Value>,
    pub distribution: BTreeMap<String, u64>,
    pub oracle_checks: u64,
    pub oracle_violations: Vec<OracleViolation>,
    pub impl_panics: u64,
    pub case_files: Vec<String>,
    /// case id -> replayable description (only kept for a bounded number of cases)
    pub case_index: BTreeMap<String, serde_json::Value>,
    pub notes: Vec<String>,
}
impl RunResult {
    pub fn new(prop: &str, a: &Args) -> Self {
        RunResult { property: prop.into(), seed: a.seed, tier: a.tier.clone(), ..Default::default() }
    }
    pub fn bump(&mut self, key: &str) {
        *self.distribution.entry(key.to_string()).or_insert(0) += 1;
    }
    pub fn bump_by(&mut self, key: &str, n: u64) {
        *self.distribution.entry(key.to_string()).or_insert(0) += n;
    }
    pub fn write(&self, dir: &Path) {
        std::fs::write(dir.join("result.json"), serde_json::to_string_pretty(self).unwrap()).unwrap();
    }
}

/// counts distinct non-trivial cases by a 64-bit FNV hash of a canonical string
#[derive(Default)]
pub struct Distinct {
    seen: BTreeSet<u64>,
}
impl Distinct {
    pub fn add(&mut self, canon: &str) -> bool {
        let mut h: u64 = 0xcbf29ce484222325;
        for b in canon.as_bytes() {
            h ^= *b as u64;
            h = h.wrapping_mul(0x100000001b3);
        }
        self.seen.insert(h)
    }
    pub fn count(&self) -> u64 {
        self.seen.len() as u64
    }
}

pub fn scratch_dir(tag: &str) -> PathBuf {
    let p = PathBuf::from(format!("/var/tmp/rv-{}-{}-{}", std::process::id(), tag, uuid::Uuid::new_v4().simple()));
    std::fs::create_dir_all(&p).unwrap();
    p
}
pub struct Scratch(pub PathBuf);
impl Scratch {
    pub fn new(tag: &str) -> Self {
        Scratch(scratch_dir(tag))
    }
    pub fn path(&self) -> &Path {
        &self.0
    }
}
impl Drop for Scratch {
    fn drop(&mut self) {
        let _ = std::fs::remove_dir_all(&self.0);
    }
}

/// Generic delta-debugging shrink of a vector: removes chunks while `fails` stays true.
pub fn shrink_vec<T: Clone, F: FnMut(&[T]) -> bool>(mut xs: Vec<T>, mut fails: F) -> Vec<T> {
    let mut chunk = (xs.len() / 2).max(1);
    loop {
        let mut i = 0;
        let mut progress = false;
        while i < xs.len() {
            let end = (i + chunk).min(xs.len());
            let mut cand = xs[..i].to_vec();
            cand.extend_from_slice(&xs[end..]);
            if fails(&cand) {
                xs = cand;
                progress = true;
            } else {
                i += chunk;
            }
        }
        if chunk == 1 {
            if !progress {
                break;
            }
        } else {
            chunk /= 2;
        }
    }
    xs
}
