//! Scripted OpenResponses provider: a tiny HTTP/1.1 server (std::net, one thread) that answers each
//! POST with the next scripted response, using chunked transfer encoding so that the harness decides
//! how the SSE bytes are split on the wire, and can drop the connection at a chosen point.
//! Every received request (headers + body) is recorded.
use std::io::{Read, Write};
use std::net::{TcpListener, TcpStream};
use std::sync::atomic::{AtomicBool, Ordering};
use std::sync::{Arc, Mutex};
use std::time::Duration;

#[derive(Clone, Debug)]
pub struct Scripted {
    pub status: u16,
    pub content_type: String,
    /// body pieces, each sent as one HTTP chunk and flushed
    pub chunks: Vec<Vec<u8>>,
    /// close the socket after this many chunks without the terminating chunk (connection drop)
    pub drop_after_chunks: Option<usize>,
    /// pause between chunks (lets the client observe separate reads)
    pub delay_ms: u64,
    /// echo the request body back as the response body (HTTP error outcome in C19)
    pub echo_request_body: bool,
}
impl Scripted {
    pub fn sse(chunks: Vec<Vec<u8>>) -> Self {
        Scripted { status: 200, content_type: "text/event-stream".into(), chunks, drop_after_chunks: None, delay_ms: 0, echo_request_body: false }
    }
    pub fn sse_text(body: &str) -> Self {
        Self::sse(vec![body.as_bytes().to_vec()])
    }
    pub fn http_error(status: u16, body: &str) -> Self {
        Scripted { status, content_type: "application/json".into(), chunks: vec![body.as_bytes().to_vec()], drop_after_chunks: None, delay_ms: 0, echo_request_body: false }
    }
}

#[derive(Clone, Debug)]
pub struct Recorded {
    pub method: String,
    pub path: String,
    pub headers: Vec<(String, String)>,
    pub body: Vec<u8>,
}
impl Recorded {
    pub fn json(&self) -> serde_json::Value {
        serde_json::from_slice(&self.body).unwrap_or(serde_json::Value::Null)
    }
}

pub struct ScriptedProvider {
    pub url: String,
    pub requests: Arc<Mutex<Vec<Recorded>>>,
    stop: Arc<AtomicBool>,
    addr: std::net::SocketAddr,
    handle: Option<std::thread::JoinHandle<()>>,
}

fn read_request(s: &mut TcpStream) -> Option<Recorded> {
    s.set_read_timeout(Some(Duration::from_secs(5))).ok();
    let mut buf = Vec::new();
    let mut tmp = [0u8; 4096];
    let header_end;
    loop {
        let n = s.read(&mut tmp).ok()?;
        if n == 0 {
            return None;
        }
        buf.extend_from_slice(&tmp[..n]);
        if let Some(p) = buf.windows(4).position(|w| w == b"\r\n\r\n") {
            header_end = p + 4;
            break;
        }
        if buf.len() > 1 << 20 {
            return None;
        }
    }
    let head = String::from_utf8_lossy(&buf[..header_end]).to_string();
    let mut lines = head.split("\r\n");
    let first = lines.next()?;
    let mut parts = first.split(' ');
    let method = parts.next()?.to_string();
    let path = parts.next()?.to_string();
    let mut headers = vec![];
    let mut clen = 0usize;
    for l in lines {
        if let Some((k, v)) = l.split_once(':') {
            let k = k.trim().to_ascii_lowercase();
            let v = v.trim().to_string();
            if k == "content-length" {
                clen = v.parse().unwrap_or(0);
            }
            headers.push((k, v));
        }
    }
    let mut body = buf[header_end..].to_vec();
    while body.len() < clen {
        let n = s.read(&mut tmp).ok()?;
        if n == 0 {
            break;
        }
        body.extend_from_slice(&tmp[..n]);
    }
    Some(Recorded { method, path, headers, body })
}

fn serve_one(mut s: TcpStream, script: Option<Scripted>, reqs: &Arc<Mutex<Vec<Recorded>>>) {
    let Some(req) = read_request(&mut s) else { return };
    let body_echo = req.body.clone();
    reqs.lock().unwrap().push(req);
    let sc = script.unwrap_or_else(|| Scripted::http_error(500, "{\"error\":\"script exhausted\"}"));
    let reason = if sc.status == 200 { "OK" } else { "ERR" };
    let head = format!(
        "HTTP/1.1 {} {}\r\ncontent-type: {}\r\ntransfer-encoding: chunked\r\nconnection: close\r\n\r\n",
        sc.status, reason, sc.content_type
    );
    if s.write_all(head.as_bytes()).is_err() {
        return;
    }
    let _ = s.flush();
    let chunks: Vec<Vec<u8>> = if sc.echo_request_body { vec![body_echo] } else { sc.chunks.clone() };
    for (i, c) in chunks.iter().enumerate() {
        if let Some(k) = sc.drop_after_chunks {
            if i >= k {
                let _ = s.shutdown(std::net::Shutdown::Both);
                return;
            }
        }
        if c.is_empty() {
            continue;
        }
        if s.write_all(format!("{:x}\r\n", c.len()).as_bytes()).is_err() {
            return;
        }
        if s.write_all(c).is_err() || s.write_all(b"\r\n").is_err() {
            return;
        }
        let _ = s.flush();
        if sc.delay_ms > 0 {
            std::thread::sleep(Duration::from_millis(sc.delay_ms));
        }
    }
    if let Some(k) = sc.drop_after_chunks {
        if chunks.len() >= k {
            let _ = s.shutdown(std::net::Shutdown::Both);
            return;
        }
    }
    let _ = s.write_all(b"0\r\n\r\n");
    let _ = s.flush();
}

impl ScriptedProvider {
    /// Starts the server; request k is answered with `script[k]` (500 afterwards).
    pub fn start(script: Vec<Scripted>) -> ScriptedProvider {
        let listener = TcpListener::bind("127.0.0.1:0").expect("bind");
        let addr = listener.local_addr().unwrap();
        let requests = Arc::new(Mutex::new(Vec::new()));
        let stop = Arc::new(AtomicBool::new(false));
        let reqs = requests.clone();
        let stop2 = stop.clone();
        let script = Arc::new(Mutex::new(script.into_iter().collect::<std::collections::VecDeque<_>>()));
        let handle = std::thread::spawn(move || {
            for conn in listener.incoming() {
                if stop2.load(Ordering::SeqCst) {
                    break;
                }
                let Ok(s) = conn else { continue };
                let next = script.lock().unwrap().pop_front();
                let reqs = reqs.clone();
                // one thread per connection so parallel runs do not serialise on the provider
                std::thread::spawn(move || serve_one(s, next, &reqs));
            }
        });
        ScriptedProvider { url: format!("http://{addr}/v1/responses"), requests, stop, addr, handle: Some(handle) }
    }
    pub fn recorded(&self) -> Vec<Recorded> {
        self.requests.lock().unwrap().clone()
    }
}
impl Drop for ScriptedProvider {
    fn drop(&mut self) {
        self.stop.store(true, Ordering::SeqCst);
        let _ = TcpStream::connect(self.addr);
        if let Some(h) = self.handle.take() {
            let _ = h.join();
        }
    }
}

/// `event: <name>\ndata: <json>\n\n`
pub fn sse_event(name: &str, data: &serde_json::Value) -> String {
    format!("event: {name}\ndata: {}\n\n", serde_json::to_string(data).unwrap())
}
pub const SSE_DONE: &str = "data: [DONE]\n\n";
