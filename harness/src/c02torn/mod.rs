//! C02, fourth round (builder log02d): the truth log across RESTARTS, whatever state a crash or a partial write
//! left the file in.  "Opening / restarting / reading never rewrites events.jsonl": a file state is built (whole
//! frames written through the real `EventLog` / `ContinuityStore`, then an unterminated tail of n bytes put at the
//! end the way a write(2) that was cut short leaves it), then the log is opened again and again through every open
//! path (`EventLog::new`, `ContinuityStore::new`, `SessionEngine::new` = what the CLI's local mode and the
//! authority start call, `build_app`), read through every reader, and appended to.  Oracle, after EVERY step, on the
//! bytes of events.jsonl alone: the previous content is an exact prefix; an open or a read adds nothing; an append
//! adds exactly its frame and newline BEHIND whatever was there (what the unchanged code does: O_APPEND, the open
//! does not look at the tail - Model/LogFile.v, theorem c02_append_after_torn_tail).  The log-level steps are also
//! compared with Model/LogFile.v in Coq (bytes in the file and bytes after the last LF, after every step).
use super::*;

#[derive(Clone, Copy, Debug, PartialEq, Eq)]
pub enum TailKind {
    /// the first n bytes of a frame line that is longer than n (died inside the write of one frame)
    FramePrefix,
    /// a whole frame (valid JSON) of n bytes whose newline did not make it; below the size of the smallest frame: a JSON number of n digits
    WholeFrameNoNewline,
    /// n bytes that are no JSON, no line end among them
    Garbage,
    /// the same with ONE line end inside (at a third of the way): the torn region itself holds a line end
    GarbageInnerNewline,
}
pub const TAILKINDS: [TailKind; 4] = [TailKind::FramePrefix, TailKind::WholeFrameNoNewline, TailKind::Garbage, TailKind::GarbageInnerNewline];

#[derive(Clone, Copy, Debug, PartialEq, Eq)]
pub enum Base {
    /// no file content at all: with a tail, a file that is a single unterminated line
    Empty,
    OneSmallFrame,
    ThreeSmallFrames,
    /// two small frames and one of 100 kB last: the last 64 KiB of the whole lines hold ONE line end
    SmallThenBigFrame,
    /// 300 frames of 300 bytes: more than 64 KiB of whole small lines
    ManySmallFrames,
    /// a thread made through the real store: ensure_default + 4 messages (index.json and the caches exist)
    StoreThread,
}
#[allow(dead_code)]
pub const BASES: [Base; 6] = [Base::Empty, Base::OneSmallFrame, Base::ThreeSmallFrames, Base::SmallThenBigFrame, Base::ManySmallFrames, Base::StoreThread];

#[derive(Clone, Debug)]
pub enum TStep {
    Torn { n: usize, kind: TailKind },
    /// `EventLog::new(path)`; the handle is kept for the following Reads / Append
    Open,
    /// every reader of `EventLog` on a fresh handle: replay, replay_validated, replay_stream, replay_session, last_seq
    Reads,
    /// `EventLog::append` of a frame whose line has `total` bytes, on the handle of the last Open
    Append { total: usize },
    /// `EventLog::new` + `ContinuityStore::new` (an authority / CLI start), kept
    StoreOpen,
    /// every read-only capability of the store, for every thread the whole lines of the log name + `../events`
    StoreReads,
    /// ensure_default + append_message through the open store
    StoreAppend,
    /// `SessionEngine::new(data_dir, workspace, None)` (what `SessionEngine::new_default` - the CLI's local mode - and the server call), dropped again
    Engine,
    /// `build_app` + the read-only / dry-run routes
    Router,
}

/// The integer literals of crates/rip-log/src/lib.rs (tests included: they say which sizes the authors thought of),
/// products `a * b` of two adjacent literals, std's BufWriter capacity and powers of two: every value v in
/// 1..=600000 gives the tail sizes v-1, v, v+1.
pub fn tail_sizes(repo: &std::path::Path, thorough: bool) -> Vec<usize> {
    let src = std::fs::read_to_string(repo.join("crates").join("rip-log").join("src").join("lib.rs")).unwrap_or_default();
    let b = src.as_bytes();
    let mut lits: Vec<(usize, usize, u64)> = vec![]; // (start, end, value)
    let mut i = 0;
    while i < b.len() {
        if b[i].is_ascii_digit() && (i == 0 || !(b[i - 1].is_ascii_alphanumeric() || b[i - 1] == b'_')) {
            let s = i;
            let mut v: u64 = 0;
            while i < b.len() && (b[i].is_ascii_digit() || b[i] == b'_') {
                if b[i] != b'_' {
                    v = v.saturating_mul(10).saturating_add((b[i] - b'0') as u64);
                }
                i += 1;
            }
            lits.push((s, i, v));
        } else {
            i += 1;
        }
    }
    let mut vals: Vec<u64> = lits.iter().map(|l| l.2).collect();
    for w in lits.windows(2) {
        if src[w[0].1..w[1].0].trim() == "*" {
            vals.push(w[0].2.saturating_mul(w[1].2));
        }
    }
    vals.extend([1u64, 2, 8192, 16_384, 32_768, 65_536, 131_072, 262_144, 300_000, 500_000]);
    let mut out: Vec<usize> = vec![];
    for v in vals {
        if (1..=600_000).contains(&v) {
            for d in [v - 1, v, v + 1] {
                if d >= 1 {
                    out.push(d as usize);
                }
            }
        }
    }
    out.sort();
    out.dedup();
    if !thorough {
        // quick: every boundary triple up to 100001 and the large ones without their neighbours
        out.retain(|n| *n <= 100_001 || [131_072usize, 131_073, 262_145, 300_000, 500_000].contains(n));
    }
    out
}

pub fn torn_bytes(n: usize, kind: TailKind, seq: u64) -> (Vec<u8>, usize) {
    let garbage = |n: usize| -> Vec<u8> { b"\xfe\x00#{not json".iter().copied().cycle().take(n).collect() };
    match kind {
        TailKind::FramePrefix => {
            let mut l = serde_json::to_vec(&delta_event("s-torn", seq, n + 200, false)).unwrap();
            l.truncate(n);
            (l, 0)
        }
        TailKind::WholeFrameNoNewline => {
            let l = serde_json::to_vec(&delta_event("s-torn", seq, n + 1, false)).unwrap();
            if l.len() == n {
                (l, 0)
            } else {
                (b"1234567890".iter().copied().cycle().take(n).collect(), 0)
            }
        }
        TailKind::Garbage => (garbage(n), 0),
        TailKind::GarbageInnerNewline => {
            let mut g = garbage(n);
            if n >= 2 {
                g[n / 3] = b'\n';
                (g, n / 3 + 1)
            } else {
                (g, 0)
            }
        }
    }
}

/// what a write(2) that was cut short leaves: the bytes at the end of the file, nothing else touched
pub fn put_torn_tail(path: &std::path::Path, bytes: &[u8]) -> bool {
    use std::io::Write;
    if let Some(p) = path.parent() {
        let _ = std::fs::create_dir_all(p);
    }
    match std::fs::OpenOptions::new().create(true).append(true).open(path) {
        Ok(mut f) => f.write_all(bytes).is_ok(),
        Err(_) => false,
    }
}

/// frames of the lines that parse (a torn tail, a glued line or garbage is skipped)
pub fn parse_log_lenient(bytes: &[u8]) -> Vec<Hdr> {
    let mut out = vec![];
    let mut start = 0;
    for (i, b) in bytes.iter().enumerate() {
        if *b == b'\n' {
            if let Ok(mut h) = parse_log(&bytes[start..=i]) {
                out.append(&mut h);
            }
            start = i + 1;
        }
    }
    out
}

fn unterminated(b: &[u8]) -> u64 {
    (b.len() - b.iter().rposition(|x| *x == b'\n').map(|i| i + 1).unwrap_or(0)) as u64
}

fn build_base(root: &std::path::Path, base: Base) {
    let path = root.join("data").join("events.jsonl");
    let frames: Vec<usize> = match base {
        Base::Empty => vec![],
        Base::OneSmallFrame => vec![300],
        Base::ThreeSmallFrames => vec![200, 300, 250],
        Base::SmallThenBigFrame => vec![200, 300, 100_000],
        Base::ManySmallFrames => vec![300; 300],
        Base::StoreThread => {
            let env = Env::open(root);
            if let Ok(id) = env.store.ensure_default() {
                for i in 0..4 {
                    let _ = env.store.append_message(&id, "user".into(), "harness".into(), format!("message {i} before the crash"));
                }
            }
            return;
        }
    };
    std::fs::create_dir_all(root.join("data")).unwrap();
    std::fs::create_dir_all(root.join("ws")).unwrap();
    if !frames.is_empty() {
        let log = rip_log::EventLog::new(&path).expect("event log");
        for (i, t) in frames.iter().enumerate() {
            let _ = log.append(&delta_event("s-base", i as u64, *t, false));
        }
    }
}

struct Run<'a> {
    res: &'a mut RunResult,
    case_id: i64,
    label: String,
    done: Vec<serde_json::Value>,
    failed: bool,
}
impl Run<'_> {
    fn viol(&mut self, what: String, class: &str) {
        if self.failed {
            return; // one report per case: the first step that breaks the property
        }
        self.failed = true;
        let replay = json!({"kind": "torn_tail_restart", "case": self.label, "steps_up_to_the_failing_one": self.done});
        push_violation(self.res, self.case_id, format!("{}: {what}", self.label), class, replay);
    }
    /// an open / read step: same bytes
    fn same(&mut self, before: &[u8], after: &[u8], who: &str) {
        self.res.oracle_checks += 1;
        if after.len() < before.len() || after[..before.len()] != before[..] {
            let lines = before.iter().filter(|b| **b == b'\n').count();
            self.viol(format!("{who}: the previous content of events.jsonl ({} bytes: {lines} whole line(s) + an unterminated tail of {} byte(s)) is no longer a prefix of its content ({} bytes) - opening / reading rewrote the truth log", before.len(), unterminated(before), after.len()), "log_prefix_changed");
        } else if after.len() != before.len() {
            self.viol(format!("{who}: an open / read added {} byte(s) to events.jsonl", after.len() - before.len()), "open_or_read_wrote_to_the_log");
        }
    }
}

/// One case: the base, then the steps; returns the CLogFile term (log-level steps only; None when a store-level append is in the script).
#[allow(clippy::too_many_arguments)]
pub fn run_torn_case(res: &mut RunResult, case_id: i64, label: &str, base: Base, steps: &[TStep], rt: &tokio::runtime::Runtime) -> (Option<String>, usize) {
    let sc = Scratch::new("c02torn");
    let root = sc.path().to_path_buf();
    build_base(&root, base);
    let (data, ws) = (root.join("data"), root.join("ws"));
    let path = data.join("events.jsonl");
    let read = || std::fs::read(&path).unwrap_or_default();
    let mut run = Run { res, case_id, label: label.to_string(), done: vec![json!(format!("base = {base:?}"))], failed: false };
    // the model case: the base as appends of its line lengths, then one op per log-level step
    let mut ops: Vec<String> = vec![];
    let mut obs: Vec<u64> = vec![];
    let mut modelled = true;
    let mut frozen: Option<(Vec<String>, Vec<u64>)> = None;
    {
        let b = read();
        let mut start = 0usize;
        let mut sofar = 0u64;
        for (i, x) in b.iter().enumerate() {
            if *x == b'\n' {
                ops.push(format!("LAppend {}", i + 1 - start));
                sofar += (i + 1 - start) as u64;
                obs.extend([sofar, 0]);
                start = i + 1;
            }
        }
        if start != b.len() {
            modelled = false; // (never: the base is written through append)
        }
    }
    let mut log: Option<rip_log::EventLog> = None;
    let mut env: Option<Env> = None;
    let mut seq = 1000u64;
    for step in steps {
        if run.failed {
            break;
        }
        run.done.push(json!(format!("{step:?}")));
        run.res.bump(&format!("torn_step={}", format!("{step:?}").split([' ', '{']).next().unwrap_or("")));
        let before = read();
        match step {
            TStep::Torn { n, kind } => {
                let (bytes, k) = torn_bytes(*n, *kind, seq);
                seq += 1;
                if !put_torn_tail(&path, &bytes) {
                    run.viol("harness: could not write the torn tail".into(), "harness_torn_tail_failed");
                }
                ops.push(format!("LTorn {} {}", bytes.len(), k));
                run.res.bump(&format!("torn_tail_kind={kind:?}"));
            }
            TStep::Open => {
                let r = std::panic::catch_unwind(std::panic::AssertUnwindSafe(|| rip_log::EventLog::new(&path)));
                match r {
                    Ok(Ok(l)) => log = Some(l),
                    Ok(Err(_)) => {}
                    Err(_) => run.viol("EventLog::new panicked".into(), "panic"),
                }
                run.same(&before, &read(), "EventLog::new");
                ops.push("LOpen".into());
            }
            TStep::Reads => {
                let r = std::panic::catch_unwind(std::panic::AssertUnwindSafe(|| {
                    let l = rip_log::EventLog::new(&path).ok()?;
                    let mut oks = 0u64;
                    oks += l.replay().is_ok() as u64;
                    let a1 = read();
                    oks += l.replay_validated().is_ok() as u64;
                    oks += l.replay_stream(rip_kernel::StreamKind::Session, "s-base").is_ok() as u64;
                    oks += l.replay_session("s-torn").is_ok() as u64;
                    let a2 = read();
                    oks += l.last_seq(rip_kernel::StreamKind::Session, "s-base").is_ok() as u64;
                    oks += l.last_seq(rip_kernel::StreamKind::Session, "no-such-stream").is_ok() as u64;
                    oks += l.last_seq(rip_kernel::StreamKind::Continuity, "s-base").is_ok() as u64;
                    Some((oks, a1, a2))
                }));
                match r {
                    Ok(Some((oks, a1, a2))) => {
                        run.res.bump_by("torn_reader_calls_ok", oks);
                        run.res.bump_by("torn_reader_calls", 7);
                        run.same(&before, &a1, "EventLog::new + replay");
                        run.same(&before, &a2, "replay_validated / replay_stream / replay_session");
                    }
                    Ok(None) => {}
                    Err(_) => run.viol("a reader of EventLog panicked".into(), "panic"),
                }
                run.same(&before, &read(), "last_seq");
                ops.push("LRead".into());
            }
            TStep::Append { total } => {
                if log.is_none() {
                    log = rip_log::EventLog::new(&path).ok();
                }
                let ev = delta_event("s-after", seq, *total, false);
                seq += 1;
                let r = std::panic::catch_unwind(std::panic::AssertUnwindSafe(|| log.as_ref().map(|l| l.append(&ev))));
                let after = read();
                run.res.oracle_checks += 1;
                let mut want = serde_json::to_vec(&ev).unwrap();
                want.push(b'\n');
                if !matches!(r, Ok(Some(Ok(())))) {
                    run.viol(format!("EventLog::append of a {total}-byte frame line failed / panicked on a log with an unterminated tail of {} byte(s)", unterminated(&before)), "panic");
                } else if after.len() < before.len() || after[..before.len()] != before[..] {
                    run.viol(format!("EventLog::append: the previous content ({} bytes, unterminated tail {}) is no longer a prefix ({} bytes now)", before.len(), unterminated(&before), after.len()), "log_prefix_changed");
                } else if !after[before.len()..].ends_with(&want) {
                    // (what the code does today is stricter - exactly the frame line, glued onto the tail - and that is the
                    // model's business: Model/LogFile.v FAppend; the property needs the frame to have reached the log whole)
                    run.viol(format!("EventLog::append on a log with an unterminated tail of {} byte(s) added {} bytes that do not end with the frame and its newline", unterminated(&before), after.len() - before.len()), "partial_frame_appended");
                }
                ops.push(format!("LAppend {}", want.len()));
            }
            TStep::StoreOpen => {
                env = None;
                log = None;
                let r = std::panic::catch_unwind(std::panic::AssertUnwindSafe(|| Env::open(&root)));
                match r {
                    Ok(e) => env = Some(e),
                    Err(_) => run.viol("EventLog::new + ContinuityStore::new panicked".into(), "panic"),
                }
                run.same(&before, &read(), "EventLog::new + ContinuityStore::new (store restart)");
                ops.push("LOpen".into());
            }
            TStep::StoreReads => {
                if env.is_none() {
                    env = std::panic::catch_unwind(std::panic::AssertUnwindSafe(|| Env::open(&root))).ok();
                }
                if let Some(e) = env.as_ref() {
                    let hs = parse_log_lenient(&before);
                    let n_ids = created_ids(&hs).len();
                    for th in (0..n_ids).chain([99usize]) {
                        for cp in [Cp::List, Cp::Get, Cp::Subscribe, Cp::Replay, Cp::CutPoints, Cp::CompactionStatus, Cp::CursorStatus, Cp::SelectionStatus] {
                            for stride in [None, Some(2u64)] {
                                let p = Params { stride, pick: ID_EVENTS, ..Default::default() };
                                let b0 = read();
                                let r = std::panic::catch_unwind(std::panic::AssertUnwindSafe(|| do_cap(e, &hs, cp, th, &p)));
                                if r.is_err() {
                                    run.viol(format!("{cp:?} panicked on a log with an unterminated tail"), "panic");
                                }
                                run.same(&b0, &read(), &format!("read-only capability {cp:?} (thread {})", if th == 99 { "`../events`".to_string() } else { format!("#{th}") }));
                                run.res.bump("torn_store_read_only_calls");
                            }
                        }
                        // dry runs of the two planners
                        for cp in [Cp::Auto, Cp::AutoSchedule] {
                            let p = Params { stride: Some(2), dry_run: Some(true), pick: ID_EVENTS, ..Default::default() };
                            let b0 = read();
                            let r = std::panic::catch_unwind(std::panic::AssertUnwindSafe(|| do_cap(e, &hs, cp, th, &p)));
                            if r.is_err() {
                                run.viol(format!("{cp:?} (dry run) panicked on a log with an unterminated tail"), "panic");
                            }
                            run.same(&b0, &read(), &format!("dry run of {cp:?}"));
                            run.res.bump("torn_store_read_only_calls");
                        }
                    }
                }
                ops.push("LRead".into());
            }
            TStep::StoreAppend => {
                // how many frames the store manages to add over a damaged log is not a matter of the file model:
                // the model case ends before the first store-level append
                if frozen.is_none() {
                    frozen = Some((ops.clone(), obs.clone()));
                }
                if env.is_none() {
                    env = std::panic::catch_unwind(std::panic::AssertUnwindSafe(|| Env::open(&root))).ok();
                }
                if let Some(e) = env.as_ref() {
                    let r = std::panic::catch_unwind(std::panic::AssertUnwindSafe(|| {
                        let id = e.store.ensure_default().ok()?;
                        let mid = read();
                        let ok = e.store.append_message(&id, "user".into(), "harness".into(), "first message after the restart".into()).is_ok();
                        Some((mid, ok))
                    }));
                    let after = read();
                    run.res.oracle_checks += 1;
                    match r {
                        Err(_) => run.viol("ensure_default / append_message panicked on a log with an unterminated tail".into(), "panic"),
                        Ok(got) => {
                            let mids: Vec<Vec<u8>> = got.iter().map(|g| g.0.clone()).collect();
                            let mut prev = before.clone();
                            for (cur, who) in mids.iter().chain([&after]).zip(["ensure_default", "append_message"]) {
                                if cur.len() < prev.len() || cur[..prev.len()] != prev[..] {
                                    run.viol(format!("{who} after a restart over a torn log: the previous content ({} bytes) is no longer a prefix ({} bytes now)", prev.len(), cur.len()), "log_prefix_changed");
                                } else if parse_log(&cur[prev.len()..]).is_err() {
                                    run.viol(format!("{who} after a restart over a torn log added bytes that are not whole frames"), "partial_frame_appended");
                                }
                                prev = cur.clone();
                            }
                            run.res.bump(if after.len() > before.len() { "torn_store_append_added_frames" } else { "torn_store_append_refused" });
                        }
                    }
                }
            }
            TStep::Engine => {
                let r = std::panic::catch_unwind(std::panic::AssertUnwindSafe(|| rt.block_on(async { ripd::SessionEngine::new(data.clone(), ws.clone(), None).is_ok() })));
                match r {
                    Ok(ok) => run.res.bump(if ok { "torn_session_engine_new_ok" } else { "torn_session_engine_new_err" }),
                    Err(_) => run.viol("SessionEngine::new panicked on a log with an unterminated tail".into(), "panic"),
                }
                run.same(&before, &read(), "SessionEngine::new (authority start / CLI local mode)");
                ops.push("LOpen".into());
            }
            TStep::Router => {
                env = None;
                log = None;
                let known = created_ids(&parse_log_lenient(&before)).first().cloned();
                let reqs: Vec<Req> = router_requests(known.as_ref(), false, true, &[]).into_iter().filter(|r| r.silent).collect();
                let mut outcome: Vec<(String, Vec<u8>, Vec<u8>)> = vec![];
                let r = std::panic::catch_unwind(std::panic::AssertUnwindSafe(|| {
                    rt.block_on(async {
                        use http_body_util::BodyExt;
                        use tower::ServiceExt;
                        let app = ripd::verif::build_app(data.clone(), ws.clone(), None);
                        outcome.push(("build_app (authority start)".into(), before.clone(), read()));
                        for rq in &reqs {
                            let b0 = read();
                            let b = axum::http::Request::builder().method(rq.method).uri(rq.uri.as_str());
                            let built = match &rq.body {
                                Some(t) => b.header("content-type", "application/json").body(axum::body::Body::from(t.clone())),
                                None => b.body(axum::body::Body::empty()),
                            };
                            let Ok(req) = built else { continue };
                            let resp = app.clone().oneshot(req).await.expect("infallible");
                            let st = resp.status().as_u16();
                            let mut body = resp.into_body();
                            let mut got = 0usize;
                            while let Ok(Some(Ok(fr))) = tokio::time::timeout(std::time::Duration::from_millis(100), body.frame()).await {
                                got += fr.data_ref().map(|d| d.len()).unwrap_or(0);
                                if got > 4_000_000 {
                                    break;
                                }
                            }
                            drop(body);
                            outcome.push((format!("{} {} -> {st}", rq.method, rq.uri.chars().take(100).collect::<String>()), b0, read()));
                        }
                    })
                }));
                if r.is_err() {
                    run.viol("build_app / a read-only route panicked on a log with an unterminated tail".into(), "panic");
                }
                run.res.bump_by("torn_router_requests", outcome.len().saturating_sub(1) as u64);
                for (who, b0, a0) in outcome {
                    run.same(&b0, &a0, &who);
                }
                ops.push("LOpen".into());
            }
        }
        if !matches!(step, TStep::StoreAppend) {
            let now = read();
            obs.extend([now.len() as u64, unterminated(&now)]);
        }
    }
    let final_len = read().len();
    drop(env);
    drop(log);
    let (ops, obs) = frozen.unwrap_or((ops, obs));
    let term = if modelled && !run.failed { Some(format!("CLogFile {{| lf_ops := [{}]; lf_expect := {} |}}", ops.join("; "), coq_list_n(&obs))) } else { None };
    (term, final_len)
}

/// The family of cases (label, base, steps).
pub fn torn_case_list(sizes: &[usize], thorough: bool) -> Vec<(String, Base, Vec<TStep>)> {
    let mut out = vec![];
    // (A) log level: every tail size x every kind on two bases, the boundary sizes on the others
    let script = |n: usize, kind: TailKind| -> Vec<TStep> {
        let mut s = vec![];
        if n > 0 {
            s.push(TStep::Torn { n, kind });
        }
        s.extend([TStep::Open, TStep::Reads, TStep::Open, TStep::Append { total: 300 }, TStep::Reads, TStep::Torn { n: 7, kind: TailKind::FramePrefix }, TStep::Open, TStep::Append { total: 9000 }, TStep::Open]);
        s
    };
    let near = |n: usize, v: usize| n + 1 >= v && n <= v + 1;
    for base in [Base::Empty, Base::OneSmallFrame, Base::ThreeSmallFrames, Base::SmallThenBigFrame, Base::ManySmallFrames] {
        out.push((format!("log/{base:?}/whole_lines"), base, script(0, TailKind::Garbage)));
        for &n in sizes {
            let boundary = n <= 2 || near(n, 8192) || near(n, 65_536) || near(n, 100_000) || n == 300_000;
            let all = matches!(base, Base::ThreeSmallFrames) || (matches!(base, Base::Empty) && (thorough || boundary || n % 2 == 0));
            if !(all || boundary) {
                continue;
            }
            for kind in TAILKINDS {
                if !all && !thorough && !matches!(kind, TailKind::FramePrefix | TailKind::GarbageInnerNewline) {
                    continue;
                }
                out.push((format!("log/{base:?}/tail_{n}_{kind:?}"), base, script(n, kind)));
            }
        }
    }
    // (B) every open path and the store above: restart, read-only capabilities, engine, router, appends, restart again
    let store_sizes: Vec<usize> = if thorough { sizes.iter().copied().filter(|n| *n <= 3 || near(*n, 40) || near(*n, 8192) || near(*n, 65_536) || near(*n, 70_000) || near(*n, 100_000) || *n >= 262_000).collect() } else { vec![1, 40, 5000, 8192, 65_535, 65_536, 65_537, 100_000, 300_000] };
    for base in [Base::StoreThread, Base::Empty, Base::ThreeSmallFrames] {
        for (i, &n) in std::iter::once(&0usize).chain(store_sizes.iter()).enumerate() {
            for (j, kind) in TAILKINDS.iter().enumerate() {
                if n == 0 && j > 0 {
                    continue;
                }
                if !thorough && !matches!(base, Base::StoreThread) && (i + j) % 2 == 1 {
                    continue;
                }
                let mut s = vec![];
                if n > 0 {
                    s.push(TStep::Torn { n, kind: *kind });
                }
                s.extend([TStep::StoreOpen, TStep::StoreReads, TStep::Engine]);
                if (i + j) % 3 == 0 || thorough {
                    s.push(TStep::Router);
                }
                s.extend([TStep::StoreOpen, TStep::StoreAppend, TStep::StoreOpen, TStep::StoreReads, TStep::Engine, TStep::StoreAppend, TStep::Open, TStep::Reads]);
                out.push((format!("store/{base:?}/tail_{n}_{kind:?}"), base, s));
            }
        }
    }
    out
}

pub fn torn_cases(a: &Args, res: &mut RunResult, base_id: i64, w: &mut CaseWriter) {
    let rt = tokio::runtime::Builder::new_multi_thread().worker_threads(2).enable_all().build().expect("runtime");
    let sizes = tail_sizes(&a.repo(), a.thorough());
    res.notes.push(format!("torn-tail sizes (from the integer literals of rip-log/src/lib.rs +-1, BufWriter capacity, powers of two): {sizes:?}"));
    let cases = torn_case_list(&sizes, a.thorough());
    let mut big_compared = 0usize;
    let big_budget = if a.thorough() { 60 } else { 14 };
    for (i, (label, base, steps)) in cases.iter().enumerate() {
        let (term, final_len) = run_torn_case(res, base_id + i as i64, label, *base, steps, &rt);
        res.evaluations += 1;
        res.bump(if label.starts_with("log/") { "torn_tail_cases_log_level" } else { "torn_tail_cases_store_engine_router" });
        if let (Some(t), false) = (term, a.oracle_only()) {
            // a vm_compute over several hundred KiB of list cells costs about a second: the large files are compared for a bounded number of cases
            let big = final_len > 40_000;
            if !big || (big_compared < big_budget && (i as u64) % 5 == a.seed % 5) {
                big_compared += big as usize;
                let id = w.push(t);
                if res.case_index.len() < 5000 {
                    res.case_index.insert(id.to_string(), json!({"kind": "torn_tail_restart", "case": label, "steps": steps.iter().map(|s| format!("{s:?}")).collect::<Vec<_>>()}));
                }
                res.bump("torn_tail_cases_compared_with_the_file_model");
            }
        }
        if res.distribution.iter().filter(|(k, _)| k.starts_with("violations_of_class=")).map(|(_, n)| *n).sum::<u64>() >= 80 {
            res.notes.push("torn-tail loop stopped after 80 oracle violations".into());
            break;
        }
    }
}
