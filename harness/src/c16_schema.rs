//! C16 — an independent judge of "this request body satisfies the OpenResponses schema".
//!
//! A small JSON-Schema interpreter (the keywords the OpenResponses schema documents use and nothing else) run on the
//! schema documents themselves (`/repo/schemas/openresponses/split_components.json`, read at compile time from the
//! same tree the crates are built from).  It shares no code with `rip_openresponses::validate_create_response_body`:
//! neither the `jsonschema` crate nor the hand-written `validate_item_param`, and nothing is carved out of the body —
//! `input`, `tools` and `tool_choice` are judged by the `CreateResponseBody` schema like every other field.
//!
//! Semantics: JSON Schema draft 7 as used by the crate (`$ref` replaces its siblings — the documents only put a
//! `description` next to a `$ref`; `maxLength`/`minLength` count Unicode scalar values; `integer` accepts a number
//! with a zero fraction; `format` is an annotation).  A keyword or a `pattern` construct the interpreter does not
//! know is never guessed: it is recorded in `unknown` (the harness reports it) and counts as satisfied.
use serde_json::Value;
use std::collections::{BTreeMap, BTreeSet};
use std::sync::Mutex;

const COMPONENTS: &str = include_str!("../../../repo/schemas/openresponses/split_components.json");

/// keywords that carry no constraint
const ANNOTATIONS: [&str; 12] = ["description", "title", "default", "example", "examples", "discriminator", "format", "deprecated", "readOnly", "writeOnly", "$schema", "$id"];

pub struct Schemas {
    comps: BTreeMap<String, Value>,
    pub unknown: Mutex<BTreeSet<String>>,
}

impl Schemas {
    pub fn load() -> Result<Schemas, String> {
        let comps: BTreeMap<String, Value> = serde_json::from_str(COMPONENTS).map_err(|e| format!("split_components.json: {e}"))?;
        Ok(Schemas { comps, unknown: Mutex::new(BTreeSet::new()) })
    }
    pub fn has(&self, name: &str) -> bool {
        self.comps.contains_key(name)
    }
    /// the violations of component schema `name` by `v` (empty = valid)
    pub fn validate(&self, name: &str, v: &Value) -> Vec<String> {
        let mut errs = vec![];
        match self.comps.get(name) {
            Some(s) => self.check(s, v, "", &mut errs, 0),
            None => errs.push(format!("schema document {name} not found")),
        }
        errs
    }
    fn ok(&self, s: &Value, v: &Value, depth: usize) -> bool {
        let mut e = vec![];
        self.check(s, v, "", &mut e, depth);
        e.is_empty()
    }
    fn note(&self, what: String) {
        self.unknown.lock().unwrap().insert(what);
    }
    fn resolve<'a>(&'a self, r: &str) -> Option<&'a Value> {
        let name = r.strip_prefix("./")?;
        if name.contains('#') || name.contains('/') {
            return None;
        }
        self.comps.get(name)
    }

    fn check(&self, s: &Value, v: &Value, path: &str, errs: &mut Vec<String>, depth: usize) {
        if depth > 64 {
            self.note("schema nesting deeper than 64".into());
            return;
        }
        let s = match s {
            Value::Bool(true) => return,
            Value::Bool(false) => {
                errs.push(format!("{path}: nothing is allowed here"));
                return;
            }
            Value::Object(o) => o,
            other => {
                self.note(format!("schema that is neither an object nor a boolean: {other}"));
                return;
            }
        };
        if let Some(r) = s.get("$ref") {
            match r.as_str().and_then(|r| self.resolve(r)) {
                Some(t) => self.check(t, v, path, errs, depth + 1),
                None => self.note(format!("unresolvable $ref {r}")),
            }
            return; // draft 7: the siblings of $ref are ignored
        }
        for (k, c) in s {
            match k.as_str() {
                "type" => {
                    let names: Vec<&str> = match c {
                        Value::String(t) => vec![t.as_str()],
                        Value::Array(ts) => ts.iter().filter_map(|t| t.as_str()).collect(),
                        _ => {
                            self.note(format!("type {c}"));
                            continue;
                        }
                    };
                    if !names.iter().any(|t| self.has_type(t, v)) {
                        errs.push(format!("{path}: {} is not of type {}", short(v), names.join("|")));
                    }
                }
                "enum" => {
                    if let Some(xs) = c.as_array() {
                        if !xs.iter().any(|x| json_eq(x, v)) {
                            errs.push(format!("{path}: {} is not one of {}", short(v), short(c)));
                        }
                    }
                }
                "const" => {
                    if !json_eq(c, v) {
                        errs.push(format!("{path}: {} is not {}", short(v), short(c)));
                    }
                }
                "required" => {
                    if let (Some(o), Some(rs)) = (v.as_object(), c.as_array()) {
                        for r in rs.iter().filter_map(|r| r.as_str()) {
                            if !o.contains_key(r) {
                                errs.push(format!("{path}: required property {r:?} is missing"));
                            }
                        }
                    }
                }
                "properties" => {
                    if let (Some(o), Some(ps)) = (v.as_object(), c.as_object()) {
                        for (name, sub) in ps {
                            if let Some(x) = o.get(name) {
                                self.check(sub, x, &format!("{path}/{name}"), errs, depth + 1);
                            }
                        }
                    }
                }
                "additionalProperties" => {
                    if let Some(o) = v.as_object() {
                        let declared = s.get("properties").and_then(|p| p.as_object());
                        if s.contains_key("patternProperties") {
                            self.note("patternProperties".into());
                        }
                        for (name, x) in o {
                            if declared.map(|d| d.contains_key(name)).unwrap_or(false) {
                                continue;
                            }
                            self.check(c, x, &format!("{path}/{name}"), errs, depth + 1);
                        }
                    }
                }
                "maxProperties" | "minProperties" => {
                    if let (Some(o), Some(n)) = (v.as_object(), c.as_u64()) {
                        let bad = if k == "maxProperties" { o.len() as u64 > n } else { (o.len() as u64) < n };
                        if bad {
                            errs.push(format!("{path}: {} properties, {k} is {n}", o.len()));
                        }
                    }
                }
                "items" => {
                    if let Some(xs) = v.as_array() {
                        match c {
                            Value::Array(ss) => {
                                for (i, (sub, x)) in ss.iter().zip(xs).enumerate() {
                                    self.check(sub, x, &format!("{path}/{i}"), errs, depth + 1);
                                }
                                if s.contains_key("additionalItems") {
                                    self.note("additionalItems".into());
                                }
                            }
                            sub => {
                                for (i, x) in xs.iter().enumerate() {
                                    self.check(sub, x, &format!("{path}/{i}"), errs, depth + 1);
                                }
                            }
                        }
                    }
                }
                "maxItems" | "minItems" => {
                    if let (Some(xs), Some(n)) = (v.as_array(), c.as_u64()) {
                        let bad = if k == "maxItems" { xs.len() as u64 > n } else { (xs.len() as u64) < n };
                        if bad {
                            errs.push(format!("{path}: {} items, {k} is {n}", xs.len()));
                        }
                    }
                }
                "maxLength" | "minLength" => {
                    if let (Some(t), Some(n)) = (v.as_str(), c.as_u64()) {
                        let len = t.chars().count() as u64;
                        let bad = if k == "maxLength" { len > n } else { len < n };
                        if bad {
                            errs.push(format!("{path}: string of {len} characters, {k} is {n}"));
                        }
                    }
                }
                "pattern" => {
                    if let (Some(t), Some(p)) = (v.as_str(), c.as_str()) {
                        match Pattern::parse(p) {
                            Some(re) => {
                                if !re.is_match(t) {
                                    errs.push(format!("{path}: {} does not match {p:?}", short(v)));
                                }
                            }
                            None => self.note(format!("pattern {p:?}")),
                        }
                    }
                }
                "minimum" | "maximum" => {
                    if let (Some(x), Some(n)) = (v.as_f64(), c.as_f64()) {
                        if v.is_number() {
                            let bad = if k == "minimum" { x < n } else { x > n };
                            if bad {
                                errs.push(format!("{path}: {v} violates {k} {c}"));
                            }
                        }
                    }
                }
                "exclusiveMinimum" | "exclusiveMaximum" => {
                    if let (Some(x), Some(n)) = (v.as_f64(), c.as_f64()) {
                        if v.is_number() {
                            let bad = if k == "exclusiveMinimum" { x <= n } else { x >= n };
                            if bad {
                                errs.push(format!("{path}: {v} violates {k} {c}"));
                            }
                        }
                    } else {
                        self.note(format!("{k} {c}"));
                    }
                }
                "allOf" => {
                    for sub in c.as_array().into_iter().flatten() {
                        self.check(sub, v, path, errs, depth + 1);
                    }
                }
                "anyOf" => {
                    let subs: Vec<&Value> = c.as_array().into_iter().flatten().collect();
                    if !subs.iter().any(|sub| self.ok(sub, v, depth + 1)) {
                        match self.closest(&subs, v, path, depth) {
                            Some(inner) => errs.extend(inner),
                            None => errs.push(format!("{path}: {} matches none of the {} anyOf alternatives", short(v), subs.len())),
                        }
                    }
                }
                "oneOf" => {
                    let subs: Vec<&Value> = c.as_array().into_iter().flatten().collect();
                    let n = subs.iter().filter(|sub| self.ok(sub, v, depth + 1)).count();
                    if n != 1 {
                        match if n == 0 { self.closest(&subs, v, path, depth) } else { None } {
                            Some(inner) => errs.extend(inner),
                            None => errs.push(format!("{path}: {} matches {n} of the {} oneOf alternatives (exactly one wanted)", short(v), subs.len())),
                        }
                    }
                }
                "not" => {
                    if self.ok(c, v, depth + 1) {
                        errs.push(format!("{path}: {} matches a schema it must not match", short(v)));
                    }
                }
                k if ANNOTATIONS.contains(&k) || k.starts_with("x-") => {}
                other => self.note(format!("keyword {other}")),
            }
        }
    }

    /// Readability of the report only: when no alternative matches and exactly one of them accepts the instance's
    /// JSON type and its `type` tag, the errors of that alternative are the explanation.
    fn closest(&self, subs: &[&Value], v: &Value, path: &str, depth: usize) -> Option<Vec<String>> {
        let tag = format!("{path}/type:");
        let here = format!("{path}: ");
        let mut cands: Vec<Vec<String>> = vec![];
        for sub in subs {
            let mut e = vec![];
            self.check(sub, v, path, &mut e, depth + 1);
            if e.iter().any(|m| m.starts_with(&tag) || (m.starts_with(&here) && m.contains(" is not of type "))) {
                continue;
            }
            cands.push(e);
        }
        if cands.len() == 1 && !cands[0].is_empty() {
            cands.pop()
        } else {
            None
        }
    }

    fn has_type(&self, t: &str, v: &Value) -> bool {
        match t {
            "null" => v.is_null(),
            "boolean" => v.is_boolean(),
            "object" => v.is_object(),
            "array" => v.is_array(),
            "string" => v.is_string(),
            "number" => v.is_number(),
            "integer" => v.is_i64() || v.is_u64() || v.as_f64().map(|f| f.fract() == 0.0).unwrap_or(false),
            other => {
                self.note(format!("type name {other:?}"));
                true
            }
        }
    }
}

fn short(v: &Value) -> String {
    let s = v.to_string();
    if s.chars().count() > 90 {
        format!("{}…({} chars)", s.chars().take(80).collect::<String>(), s.chars().count())
    } else {
        s
    }
}

/// JSON equality with numbers compared by value
fn json_eq(a: &Value, b: &Value) -> bool {
    match (a, b) {
        (Value::Number(x), Value::Number(y)) => x == y || (x.as_f64().is_some() && x.as_f64() == y.as_f64()),
        (Value::Array(x), Value::Array(y)) => x.len() == y.len() && x.iter().zip(y).all(|(p, q)| json_eq(p, q)),
        (Value::Object(x), Value::Object(y)) => x.len() == y.len() && x.iter().all(|(k, p)| y.get(k).map(|q| json_eq(p, q)).unwrap_or(false)),
        _ => a == b,
    }
}

// ------------------------------------------------------------------ the regular expressions of the schema
// literals, `.`, character classes with ranges and negation, `* + ?`, `^` at the start and `$` at the end;
// unanchored patterns search (ECMA 262 `test`).  Anything else (groups, alternation, counted repetition,
// escapes other than an escaped literal) is reported as not understood.
#[derive(Clone, Debug)]
enum Atom {
    Lit(char),
    Any,
    Class(Vec<(char, char)>, bool),
}
#[derive(Clone, Copy, Debug, PartialEq)]
enum Quant {
    One,
    Star,
    Plus,
    Opt,
}
pub struct Pattern {
    start: bool,
    end: bool,
    items: Vec<(Atom, Quant)>,
}
impl Pattern {
    pub fn parse(p: &str) -> Option<Pattern> {
        let cs: Vec<char> = p.chars().collect();
        let mut i = 0;
        let mut start = false;
        if cs.first() == Some(&'^') {
            start = true;
            i = 1;
        }
        let mut end = false;
        let mut items = vec![];
        while i < cs.len() {
            let atom = match cs[i] {
                '$' if i + 1 == cs.len() => {
                    end = true;
                    i += 1;
                    continue;
                }
                '(' | ')' | '|' | '{' | '}' | '^' | '$' | '*' | '+' | '?' => return None,
                '\\' => {
                    let c = *cs.get(i + 1)?;
                    if c.is_ascii_alphanumeric() {
                        return None; // \d \w \b ... : not needed by the schema so far
                    }
                    i += 2;
                    Atom::Lit(c)
                }
                '.' => {
                    i += 1;
                    Atom::Any
                }
                '[' => {
                    i += 1;
                    let mut neg = false;
                    if cs.get(i) == Some(&'^') {
                        neg = true;
                        i += 1;
                    }
                    let mut ranges = vec![];
                    let mut first = true;
                    loop {
                        let c = *cs.get(i)?;
                        if c == ']' && !first {
                            i += 1;
                            break;
                        }
                        first = false;
                        let lo = if c == '\\' {
                            i += 1;
                            let e = *cs.get(i)?;
                            if e.is_ascii_alphanumeric() {
                                return None;
                            }
                            e
                        } else {
                            c
                        };
                        i += 1;
                        if cs.get(i) == Some(&'-') && cs.get(i + 1).map(|n| *n != ']').unwrap_or(false) {
                            let hi = cs[i + 1];
                            if hi == '\\' {
                                return None;
                            }
                            ranges.push((lo, hi));
                            i += 2;
                        } else {
                            ranges.push((lo, lo));
                        }
                    }
                    Atom::Class(ranges, neg)
                }
                c => {
                    i += 1;
                    Atom::Lit(c)
                }
            };
            let q = match cs.get(i) {
                Some('*') => Quant::Star,
                Some('+') => Quant::Plus,
                Some('?') => Quant::Opt,
                _ => Quant::One,
            };
            if q != Quant::One {
                i += 1;
                if matches!(cs.get(i), Some('?') | Some('+') | Some('*')) {
                    return None; // lazy / possessive
                }
            }
            items.push((atom, q));
        }
        Some(Pattern { start, end, items })
    }
    fn atom(a: &Atom, c: char) -> bool {
        match a {
            Atom::Lit(l) => *l == c,
            Atom::Any => c != '\n' && c != '\r',
            Atom::Class(rs, neg) => rs.iter().any(|(lo, hi)| *lo <= c && c <= *hi) != *neg,
        }
    }
    fn at(&self, k: usize, s: &[char], p: usize) -> bool {
        if k == self.items.len() {
            return !self.end || p == s.len();
        }
        let (a, q) = &self.items[k];
        match q {
            Quant::One => p < s.len() && Self::atom(a, s[p]) && self.at(k + 1, s, p + 1),
            Quant::Opt => (p < s.len() && Self::atom(a, s[p]) && self.at(k + 1, s, p + 1)) || self.at(k + 1, s, p),
            Quant::Star | Quant::Plus => {
                let mut n = 0;
                while p + n < s.len() && Self::atom(a, s[p + n]) {
                    n += 1;
                }
                let min = if *q == Quant::Plus { 1 } else { 0 };
                // iterative on the repetition, recursive only on the (short) pattern
                let mut m = n as isize;
                while m >= min {
                    if self.at(k + 1, s, p + m as usize) {
                        return true;
                    }
                    m -= 1;
                }
                false
            }
        }
    }
    pub fn is_match(&self, t: &str) -> bool {
        let s: Vec<char> = t.chars().collect();
        if self.start {
            return self.at(0, &s, 0);
        }
        (0..=s.len()).any(|p| self.at(0, &s, p))
    }
}

/// known answers: request bodies whose validity under the CreateResponseBody schema is clear from reading the
/// documents; (body, valid)
#[allow(dead_code)]
pub fn known_bodies() -> Vec<(Value, bool)> {
    use serde_json::json;
    let fo = |cid: &str| json!({"type":"function_call_output","call_id":cid,"output":"{}"});
    let fc = |cid: &str, name: &str| json!({"type":"function_call","id":"fc_1","call_id":cid,"name":name,"arguments":"{}"});
    let body = |input: Value| json!({"model":"m","stream":true,"tool_choice":"auto","tools":[{"type":"function","name":"read"}],"input":input});
    let mut many = serde_json::Map::new();
    for i in 0..17 {
        many.insert(format!("k{i}"), json!("v"));
    }
    vec![
        (json!({"model":"m","input":"hi","stream":true}), true),
        (body(json!([fo("call_1")])), true),
        (body(json!([{"type":"message","role":"user","content":"p"}, fc("call_1", "read_file-2"), {"type":"function_call_output","id":"output_call_1","call_id":"call_1","output":"{}"}])), true),
        (body(json!([fo(&"é".repeat(64))])), true),
        (body(json!([fc("c", &"N".repeat(64))])), true),
        (json!({"model":"m","input":[fo("c")],"previous_response_id":"resp_1","tool_choice":{"type":"function","name":"read"}}), true),
        (json!({"model":"m","input":"hi","tool_choice":{"type":"allowed_tools","mode":"auto","tools":[{"type":"function","name":"read"}]}}), true),
        (json!({"model":"m","input":"hi","metadata":{"a":"b"},"max_output_tokens":16}), true),
        (body(json!([fo(&"x".repeat(65))])), false),
        (body(json!([fo(&"é".repeat(65))])), false),
        (body(json!([fo("")])), false),
        (body(json!([fc("c", "a.b")])), false),
        (body(json!([fc("c", "")])), false),
        (body(json!([fc("c", &"n".repeat(65))])), false),
        (body(json!([fc(&"y".repeat(300), "read")])), false),
        (body(json!([{"type":"function_call","call_id":"c","name":"read"}])), false),
        (body(json!([{"type":"function_call","call_id":"c","name":"read","arguments":5}])), false),
        (body(json!([{"type":"frobnicate","call_id":"c"}])), false),
        (body(json!([5])), false),
        (body(json!({})), false),
        (body(json!([{"type":"message","role":"tool","content":"p"}])), false),
        (body(json!([{"type":"function_call_output","call_id":"c","output":5}])), false),
        (body(json!([{"type":"function_call_output","call_id":"c","output":"{}","status":"bogus"}])), false),
        (body(json!([{"type":"function_call_output","output":"{}"}])), false),
        (json!({"model":"m","input":"hi","tool_choice":{"type":"function"}}), false),
        (json!({"model":"m","input":"hi","tool_choice":"sometimes"}), false),
        (json!({"model":"m","input":"hi","tools":"x"}), false),
        (json!({"model":"m","input":"hi","tools":[{"type":"function"}]}), false),
        (json!({"model":"m","input":"hi","stream":"yes"}), false),
        (json!({"model":"m","input":"hi","max_output_tokens":3}), false),
        (json!({"model":"m","input":"hi","metadata":Value::Object(many)}), false),
        (json!({"model":"m","input":"hi","metadata":{"a":"v".repeat(513)}}), false),
        (json!({"model":7,"input":"hi"}), false),
        (json!(["not","an","object"]), false),
    ]
}

#[allow(dead_code)]
pub fn self_test() -> Vec<String> {
    let mut bad = vec![];
    let t = |p: &str, s: &str, want: bool, bad: &mut Vec<String>| match Pattern::parse(p) {
        Some(re) => {
            if re.is_match(s) != want {
                bad.push(format!("pattern {p:?} on {s:?}: expected {want}"));
            }
        }
        None => bad.push(format!("pattern {p:?} not understood")),
    };
    t("^[a-zA-Z0-9_-]+$", "read_file-2", true, &mut bad);
    t("^[a-zA-Z0-9_-]+$", "", false, &mut bad);
    t("^[a-zA-Z0-9_-]+$", "functions.read", false, &mut bad);
    t("^[a-zA-Z0-9_-]+$", "a b", false, &mut bad);
    t("^[a-zA-Z0-9_-]+$", "é", false, &mut bad);
    t("vs_*", "xvs", true, &mut bad);
    t("vs_*", "v_s", false, &mut bad);
    t("^a.?c$", "ac", true, &mut bad);
    t("^a.?c$", "abbc", false, &mut bad);
    t("^[^x]*$", "abc", true, &mut bad);
    t("^[^x]*$", "axc", false, &mut bad);
    if Pattern::parse("(a|b)").is_some() || Pattern::parse("a{2}").is_some() || Pattern::parse("\\d+").is_some() {
        bad.push("a construct outside the subset was accepted".into());
    }
    bad
}
