//! C04 — caches are transparent; every read terminates.
//! Histories through the public ContinuityStore API on a temp store, faults applied to the real cache
//! files, every query evaluated twice (caches as found vs. `continuity_streams/` removed) under a
//! watchdog; three-way comparison (fast, truth, model coq/Model/Cache.v).
use rip_kernel::{Event, EventKind, StreamKind};
use rip_log::EventLog;
use ripd::*;
use rv::*;
use serde::{Deserialize, Serialize};
use serde_json::{json, Value};
use std::collections::{BTreeMap, HashMap};
use std::path::{Path, PathBuf};
use std::sync::Arc;
use std::time::Duration;

// ---------------------------------------------------------------- cases
#[derive(Clone, Copy, Debug, Serialize, Deserialize, PartialEq, Eq, Hash, PartialOrd, Ord)]
enum Target {
    Full,     // <id>.jsonl
    Mr,       // <id>.mr.v1.jsonl
    Comp,     // <id>.comp.v1.jsonl
    CompIdx,  // <id>.comp.idx.v1.jsonl
    Seek,     // <id>.seek.v1.jsonl
    MsgIdx,   // <id>.messages.v1.bin
    MrSeek,   // <id>.mr.seek.v1.jsonl
    MrMsgIdx, // <id>.mr.messages.v1.bin
    Ord,      // <id>.mr.msgord.v1.bin
}
const TARGETS: [Target; 9] = [Target::Full, Target::Mr, Target::Comp, Target::CompIdx, Target::Seek, Target::MsgIdx, Target::MrSeek, Target::MrMsgIdx, Target::Ord];

#[derive(Clone, Copy, Debug, Serialize, Deserialize, PartialEq, Eq)]
enum FaultKind {
    Delete,
    TruncLines(u64), // drop the last k lines (records for the binary files); may leave 0 bytes
    TruncMidLine,    // cut inside the last line
    Garbage,         // overwrite with bytes that are not a cache file
    Rollback(u64),   // restore the version the file had k operations ago
    /// overwrite the first bytes of the k-th line / record from the end (0 = the last one) with bytes that do not
    /// parse; length, line structure and every other line stay as they are (a damaged record in the middle of a file)
    GarbageLine(u64),
}

#[derive(Clone, Debug, Serialize, Deserialize)]
enum Op {
    Msg { size: u64 },
    RunSpawned { msg: u64 },
    RunEnded { msg: u64 },
    SideFx,
    Checkpoint { msg: u64 },
    Schedule { stride: u64, max_new: u32, execute: bool },
    Cursor { key: u64 },
    Selection,
    Compiled,
    Restart,
    Fault { target: Target, kind: FaultKind },
    /// the whole `continuity_streams/` directory is lost (= Delete on every cache file of every thread)
    LoseDir,
}

#[derive(Clone, Debug, Serialize, Deserialize, PartialEq)]
enum Q {
    Replay,
    CutPoints { stride: u64, limit: u32 },
    CompactionStatus { stride: u64 },
    CursorStatus,
    Rotate { p: Option<u64>, e: Option<u64>, m: Option<u64> },
    Selection { limit: u32 },
    BranchCut { sel: Sel },
    HandoffCut { sel: Sel },
    /// the context compiled for a run anchored at the i-th message (u64::MAX: the newest) — oracle only
    Compile { msg: u64 },
}
#[derive(Clone, Debug, Serialize, Deserialize, PartialEq)]
enum Sel {
    Head,
    Seq(u64),
    Msg(u64), // index into the thread's messages
}

#[derive(Clone, Debug, Serialize, Deserialize)]
struct Case {
    ops: Vec<Op>,
    queries: Vec<Q>,
    #[serde(default)]
    long: bool, // long-thread case: oracle only (no Coq case), bigger watchdog
}

// ---------------------------------------------------------------- store plumbing
struct Opened {
    #[allow(dead_code)]
    log: Arc<EventLog>,
    store: ContinuityStore,
}
fn open(root: &Path) -> Opened {
    let data = root.join("data");
    let ws = root.join("workspace");
    std::fs::create_dir_all(&ws).unwrap();
    let log = Arc::new(EventLog::new(data.join("events.jsonl")).expect("log"));
    let store = ContinuityStore::new(data, ws, log.clone()).expect("store");
    Opened { log, store }
}
fn streams_dir(root: &Path) -> PathBuf {
    root.join("data").join("continuity_streams")
}
fn target_path(root: &Path, id: &str, t: Target) -> PathBuf {
    let d = streams_dir(root);
    match t {
        Target::Full => d.join(format!("{id}.jsonl")),
        Target::Mr => d.join(format!("{id}.mr.v1.jsonl")),
        Target::Comp => d.join(format!("{id}.comp.v1.jsonl")),
        Target::CompIdx => d.join(format!("{id}.comp.idx.v1.jsonl")),
        Target::Seek => d.join(format!("{id}.seek.v1.jsonl")),
        Target::MsgIdx => d.join(format!("{id}.messages.v1.bin")),
        Target::MrSeek => d.join(format!("{id}.mr.seek.v1.jsonl")),
        Target::MrMsgIdx => d.join(format!("{id}.mr.messages.v1.bin")),
        Target::Ord => d.join(format!("{id}.mr.msgord.v1.bin")),
    }
}
fn copy_dir(src: &Path, dst: &Path) {
    std::fs::create_dir_all(dst).unwrap();
    for e in std::fs::read_dir(src).unwrap() {
        let e = e.unwrap();
        let p = e.path();
        let d = dst.join(e.file_name());
        if p.is_dir() {
            copy_dir(&p, &d);
        } else {
            std::fs::copy(&p, &d).unwrap();
        }
    }
}

fn content(size: u64, n: u64) -> String {
    let mut s = format!("m{n} ");
    while (s.len() as u64) < size {
        s.push('x');
    }
    s
}
fn key_parts(key: u64) -> (String, Option<String>, Option<String>) {
    let (p, e, m) = (key / 100, (key / 10) % 10, key % 10);
    (
        format!("p{p:03}"),
        if e == 0 { None } else { Some(format!("e{e}")) },
        if m == 0 { None } else { Some(format!("m{m}")) },
    )
}

struct Built {
    scratch: Scratch,
    id: String,
    messages: Vec<String>,
    op_errors: u64,
    writer_checks: u64,
    writer_violations: Vec<(usize, Target, String)>, // (op index, file, what)
    ord_steps: Vec<String>,                          // Coq `ord_step` terms: every message append, ordinal index before / after
    prov: Prov,
}

// ---------------------------------------------------------------- fault provenance
// Which faults can still explain the state of a cache file at query time ON TODAY'S CODE.  A fault on file f stays
// "live" until (1) f is observed to be the exact projection of the truth stream again after an operation (nothing of
// the fault is left in it), or (2) the history passes a position where today's code re-synchronises every cache
// file with the log whatever it finds: the first append to the thread after an authority restart, when the full
// sidecar's last frame is not the log's last frame of the thread (missing / torn / lagging sidecar:
// load_next_seq_for -> rebuild_best_effort, /repo 0b0d2b0), and (3) an operation that begins with replay_events
// (compaction_checkpoint_cumulative_v1) while try_replay refuses the full sidecar (absent, unparsable line, seqs not
// 0,1,2,..: replay from the log + rebuild_best_effort).  Faults applied while the store object is alive, and
// faults across a restart that leave the full sidecar's tail equal to the log's head, are NOT reconciled by
// today's code: those are the provenances of the open S3/S4 classes.  A wrong answer in a state whose live faults
// cannot explain it is a new violation (e.g. the re-sync no longer fires).
#[derive(Clone, Debug, Default)]
struct Prov {
    live: BTreeMap<Target, Vec<&'static str>>,
    /// op indices at which today's code re-synchronises all caches (position (2))
    resync_at: Vec<usize>,
    /// ... and the files were nevertheless not the projection afterwards (diagnostic; not a violation by itself)
    resync_not_observed: Vec<usize>,
    tracked: bool, // false for long cases (no snapshots): no fault is ever live there
}
fn kind_name(k: FaultKind) -> &'static str {
    match k {
        FaultKind::Delete => "Delete",
        FaultKind::TruncLines(_) => "TruncLines",
        FaultKind::TruncMidLine => "TruncMidLine",
        FaultKind::Garbage => "Garbage",
        FaultKind::Rollback(_) => "Rollback",
        FaultKind::GarbageLine(_) => "GarbageLine",
    }
}
/// the seq of the last frame of a full sidecar, as a reader of its tail sees it (None: absent / empty / last line unreadable)
fn ref_tail_seq(raw: &Option<Vec<u8>>, id: &str) -> Option<u64> {
    let raw = raw.as_ref()?;
    let line = raw.split(|b| *b == b'\n').filter(|l| !l.iter().all(|b| b.is_ascii_whitespace())).last()?;
    let ev = serde_json::from_slice::<Event>(line).ok()?;
    if ev.stream_kind() != StreamKind::Continuity || ev.stream_id() != id {
        return None;
    }
    Some(ev.seq)
}
/// try_replay's acceptance test on the bytes of a full sidecar: present, non-empty, every line a frame of this thread, seqs 0,1,2,..
fn ref_try_replay_ok(raw: &Option<Vec<u8>>, id: &str) -> bool {
    let Some(raw) = raw else { return false };
    match parsed_lines(raw, id) {
        Some(ls) => !ls.is_empty() && ls.iter().enumerate().all(|(i, (e, _))| e.seq == i as u64),
        None => false,
    }
}
/// the file is exactly what a rebuild from the truth stream writes (absent counts when there is nothing to hold)
fn is_projection(t: Target, bytes: &Option<Vec<u8>>, truth: &[(Event, Vec<u8>)]) -> bool {
    let nothing = !truth.iter().any(|(e, _)| kind_in(t, e));
    match bytes {
        None => nothing,
        Some(b) => match t {
            Target::Full | Target::Mr | Target::Comp => *b == proj_bytes(truth, t),
            Target::Ord => ord_records(b).map(|rs| rs.iter().map(|r| r.0).collect::<Vec<_>>() == truth.iter().filter(|(e, _)| kind_in(t, e)).map(|(e, _)| e.seq).collect::<Vec<_>>()).unwrap_or(false),
            Target::CompIdx => idx_entries(b).map(|es| es == ckpt_entries(truth)).unwrap_or(false),
            _ => false,
        },
    }
}

// ---------------------------------------------------------------- write conformance of the cache writers
// After every (non-fault) operation each append-only cache file must have moved by the reference write semantics of
// today's writers, applied to whatever the file held before (faulted or not):
//   unchanged | old bytes + well-formed records of truth frames | the exact projection of the truth stream (rebuild
//   from replay) | the projection of the current full sidecar (.mr/.comp: ensure_* from the full sidecar) | the index of
//   the current .comp sidecar (.comp.idx) | removed.
// Everything else (bytes dropped or rewritten in place, foreign records) is a writer defect — this is what keeps the
// state-based known-finding classes honest: a cache state may only be blamed on an open finding if it was reached
// through the reference writers.
fn truth_lines(root: &Path, id: &str) -> Vec<(Event, Vec<u8>)> {
    let raw = std::fs::read(root.join("data").join("events.jsonl")).unwrap_or_default();
    let mut out = vec![];
    for line in raw.split_inclusive(|b| *b == b'\n') {
        let Ok(ev) = serde_json::from_slice::<Event>(line) else { continue };
        if ev.stream_kind() == StreamKind::Continuity && ev.stream_id() == id {
            out.push((ev, line.to_vec()));
        }
    }
    out
}
fn kind_in(t: Target, e: &Event) -> bool {
    match t {
        Target::Full => true,
        Target::Mr => matches!(e.kind, EventKind::ContinuityMessageAppended { .. } | EventKind::ContinuityRunEnded { .. }),
        Target::Comp | Target::CompIdx => matches!(e.kind, EventKind::ContinuityCompactionCheckpointCreated { .. }),
        Target::Ord => matches!(e.kind, EventKind::ContinuityMessageAppended { .. }),
        _ => false,
    }
}
fn proj_bytes(lines: &[(Event, Vec<u8>)], t: Target) -> Vec<u8> {
    lines.iter().filter(|(e, _)| kind_in(t, e)).flat_map(|(_, l)| l.clone()).collect()
}
/// lines of a (possibly damaged) sidecar that parse as frames of this stream, with their bytes
fn parsed_lines(raw: &[u8], id: &str) -> Option<Vec<(Event, Vec<u8>)>> {
    let mut out = vec![];
    for line in raw.split_inclusive(|b| *b == b'\n') {
        if line.iter().all(|b| b.is_ascii_whitespace()) {
            continue;
        }
        let ev = serde_json::from_slice::<Event>(line).ok()?;
        if ev.stream_kind() != StreamKind::Continuity || ev.stream_id() != id {
            return None;
        }
        let mut l = line.to_vec();
        if !l.ends_with(b"\n") {
            l.push(b'\n');
        }
        out.push((ev, l));
    }
    Some(out)
}
fn ord_records(raw: &[u8]) -> Option<Vec<(u64, [u8; 16])>> {
    if raw.len() < 32 || &raw[0..8] != b"RIPMORD1" || (raw.len() - 32) % 24 != 0 {
        return None;
    }
    Some(raw[32..].chunks(24).map(|c| (u64::from_le_bytes(c[0..8].try_into().unwrap()), c[8..24].try_into().unwrap())).collect())
}
fn idx_entries(raw: &[u8]) -> Option<Vec<(u64, String)>> {
    let mut out = vec![];
    for line in raw.split_inclusive(|b| *b == b'\n') {
        if line.iter().all(|b| b.is_ascii_whitespace()) {
            continue;
        }
        if !line.ends_with(b"\n") {
            return None;
        }
        let v = serde_json::from_slice::<Value>(line).ok()?;
        out.push((v.get("seq")?.as_u64()?, v.get("checkpoint_id")?.as_str()?.to_string()));
    }
    Some(out)
}
fn ckpt_entries(lines: &[(Event, Vec<u8>)]) -> Vec<(u64, String)> {
    lines.iter().filter_map(|(e, _)| match &e.kind { EventKind::ContinuityCompactionCheckpointCreated { checkpoint_id, .. } => Some((e.seq, checkpoint_id.clone())), _ => None }).collect()
}
/// None = conforming; Some(what) otherwise
fn writer_conforms(t: Target, id: &str, before: &Option<Vec<u8>>, after: &Option<Vec<u8>>, truth: &[(Event, Vec<u8>)], full_after: &Option<Vec<u8>>, comp_after: &Option<Vec<u8>>) -> Option<String> {
    let Some(after) = after else { return None }; // removed / never created
    let empty = vec![];
    let before_b = before.as_ref().unwrap_or(&empty);
    if after == before_b {
        return None;
    }
    // (a) old bytes kept, well-formed records of truth frames added
    if after.starts_with(before_b) {
        let suffix = &after[before_b.len()..];
        let ok = match t {
            Target::Full | Target::Mr | Target::Comp => {
                let mut rest = suffix;
                let mut good = true;
                while !rest.is_empty() && good {
                    match truth.iter().find(|(e, l)| kind_in(t, e) && rest.starts_with(l)) {
                        Some((_, l)) => rest = &rest[l.len()..],
                        None => good = false,
                    }
                }
                good
            }
            Target::Ord => {
                let body = if before_b.is_empty() && suffix.len() >= 32 && &suffix[0..8] == b"RIPMORD1" { &suffix[32..] } else { suffix };
                body.len() % 24 == 0
                    && body.chunks(24).all(|c| {
                        let seq = u64::from_le_bytes(c[0..8].try_into().unwrap());
                        truth.iter().any(|(e, _)| kind_in(t, e) && e.seq == seq && uuid::Uuid::parse_str(&e.id).map(|u| u.as_bytes()[..] == c[8..24]).unwrap_or(false))
                    })
            }
            Target::CompIdx => idx_entries(suffix).map(|es| { let want = ckpt_entries(truth); es.iter().all(|x| want.contains(x)) }).unwrap_or(false),
            _ => true,
        };
        if ok {
            return None;
        }
    }
    // (b) rebuilt from the truth stream
    let exact = match t {
        Target::Full | Target::Mr | Target::Comp => *after == proj_bytes(truth, t),
        Target::Ord => ord_records(after).map(|rs| rs.iter().map(|r| r.0).collect::<Vec<_>>() == truth.iter().filter(|(e, _)| kind_in(t, e)).map(|(e, _)| e.seq).collect::<Vec<_>>()).unwrap_or(false),
        Target::CompIdx => idx_entries(after).map(|es| es == ckpt_entries(truth)).unwrap_or(false),
        _ => true,
    };
    if exact {
        return None;
    }
    // (c) derived sidecar built from the full sidecar as found / index built from the .comp sidecar as found
    match t {
        Target::Mr | Target::Comp => {
            if let Some(fl) = full_after.as_ref().and_then(|f| parsed_lines(f, id)) {
                if *after == proj_bytes(&fl, t) {
                    return None;
                }
            }
        }
        Target::CompIdx => {
            if let (Some(es), Some(cl)) = (idx_entries(after), comp_after.as_ref().and_then(|c| parsed_lines(c, id))) {
                if es == ckpt_entries(&cl) {
                    return None;
                }
            }
        }
        _ => {}
    }
    Some(format!("{:?}: {} bytes before the operation, {} after; the new content is neither the old bytes plus well-formed records of truth frames, nor a rebuild (from the truth stream / from the sidecar it is derived from)", t, before_b.len(), after.len()))
}
/// Model/Cache.v `ofile` term for the bytes of the ordinal index
fn coq_ofile(raw: &Option<Vec<u8>>, truth: &[(Event, Vec<u8>)]) -> String {
    let Some(raw) = raw else { return "OAbsent".into() };
    if raw.is_empty() {
        return "OEmpty".into();
    }
    if raw.len() < 32 || &raw[0..8] != b"RIPMORD1" || u32::from_le_bytes(raw[8..12].try_into().unwrap()) != 1 {
        return "OBadHeader".into();
    }
    let data = &raw[32..];
    let torn = data.len() % 24;
    let mut recs: Vec<u64> = vec![];
    for c in data.chunks_exact(24) {
        let seq = u64::from_le_bytes(c[0..8].try_into().unwrap());
        if torn != 0 {
            // behind a torn record the bytes are shifted: keep the leading records that are records of truth messages
            let valid = truth.iter().any(|(e, _)| kind_in(Target::Ord, e) && e.seq == seq && uuid::Uuid::parse_str(&e.id).map(|u| u.as_bytes()[..] == c[8..24]).unwrap_or(false));
            if !valid {
                break;
            }
        }
        recs.push(seq);
    }
    format!("(OFile {} {})", coq_list_n(&recs), torn)
}
const CONFORM_TARGETS: [Target; 5] = [Target::Full, Target::Mr, Target::Comp, Target::CompIdx, Target::Ord];

fn file_versions(root: &Path, id: &str) -> BTreeMap<Target, Option<Vec<u8>>> {
    let mut m = BTreeMap::new();
    for t in TARGETS {
        let p = target_path(root, id, t);
        let v = match std::fs::metadata(&p) {
            Ok(md) if md.len() <= 4 * 1024 * 1024 => std::fs::read(&p).ok(),
            Ok(_) => None, // too big to version: Rollback of this file becomes a no-op
            Err(_) => None,
        };
        m.insert(t, v);
    }
    m
}

fn apply_fault(root: &Path, id: &str, target: Target, kind: FaultKind, versions: &[BTreeMap<Target, Option<Vec<u8>>>], present: &[BTreeMap<Target, bool>]) {
    let p = target_path(root, id, target);
    let binary = matches!(target, Target::MsgIdx | Target::MrMsgIdx | Target::Ord);
    match kind {
        FaultKind::Delete => {
            let _ = std::fs::remove_file(&p);
        }
        FaultKind::Garbage => {
            if p.exists() {
                std::fs::write(&p, b"\x00\xffnot a cache file {{{\n\x01\x02garbage\n").unwrap();
            }
        }
        FaultKind::TruncLines(k) => {
            let Ok(bytes) = std::fs::read(&p) else { return };
            let keep = if binary {
                let rec = if target == Target::Ord { 24 } else { 40 };
                bytes.len().saturating_sub((k as usize) * rec)
            } else {
                // offsets just after each '\n'
                let mut ends: Vec<usize> = bytes.iter().enumerate().filter(|(_, b)| **b == b'\n').map(|(i, _)| i + 1).collect();
                if ends.last() != Some(&bytes.len()) {
                    ends.push(bytes.len());
                }
                let n = ends.len();
                if (k as usize) >= n { 0 } else { ends[n - 1 - k as usize] }
            };
            let f = std::fs::OpenOptions::new().write(true).open(&p).unwrap();
            f.set_len(keep as u64).unwrap();
        }
        FaultKind::TruncMidLine => {
            let Ok(bytes) = std::fs::read(&p) else { return };
            if bytes.len() < 8 {
                return;
            }
            let cut = if binary { 5 } else { 3 + (bytes.len() % 17).min(bytes.len() / 2) };
            let f = std::fs::OpenOptions::new().write(true).open(&p).unwrap();
            f.set_len((bytes.len() - cut) as u64).unwrap();
        }
        FaultKind::GarbageLine(k) => {
            let Ok(mut bytes) = std::fs::read(&p) else { return };
            const JUNK: &[u8] = b"#\x00\xffgarbage####";
            let (start, len) = if binary {
                let (hdr, rec) = if target == Target::Ord { (32usize, 24usize) } else { (0usize, 40usize) };
                if bytes.len() < hdr + rec {
                    return;
                }
                let nrec = (bytes.len() - hdr) / rec;
                let i = nrec - 1 - (k as usize).min(nrec - 1);
                (hdr + i * rec, rec)
            } else {
                let mut starts: Vec<usize> = vec![0];
                starts.extend(bytes.iter().enumerate().filter(|(_, b)| **b == b'\n').map(|(i, _)| i + 1));
                if starts.last() == Some(&bytes.len()) {
                    starts.pop();
                }
                if starts.is_empty() {
                    return;
                }
                let i = starts.len() - 1 - (k as usize).min(starts.len() - 1);
                let end = starts.get(i + 1).copied().unwrap_or(bytes.len());
                (starts[i], (end - starts[i]).saturating_sub(1)) // never the terminator
            };
            let n = JUNK.len().min(len);
            bytes[start..start + n].copy_from_slice(&JUNK[..n]);
            std::fs::write(&p, bytes).unwrap();
        }
        FaultKind::Rollback(k) => {
            let n = versions.len();
            if n == 0 {
                return;
            }
            let idx = n.saturating_sub(1 + k as usize);
            let was_present = present[idx].get(&target).copied().unwrap_or(false);
            match versions[idx].get(&target) {
                Some(Some(bytes)) => {
                    let _ = std::fs::create_dir_all(p.parent().unwrap()); // the directory itself may have been lost
                    std::fs::write(&p, bytes).unwrap()
                }
                _ => {
                    if !was_present {
                        let _ = std::fs::remove_file(&p);
                    }
                }
            }
        }
    }
}

// ---------------------------------------------------------------- base-thread cache (long threads are built once)
// A long case whose operations are `P ++ F` with F a run of trailing cache faults is built as: the store that P leaves
// behind (built once per process, kept as a directory), copied, F applied to the copy.  The faults touch files of
// `continuity_streams/` only, so the answer of the caches-removed side depends on P and the query alone and is
// computed once per (P, query) as well (`TRUTH_MEMO`).  Nothing else changes: the copy is byte-identical to a fresh build
// up to the random ids.
struct BaseEntry {
    key: u64,
    dir: Scratch,
    id: String,
    messages: Vec<String>,
    op_errors: u64,
}
static BASE_CACHE: std::sync::Mutex<Vec<BaseEntry>> = std::sync::Mutex::new(Vec::new());
static TRUTH_MEMO: std::sync::Mutex<Option<HashMap<(u64, String), Ans>>> = std::sync::Mutex::new(None);
const BASE_CACHE_MIN_OPS: usize = 200;
fn ops_key(ops: &[Op]) -> u64 {
    use std::hash::{Hash, Hasher};
    let mut h = std::collections::hash_map::DefaultHasher::new();
    serde_json::to_string(ops).unwrap().hash(&mut h);
    h.finish()
}
/// (length of the fault-free-tail prefix P, its key) when the case is built through the base cache
fn base_split(case: &Case) -> Option<(usize, u64)> {
    if !case.long {
        return None;
    }
    let split = case.ops.iter().rposition(|o| !matches!(o, Op::Fault { .. })).map(|i| i + 1).unwrap_or(0);
    if split < BASE_CACHE_MIN_OPS {
        return None;
    }
    Some((split, ops_key(&case.ops[..split])))
}
fn base_cache_clear() {
    BASE_CACHE.lock().unwrap().clear();
}

/// Builds the history on a fresh store.  Faults hit the real files between operations.
fn build(case: &Case) -> Built {
    let Some((split, key)) = base_split(case) else { return build_uncached(case) };
    let mut cache = BASE_CACHE.lock().unwrap();
    if !cache.iter().any(|e| e.key == key) {
        let b = build_uncached(&Case { ops: case.ops[..split].to_vec(), queries: vec![], long: true });
        // a rebuilt base has fresh ids: answers memoized for an earlier build of the same operations must not be reused
        if let Some(m) = TRUTH_MEMO.lock().unwrap().as_mut() {
            m.retain(|(k, _), _| *k != key);
        }
        if cache.len() >= 3 {
            cache.remove(0); // at most three base stores on disk
        }
        cache.push(BaseEntry { key, dir: b.scratch, id: b.id, messages: b.messages, op_errors: b.op_errors });
    }
    let e = cache.iter().find(|e| e.key == key).unwrap();
    let scratch = Scratch::new("c04");
    copy_dir(e.dir.path(), scratch.path());
    let root = scratch.path().to_path_buf();
    let mut prov = Prov { tracked: false, ..Default::default() };
    for op in &case.ops[split..] {
        if let Op::Fault { target, kind } = op {
            apply_fault(&root, &e.id, *target, *kind, &[], &[]);
            prov.live.entry(*target).or_default().push(kind_name(*kind));
        }
    }
    Built { scratch, id: e.id.clone(), messages: e.messages.clone(), op_errors: e.op_errors, writer_checks: 0, writer_violations: vec![], ord_steps: vec![], prov }
}
fn build_uncached(case: &Case) -> Built {
    let scratch = Scratch::new("c04");
    let root = scratch.path().to_path_buf();
    let mut o = open(&root);
    let id = o.store.ensure_default().expect("default");
    let mut messages: Vec<String> = vec![];
    let mut runs: Vec<(String, String)> = vec![]; // (run id, message id)
    let mut versions = vec![];
    let mut present = vec![];
    let mut errs = 0u64;
    let mut nmsg = 0u64;
    let versioned = !case.long;
    let mut writer_checks = 0u64;
    let mut writer_violations: Vec<(usize, Target, String)> = vec![];
    let mut ord_steps: Vec<String> = vec![];
    let mut prov = Prov { tracked: versioned, ..Default::default() };
    let mut restart_pending = false; // a restart happened and the thread has not been appended to since
    let mut truth_before: Vec<u64> = truth_lines(&root, &id).iter().map(|(e, _)| e.seq).collect();
    let mut last_state: Option<(BTreeMap<Target, Option<Vec<u8>>>, BTreeMap<Target, bool>)> =
        if versioned { Some((file_versions(&root, &id), TARGETS.iter().map(|t| (*t, target_path(&root, &id, *t).exists())).collect())) } else { None };
    for (opi, op) in case.ops.iter().enumerate() {
        let st = &o.store;
        let r: Result<(), String> = match op {
            Op::Msg { size } => {
                nmsg += 1;
                st.append_message(&id, "user".into(), "cli".into(), content(*size, nmsg)).map(|m| messages.push(m))
            }
            Op::RunSpawned { msg } => {
                if messages.is_empty() {
                    Ok(())
                } else {
                    let m = messages[(*msg as usize) % messages.len()].clone();
                    let run = uuid::Uuid::new_v4().to_string();
                    runs.push((run.clone(), m.clone()));
                    st.append_run_spawned(&id, &m, &run, "user".into(), "cli".into()).map(|_| ())
                }
            }
            Op::RunEnded { msg } => {
                if runs.is_empty() {
                    Ok(())
                } else {
                    let (run, m) = if *msg == u64::MAX { runs.last().unwrap().clone() } else { runs[(*msg as usize) % runs.len()].clone() };
                    st.append_run_ended(&id, &m, &run, "completed".into(), "user".into(), "cli".into()).map(|_| ())
                }
            }
            Op::SideFx => {
                let link = ContinuityRunLink { continuity_id: id.clone(), message_id: messages.last().cloned().unwrap_or_default(), actor_id: "user".into(), origin: "cli".into() };
                st.append_tool_side_effects(&link, "run-x", ToolSideEffects { tool_id: "t1".into(), tool_name: "write".into(), affected_paths: Some(vec!["a.txt".into()]), checkpoint_id: None }).map(|_| ())
            }
            Op::Checkpoint { msg } => {
                if messages.is_empty() {
                    Ok(())
                } else {
                    let m = messages[(*msg as usize) % messages.len()].clone();
                    st.compaction_checkpoint_cumulative_v1(
                        &id,
                        CompactionCheckpointCumulativeV1Request { summary_markdown: Some("summary".into()), summary_artifact_id: None, to_message_id: Some(m), to_seq: None, stride_messages: None, actor_id: "user".into(), origin: "cli".into() },
                    )
                    .map(|_| ())
                }
            }
            Op::Schedule { stride, max_new, execute } => st
                .compaction_auto_schedule_v1(
                    &id,
                    CompactionAutoScheduleV1Request { stride_messages: Some(*stride), max_new_checkpoints: Some(*max_new), block_on_inflight: Some(false), execute: Some(*execute), dry_run: Some(false), actor_id: "user".into(), origin: "cli".into() },
                )
                .map(|_| ()),
            Op::Cursor { key } => {
                let (p, e, m) = key_parts(*key);
                ripd::verif::append_provider_cursor_updated(st, &id, p, e, m, Some(json!({"previous_response_id": format!("r{key}")})), "set".into(), None, "user".into(), "cli".into()).map(|_| ())
            }
            Op::Selection => ripd::verif::append_context_selection_decided(st, &id, "run-s".into(), messages.last().cloned().unwrap_or_default(), "recent_messages_v1".into(), vec![], "user".into(), "cli".into()).map(|_| ()),
            Op::Compiled => ripd::verif::append_context_compiled(st, &id, "run-s".into(), "artifact".into(), "recent_messages_v1".into(), 0, None, "user".into(), "cli".into()).map(|_| ()),
            Op::Restart => {
                drop(o);
                o = open(&root);
                restart_pending = true;
                Ok(())
            }
            Op::Fault { target, kind } => {
                apply_fault(&root, &id, *target, *kind, &versions, &present);
                prov.live.entry(*target).or_default().push(kind_name(*kind));
                Ok(())
            }
            Op::LoseDir => {
                let _ = std::fs::remove_dir_all(streams_dir(&root));
                for t in TARGETS {
                    prov.live.entry(t).or_default().push("Delete");
                }
                Ok(())
            }
        };
        if r.is_err() {
            errs += 1;
        }
        if versioned {
            let now = file_versions(&root, &id);
            let now_present: BTreeMap<Target, bool> = TARGETS.iter().map(|t| (*t, target_path(&root, &id, *t).exists())).collect();
            if !matches!(op, Op::Fault { .. } | Op::LoseDir) {
                if let Some((was, was_present)) = &last_state {
                    let truth = truth_lines(&root, &id);
                    let truth_valid = truth.iter().enumerate().all(|(i, (e, _))| e.seq == i as u64);
                    // ---- fault provenance
                    let appended = truth.len() > truth_before.len();
                    let mut resynced = false;
                    if restart_pending && appended {
                        restart_pending = false;
                        let full_readable = !was_present[&Target::Full] || was[&Target::Full].is_some();
                        if full_readable && ref_tail_seq(&was[&Target::Full], &id) != truth_before.last().copied() {
                            prov.live.clear();
                            prov.resync_at.push(opi);
                            resynced = true;
                        }
                    }
                    // (3) an operation that starts with replay_events (the cumulative checkpoint) rebuilds every cache file
                    // from the log when try_replay refuses the full sidecar
                    if matches!(op, Op::Checkpoint { .. }) && !messages.is_empty() {
                        let full_readable = !was_present[&Target::Full] || was[&Target::Full].is_some();
                        if full_readable && !ref_try_replay_ok(&was[&Target::Full], &id) {
                            prov.live.clear();
                            prov.resync_at.push(opi);
                            resynced = true;
                        }
                    }
                    let mut all_proj = true;
                    for t in CONFORM_TARGETS {
                        if now_present[&t] && now[&t].is_none() {
                            continue; // too big to snapshot
                        }
                        if is_projection(t, &now[&t], &truth) {
                            prov.live.remove(&t);
                        } else {
                            all_proj = false;
                        }
                    }
                    if resynced && !all_proj {
                        prov.resync_not_observed.push(opi);
                    }
                    truth_before = truth.iter().map(|(e, _)| e.seq).collect();
                    if let (Op::Msg { .. }, true, true) = (op, r.is_ok(), truth_valid) {
                        let big = |m: &BTreeMap<Target, Option<Vec<u8>>>, pr: &BTreeMap<Target, bool>| pr[&Target::Ord] && m[&Target::Ord].is_none();
                        if let (Some((ev, _)), false, false) = (truth.iter().find(|(e, _)| Some(&e.id) == messages.last()), big(was, was_present), big(&now, &now_present)) {
                            let msgs: Vec<u64> = truth.iter().filter(|(e, _)| kind_in(Target::Ord, e)).map(|(e, _)| e.seq).collect();
                            ord_steps.push(format!("{{| os_before := {}; os_seq := {}; os_after := {}; os_msgs := {} |}}", coq_ofile(&was[&Target::Ord], &truth), ev.seq, coq_ofile(&now[&Target::Ord], &truth), coq_list_n(&msgs)));
                        }
                    }
                    for t in CONFORM_TARGETS {
                        // a file too big to snapshot (present but not read) is skipped
                        let readable = |m: &BTreeMap<Target, Option<Vec<u8>>>, pr: &BTreeMap<Target, bool>| !pr[&t] || m[&t].is_some();
                        if !truth_valid || !readable(was, was_present) || !readable(&now, &now_present) || !readable(&now, &now_present) || (now_present[&Target::Full] && now[&Target::Full].is_none()) || (now_present[&Target::Comp] && now[&Target::Comp].is_none()) {
                            continue;
                        }
                        writer_checks += 1;
                        if let Some(what) = writer_conforms(t, &id, &was[&t], &now[&t], &truth, &now[&Target::Full], &now[&Target::Comp]) {
                            writer_violations.push((opi, t, what));
                        }
                    }
                }
            }
            last_state = Some((now.clone(), now_present.clone()));
            versions.push(now);
            present.push(now_present);
        }
    }
    drop(o);
    Built { scratch, id, messages, op_errors: errs, writer_checks, writer_violations, ord_steps, prov }
}

// ---------------------------------------------------------------- queries
#[derive(Clone, Debug, PartialEq)]
enum Ans {
    Ok(Value),
    Err(String),
    Hang,
    Panic,
}
impl Ans {
    fn json(&self) -> Value {
        match self {
            Ans::Ok(v) => json!({"ok": v}),
            Ans::Err(e) => json!({"err": e}),
            Ans::Hang => json!("HANG"),
            Ans::Panic => json!("PANIC"),
        }
    }
}

fn strip_volatile(mut v: Value) -> Value {
    // ids created by the query itself (rotate's new frame id, branch child id)
    if let Some(o) = v.as_object_mut() {
        o.remove("cursor_event_id");
        o.remove("child");
    }
    v
}

fn run_query(root: &Path, id: &str, messages: &[String], q: &Q) -> Result<Value, String> {
    let o = open(root);
    let st = &o.store;
    match q {
        Q::Replay => st.replay_events(id).map(|evs| json!(evs.iter().map(|e| json!({"id": e.id, "seq": e.seq})).collect::<Vec<_>>())).map_err(|e| e.to_string()),
        Q::CutPoints { stride, limit } => st.compaction_cut_points_v1(id, CompactionCutPointsV1Request { stride_messages: Some(*stride), limit: Some(*limit) }).map(|r| serde_json::to_value(r).unwrap()),
        Q::CompactionStatus { stride } => st.compaction_status_v1(id, CompactionStatusV1Request { stride_messages: Some(*stride) }).map(|r| serde_json::to_value(r).unwrap()),
        Q::CursorStatus => st.provider_cursor_status_v1(id, ProviderCursorStatusV1Request {}).map(|r| serde_json::to_value(r).unwrap()),
        Q::Rotate { p, e, m } => st
            .provider_cursor_rotate_v1(
                id,
                ProviderCursorRotateV1Request { provider: p.map(|x| format!("p{x:03}")), endpoint: e.map(|x| format!("e{x}")), model: m.map(|x| format!("m{x}")), reason: None, actor_id: "user".into(), origin: "cli".into() },
            )
            .map(|r| strip_volatile(serde_json::to_value(r).unwrap())),
        Q::Selection { limit } => st.context_selection_status_v1(id, ContextSelectionStatusV1Request { limit: Some(*limit) }).map(|r| serde_json::to_value(r).unwrap()),
        Q::Compile { msg } => {
            if messages.is_empty() {
                return Err("no message".into());
            }
            let m = if *msg == u64::MAX { messages.last().unwrap().clone() } else { messages[(*msg as usize) % messages.len()].clone() };
            let link = ContinuityRunLink { continuity_id: id.to_string(), message_id: m, actor_id: "user".into(), origin: "cli".into() };
            ripd::verif::compile_context_for_run(st, &o.log, &root.join("data").join("snapshots"), &link, "run-compile")
                .and_then(|(decision, artifact, from_seq, from_message_id)| {
                    // the artifact id is random: compare the stored bundle itself
                    let blob = root.join("workspace").join(".rip").join("artifacts").join("blobs").join(&artifact);
                    let bundle = std::fs::read(&blob).ok().and_then(|b| serde_json::from_slice::<Value>(&b).ok()).ok_or_else(|| format!("bundle artifact unreadable"))?;
                    Ok(json!({"decision": decision, "bundle": bundle, "from_seq": from_seq, "from_message_id": from_message_id}))
                })
        }
        Q::BranchCut { sel } | Q::HandoffCut { sel } => {
            let (mid, seq) = match sel {
                Sel::Head => (None, None),
                Sel::Seq(s) => (None, Some(*s)),
                Sel::Msg(i) => (if messages.is_empty() { Some("no-such-message".to_string()) } else { Some(messages[(*i as usize) % messages.len()].clone()) }, None),
            };
            let r = if matches!(q, Q::BranchCut { .. }) {
                st.branch(id, None, mid, seq, "user".into(), "cli".into())
            } else {
                st.handoff(id, None, (Some("sum".into()), None), mid, seq, ("user".into(), "cli".into()))
            };
            r.map(|(_child, s, m)| json!({"cut_seq": s, "cut_message": m}))
        }
    }
}

fn with_watchdog(secs: u64, root: PathBuf, id: String, messages: Vec<String>, q: Q) -> Ans {
    let (tx, rx) = std::sync::mpsc::channel();
    std::thread::Builder::new()
        .stack_size(16 << 20)
        .spawn(move || {
            let r = std::panic::catch_unwind(std::panic::AssertUnwindSafe(|| run_query(&root, &id, &messages, &q)));
            let _ = tx.send(r);
        })
        .unwrap();
    match rx.recv_timeout(Duration::from_secs(secs)) {
        Ok(Ok(Ok(v))) => Ans::Ok(v),
        Ok(Ok(Err(e))) => Ans::Err(e),
        Ok(Err(_)) => Ans::Panic,
        Err(_) => Ans::Hang, // the thread is leaked; it dies with the process
    }
}

// ---------------------------------------------------------------- abstraction for the model
struct Abs {
    truth: Vec<Event>,
    seq_of_event: HashMap<String, u64>,
    seq_of_ckpt: HashMap<String, u64>,
    job_ord: HashMap<String, u64>,
    run_ord: HashMap<String, u64>,
    lens: Vec<u64>,
}
fn abstract_truth(root: &Path, id: &str) -> Abs {
    let raw = std::fs::read(root.join("data").join("events.jsonl")).unwrap_or_default();
    let mut truth = vec![];
    let mut lens = vec![];
    for line in raw.split_inclusive(|b| *b == b'\n') {
        let Ok(ev) = serde_json::from_slice::<Event>(line) else { continue };
        if ev.stream_kind() == StreamKind::Continuity && ev.stream_id() == id {
            lens.push(line.len() as u64);
            truth.push(ev);
        }
    }
    let mut a = Abs { truth, seq_of_event: HashMap::new(), seq_of_ckpt: HashMap::new(), job_ord: HashMap::new(), run_ord: HashMap::new(), lens };
    for e in &a.truth {
        a.seq_of_event.insert(e.id.clone(), e.seq);
        match &e.kind {
            EventKind::ContinuityCompactionCheckpointCreated { checkpoint_id, .. } => {
                a.seq_of_ckpt.insert(checkpoint_id.clone(), e.seq);
            }
            EventKind::ContinuityJobSpawned { job_id, .. } | EventKind::ContinuityJobEnded { job_id, .. } => {
                let n = a.job_ord.len() as u64;
                a.job_ord.entry(job_id.clone()).or_insert(n);
            }
            EventKind::ContinuityRunSpawned { run_session_id, .. } | EventKind::ContinuityRunEnded { run_session_id, .. } => {
                let n = a.run_ord.len() as u64;
                a.run_ord.entry(run_session_id.clone()).or_insert(n);
            }
            _ => {}
        }
    }
    a
}
const SUMMARIZER: &str = "compaction_summarizer_v1";
const CUMULATIVE: &str = "cumulative_v1";
fn key_num(p: &str, e: &Option<String>, m: &Option<String>) -> u64 {
    let pn: u64 = p.trim_start_matches('p').parse().unwrap_or(999);
    let en: u64 = e.as_ref().map(|s| s.trim_start_matches('e').parse().unwrap_or(9)).unwrap_or(0);
    let mn: u64 = m.as_ref().map(|s| s.trim_start_matches('m').parse().unwrap_or(9)).unwrap_or(0);
    pn * 100 + en * 10 + mn
}
fn coq_frame(a: &Abs, i: usize) -> String {
    let e = &a.truth[i];
    let body = match &e.kind {
        EventKind::ContinuityCreated { .. } => "BCreated".to_string(),
        EventKind::ContinuityMessageAppended { .. } => "BMessage".to_string(),
        EventKind::ContinuityRunSpawned { run_session_id, message_id, .. } => format!("BRunSpawned {} {}", a.run_ord[run_session_id], a.seq_of_event.get(message_id).copied().unwrap_or(999_999)),
        EventKind::ContinuityRunEnded { run_session_id, message_id, .. } => format!("BRunEnded {} {}", a.run_ord[run_session_id], a.seq_of_event.get(message_id).copied().unwrap_or(999_999)),
        EventKind::ContinuityCompactionCheckpointCreated { summary_kind, to_seq, .. } => format!("BCheckpoint {} {}", coq_bool(summary_kind == CUMULATIVE), to_seq),
        EventKind::ContinuityProviderCursorUpdated { provider, endpoint, model, .. } => format!("BCursor {}", key_num(provider, endpoint, model)),
        EventKind::ContinuityContextSelectionDecided { .. } => "BSelection".to_string(),
        EventKind::ContinuityContextCompiled { .. } => "BCompiled".to_string(),
        EventKind::ContinuityCompactionAutoScheduleDecided { .. } => "BSchedule".to_string(),
        EventKind::ContinuityJobSpawned { job_id, job_kind, .. } => format!("BJobSpawned {} {}", a.job_ord[job_id], coq_bool(job_kind == SUMMARIZER)),
        EventKind::ContinuityJobEnded { job_id, job_kind, .. } => format!("BJobEnded {} {}", a.job_ord[job_id], coq_bool(job_kind == SUMMARIZER)),
        _ => "BOther".to_string(),
    };
    format!("{{| fseq := {}; flen := {}; fb := {} |}}", e.seq, a.lens[i], body)
}

/// own JSONL reader: every line of the (possibly faulted) full sidecar as `G seq` / `B len`
fn abstract_full(root: &Path, id: &str, a: &Abs) -> Option<Vec<(bool, u64)>> {
    abstract_jsonl(root, id, a, Target::Full)
}
fn abstract_jsonl(root: &Path, id: &str, a: &Abs, t: Target) -> Option<Vec<(bool, u64)>> {
    let p = target_path(root, id, t);
    let raw = std::fs::read(&p).ok()?;
    let mut out = vec![];
    for line in raw.split_inclusive(|b| *b == b'\n') {
        let good = serde_json::from_slice::<Event>(line).ok().filter(|ev| ev.stream_kind() == StreamKind::Continuity && ev.stream_id() == id).and_then(|ev| {
            let s = *a.seq_of_event.get(&ev.id)?;
            // a Good line is byte-identical to the truth line (faults never fabricate frames)
            if ev.seq == s && a.lens[s as usize] == line.len() as u64 && line.ends_with(b"\n") { Some(s) } else { None }
        });
        match good {
            Some(s) => out.push((true, s)),
            None => out.push((false, line.len() as u64)),
        }
    }
    Some(out)
}

// ---- per-file coherence classification (independent of the model; used for known-finding classes)
#[derive(Debug, Clone, Copy, PartialEq, Eq)]
enum FileState {
    Absent,
    Exact,               // equals the projection of the truth stream
    WellFormedDiffers,   // every line/record parses and the reader's own validation passes, but it is not the projection
    Empty,               // the file exists and holds no line at all
    Malformed,
}
fn jsonl_lines(raw: &[u8]) -> Vec<&[u8]> {
    raw.split_inclusive(|b| *b == b'\n').collect()
}
fn classify_full(root: &Path, id: &str, a: &Abs) -> (FileState, bool) {
    // (state, is a proper prefix of the truth stream)
    match abstract_full(root, id, a) {
        None => (FileState::Absent, false),
        Some(ls) => {
            let all_good = ls.iter().all(|(g, _)| *g);
            let contiguous = ls.iter().enumerate().all(|(i, (_, s))| *s == i as u64);
            if all_good && contiguous && !ls.is_empty() {
                if ls.len() == a.truth.len() { (FileState::Exact, false) } else { (FileState::WellFormedDiffers, ls.len() < a.truth.len()) }
            } else {
                (FileState::Malformed, false)
            }
        }
    }
}
fn classify_derived_jsonl(root: &Path, id: &str, a: &Abs, t: Target) -> FileState {
    let p = target_path(root, id, t);
    let Ok(raw) = std::fs::read(&p) else { return FileState::Absent };
    let want: Vec<&Event> = a
        .truth
        .iter()
        .filter(|e| match t {
            Target::Mr => matches!(e.kind, EventKind::ContinuityMessageAppended { .. } | EventKind::ContinuityRunEnded { .. }),
            _ => matches!(e.kind, EventKind::ContinuityCompactionCheckpointCreated { .. }),
        })
        .collect();
    let mut got = vec![];
    for line in jsonl_lines(&raw) {
        if !line.ends_with(b"\n") {
            return FileState::Malformed;
        }
        match serde_json::from_slice::<Event>(line) {
            Ok(ev) if ev.stream_kind() == StreamKind::Continuity && ev.stream_id() == id => got.push(ev.id),
            _ => return FileState::Malformed,
        }
    }
    if got.is_empty() {
        return FileState::Empty;
    }
    if got.len() == want.len() && got.iter().zip(want.iter()).all(|(g, w)| *g == w.id) { FileState::Exact } else { FileState::WellFormedDiffers }
}
fn classify_compidx(root: &Path, id: &str, a: &Abs) -> FileState {
    let p = target_path(root, id, Target::CompIdx);
    let Ok(raw) = std::fs::read(&p) else { return FileState::Absent };
    let want: Vec<u64> = a.truth.iter().filter(|e| matches!(e.kind, EventKind::ContinuityCompactionCheckpointCreated { .. })).map(|e| e.seq).collect();
    let mut got = vec![];
    for line in jsonl_lines(&raw) {
        if !line.ends_with(b"\n") {
            return FileState::Malformed;
        }
        match serde_json::from_slice::<Value>(line) {
            Ok(v) if v.get("version").and_then(|x| x.as_u64()) == Some(1) && v.get("checkpoint_id").is_some() => got.push(v.get("seq").and_then(|x| x.as_u64()).unwrap_or(u64::MAX)),
            _ => return FileState::Malformed,
        }
    }
    if got.is_empty() || got.windows(2).any(|w| w[1] < w[0]) {
        return FileState::Malformed;
    }
    if got == want { FileState::Exact } else { FileState::WellFormedDiffers }
}
fn classify_ord(root: &Path, id: &str, a: &Abs) -> FileState {
    let p = target_path(root, id, Target::Ord);
    let Ok(raw) = std::fs::read(&p) else { return FileState::Absent };
    if raw.len() < 32 || &raw[0..8] != b"RIPMORD1" || (raw.len() - 32) % 24 != 0 {
        return FileState::Malformed;
    }
    let want: Vec<u64> = a.truth.iter().filter(|e| matches!(e.kind, EventKind::ContinuityMessageAppended { .. })).map(|e| e.seq).collect();
    let got: Vec<u64> = raw[32..].chunks(24).map(|c| u64::from_le_bytes(c[0..8].try_into().unwrap())).collect();
    if got == want { FileState::Exact } else { FileState::WellFormedDiffers }
}
/// the ordinal index's last record is the thread's last message: the only cross-check the readers make
/// (message_count_messages_runs_v1) passes although records are missing before it
fn ord_tail_coherent(root: &Path, id: &str, a: &Abs) -> bool {
    let p = target_path(root, id, Target::Ord);
    let Ok(raw) = std::fs::read(&p) else { return false };
    if raw.len() < 32 + 24 || (raw.len() - 32) % 24 != 0 {
        return false;
    }
    let last = u64::from_le_bytes(raw[raw.len() - 24..raw.len() - 16].try_into().unwrap());
    a.truth.iter().rev().find(|e| matches!(e.kind, EventKind::ContinuityMessageAppended { .. })).map(|e| e.seq) == Some(last)
}

struct Coherence {
    truth_valid: bool, // the thread's frames in events.jsonl carry seq 0,1,2,.. (a precondition of the property, owned by C01/C05)
    full: FileState,
    full_stale_prefix: bool,
    full_good_lines_not_contiguous: bool, // every line is a truth line, but the seqs are not 0,1,2,.. (gap after a roll-back + append, or a re-created suffix)
    full_tail_stale: bool,                // K1 of the theorems (Model/Cache.v good_tail / tail_faithful): the longest all-good seq-contiguous run at the END of the file is non-empty and does not end at the thread's last frame (a stale prefix is the special case where that run is the whole file)
    full_every_line_parses: bool,         // present and every non-blank line parses as a frame of this thread (the header-level rebuild of a derived sidecar succeeds)
    mr: FileState,
    comp: FileState,
    compidx: FileState,
    ord: FileState,
    ord_tail_coherent: bool,
}
fn coherence(root: &Path, id: &str, a: &Abs) -> Coherence {
    let (full, pre) = classify_full(root, id, a);
    let gap = abstract_full(root, id, a).map(|ls| !ls.is_empty() && ls.iter().all(|(g, _)| *g) && !ls.iter().enumerate().all(|(i, (_, s))| *s == i as u64)).unwrap_or(false);
    let tail_stale = abstract_full(root, id, a)
        .map(|ls| match ls.last() {
            // good lines carry their truth seq: the run at the end is a suffix of truth iff its last line is truth's last frame
            Some((true, s)) => *s + 1 != a.truth.len() as u64,
            _ => false,
        })
        .unwrap_or(false);
    let parses = std::fs::read(target_path(root, id, Target::Full)).ok().map(|raw| parsed_lines(&raw, id).is_some()).unwrap_or(false);
    Coherence { full_tail_stale: tail_stale, full_every_line_parses: parses, truth_valid: a.truth.iter().enumerate().all(|(i, e)| e.seq == i as u64), full, full_stale_prefix: pre, full_good_lines_not_contiguous: gap, mr: classify_derived_jsonl(root, id, a, Target::Mr), comp: classify_derived_jsonl(root, id, a, Target::Comp), compidx: classify_compidx(root, id, a), ord: classify_ord(root, id, a), ord_tail_coherent: ord_tail_coherent(root, id, a) }
}
/// Executable class of a fast/truth disagreement.
/// The open classes are keyed twice: by the file state the readers meet (computed from the files) AND by the fault
/// provenance that produces such a state on today's code (`Prov::live`: the faults on that file that today's code has
/// not reconciled since — see `Prov`; the writers themselves are held to the reference write semantics by the
/// write-conformance check).  A disagreement in a state that its live faults cannot explain is reported under the
/// generic class, i.e. as a new violation.
///
/// class / file state at query time / live faults (today's provenance)
/// S3  full_sidecar_wellformed_stale_prefix: the full sidecar's last line is a well-formed frame that is not the thread's
///     last frame (K1; the whole file a proper prefix of truth, or anything before that line) /
///     Full: TruncLines | Rollback (alive, or across a restart with no append since)
/// S4  derived_sidecar_wellformed_not_projection: mr/comp parse, != projection /
///     that file: Delete | TruncLines | Rollback (+ an append re-created / extended it)
/// (S4c derived_sidecar_zero_length_accepted: fixed in /repo, no class any more)
/// S4b derived_index_wellformed_not_projection: comp.idx / msgord parse (msgord: last record = last message), != projection /
///     that file: Delete | TruncLines | Rollback, or the sidecar it indexes: any
/// S3c compile_window_read_accepts_noncontiguous_full_sidecar: full: every line good, seqs not contiguous /
///     Full: Delete | TruncLines | Rollback (then appended to, alive); compile only
/// S4d derived_sidecar_rebuilt_from_unvalidated_full_sidecar: mr/comp absent, full present, EVERY line parses, != truth /
///     Full: any (+ the derived file lost); cut points / status / compile only
/// Every fault is dropped from `live` at the first append after a restart that finds the full sidecar's tail behind
/// (or unreadable / missing), because today's code rebuilds everything there.
fn classify_violation(c: &Coherence, fast: &Ans, _truth: &Ans, q: &Q, prov: &Prov) -> String {
    let any = |ts: &[Target], kinds: &[&str]| ts.iter().any(|t| prov.live.get(t).map(|ks| ks.iter().any(|k| kinds.contains(k))).unwrap_or(false));
    const LOSSY: [&str; 3] = ["Delete", "TruncLines", "Rollback"]; // faults that leave a well-formed file (or none, re-created by the next append)
    const ANYK: [&str; 6] = ["Delete", "TruncLines", "TruncMidLine", "Garbage", "Rollback", "GarbageLine"];
    let qn = match q {
        Q::Replay => "replay",
        Q::CutPoints { .. } => "cut_points",
        Q::CompactionStatus { .. } => "compaction_status",
        Q::CursorStatus => "cursor_status",
        Q::Rotate { .. } => "cursor_rotate",
        Q::Selection { .. } => "selection_status",
        Q::BranchCut { .. } => "branch_cut",
        Q::HandoffCut { .. } => "handoff_cut",
        Q::Compile { .. } => "compile",
    };
    if *fast == Ans::Hang {
        return format!("hang:{qn}");
    }
    if *fast == Ans::Panic {
        return "panic".into();
    }
    if !c.truth_valid {
        // (fixed, 0b0d2b0) after a restart on a stale sidecar load_next_seq_for re-issued a seq => the truth stream
        // itself no longer validates
        return "truth_stream_seq_reissued_after_stale_sidecar".into();
    }
    // K1: the full sidecar ends in a well-formed frame that is not the thread's last frame.  Nothing compares the sidecar's
    // tail with the log on a read, so every reader of the tail (try_replay / scan_tail when the whole file is a prefix,
    // the head probe of the compile input and of cut_points whatever lies before the last line) may serve it.  Only
    // faults that put an OLDER well-formed line last produce it.
    if c.full_tail_stale && any(&[Target::Full], &["TruncLines", "Rollback"]) {
        debug_assert!(!(c.full == FileState::WellFormedDiffers && c.full_stale_prefix) || c.full_tail_stale);
        return "full_sidecar_wellformed_stale_prefix".into();
    }
    // only the queries that read the derived files can be wrong because of them (replay, cursor / selection status,
    // rotate and the branch / handoff cut read the full sidecar alone)
    let reads_derived = matches!(q, Q::CutPoints { .. } | Q::CompactionStatus { .. } | Q::Compile { .. });
    if reads_derived && ((c.mr == FileState::WellFormedDiffers && any(&[Target::Mr], &LOSSY)) || (c.comp == FileState::WellFormedDiffers && any(&[Target::Comp], &LOSSY))) {
        return "derived_sidecar_wellformed_not_projection".into();
    }
    // (S4c, fixed in /repo e409d9d: a zero-length mr / comp sidecar is read as a lost one, so that state is no class
    // of its own any more; a wrong answer that a zero-length file alone explains is a new violation)
    // the ordinal index is cross-checked only through its last record; an index whose last record is NOT the last
    // message is detected by the readers, so a disagreement in that state would be a new defect, not this class
    if reads_derived
        && ((c.compidx == FileState::WellFormedDiffers && (any(&[Target::CompIdx], &LOSSY) || any(&[Target::Comp], &ANYK)))
            || (c.ord == FileState::WellFormedDiffers && c.ord_tail_coherent && (any(&[Target::Ord], &LOSSY) || any(&[Target::Mr], &ANYK))))
    {
        return "derived_index_wellformed_not_projection".into();
    }
    if c.full_good_lines_not_contiguous && any(&[Target::Full], &LOSSY) && matches!(q, Q::Compile { .. }) {
        // window_recent_messages_v1_from_message_id (seek/message-id index over the full sidecar) reads a window of a
        // full sidecar whose seqs are not contiguous without noticing (the tail loops and try_replay do notice)
        return "compile_window_read_accepts_noncontiguous_full_sidecar".into();
    }
    if (c.comp == FileState::Absent || c.mr == FileState::Absent)
        && !matches!(c.full, FileState::Exact | FileState::Absent)
        && c.full_every_line_parses
        && any(&[Target::Full], &ANYK)
        && matches!(q, Q::CutPoints { .. } | Q::CompactionStatus { .. } | Q::Compile { .. })
    {
        // ensure_*_sidecar_best_effort_v1 builds a missing derived sidecar from whatever the full sidecar holds
        // (line headers only: no seq contiguity, no comparison with the log).  A full sidecar with an unparsable
        // line makes that rebuild fail, and today's callers then answer from the log: not this class.
        return "derived_sidecar_rebuilt_from_unvalidated_full_sidecar".into();
    }
    format!("cache_changes_answer:{qn}")
}

// ---------------------------------------------------------------- encoders (answers -> list N)
const ERR: u64 = 999_999;
const HANG: u64 = 777_777;
fn ev_seq(a: &Abs, id: &str) -> u64 {
    a.seq_of_event.get(id).copied().unwrap_or(888_888)
}
fn enc_answer(a: &Abs, q: &Q, ans: &Ans) -> Vec<Vec<u64>> {
    // one query of the harness maps to one or several model queries (same order as coq_queries)
    let v = match ans {
        Ans::Hang => return coq_queries(q).iter().map(|_| vec![HANG]).collect(),
        Ans::Panic => return coq_queries(q).iter().map(|_| vec![666_666]).collect(),
        Ans::Err(_) => return coq_queries(q).iter().map(|_| vec![ERR]).collect(),
        Ans::Ok(v) => v,
    };
    let opt_str = |x: &Value| x.as_str().map(|s| s.to_string());
    match q {
        Q::Replay => {
            let l: Vec<u64> = v.as_array().unwrap().iter().map(|e| e["seq"].as_u64().unwrap()).collect();
            // ids must be the truth ids of those seqs
            let ok = v.as_array().unwrap().iter().all(|e| ev_seq(a, e["id"].as_str().unwrap()) == e["seq"].as_u64().unwrap());
            let mut out = vec![];
            enc_list(&mut out, &l);
            if !ok {
                out.push(888_888);
            }
            vec![out]
        }
        Q::CursorStatus => {
            let mut out = vec![];
            enc_opt(&mut out, opt_str(&v["active"]["cursor_event_id"]).map(|s| ev_seq(a, &s)));
            let l: Vec<u64> = v["cursors"].as_array().unwrap().iter().map(|c| ev_seq(a, c["cursor_event_id"].as_str().unwrap())).collect();
            enc_list(&mut out, &l);
            vec![out]
        }
        Q::Rotate { .. } => {
            let mut out = vec![];
            if v["rotated"].as_bool() == Some(true) {
                let k = key_num(v["provider"].as_str().unwrap(), &opt_str(&v["endpoint"]), &opt_str(&v["model"]));
                enc_opt(&mut out, Some(k));
            } else {
                enc_opt(&mut out, None);
            }
            vec![out]
        }
        Q::Selection { .. } => {
            let l: Vec<u64> = v["decisions"].as_array().unwrap().iter().map(|d| ev_seq(a, d["decision_event_id"].as_str().unwrap())).collect();
            let mut out = vec![];
            enc_list(&mut out, &l);
            vec![out]
        }
        Q::CutPoints { .. } => vec![enc_cut_points(a, v)],
        Q::Compile { .. } => vec![],
        Q::CompactionStatus { .. } => {
            // [QStatusTail; QInflight; QLatestCkpt]
            let mut t = vec![];
            enc_opt(&mut t, v["last_schedule_decision"]["seq"].as_u64());
            enc_opt(&mut t, v["last_job_outcome"]["seq"].as_u64());
            let mut i = vec![];
            enc_opt(&mut i, opt_str(&v["inflight_job_id"]).map(|j| a.job_ord.get(&j).copied().unwrap_or(888_888)));
            let mut c = vec![];
            enc_opt(&mut c, opt_str(&v["latest_checkpoint"]["checkpoint_id"]).map(|j| a.seq_of_ckpt.get(&j).copied().unwrap_or(888_888)));
            vec![t, i, c]
        }
        Q::BranchCut { .. } | Q::HandoffCut { .. } => {
            let mut out = vec![v["cut_seq"].as_u64().unwrap()];
            enc_opt(&mut out, opt_str(&v["cut_message"]).map(|s| ev_seq(a, &s)));
            vec![out]
        }
    }
}
fn enc_cut_points(a: &Abs, v: &Value) -> Vec<u64> {
    let mut out = vec![v["message_count"].as_u64().unwrap()];
    let cps = v["cut_points"].as_array().unwrap();
    out.push(cps.len() as u64);
    for c in cps {
        out.push(c["target_message_ordinal"].as_u64().unwrap());
        out.push(c["to_seq"].as_u64().unwrap());
        if ev_seq(a, c["to_message_id"].as_str().unwrap()) != c["to_seq"].as_u64().unwrap() {
            out.push(888_888);
        }
        enc_bool(&mut out, c["already_checkpointed"].as_bool().unwrap());
        enc_opt(&mut out, c["latest_checkpoint_id"].as_str().map(|j| a.seq_of_ckpt.get(j).copied().unwrap_or(888_888)));
    }
    out
}
fn coq_optn(o: &Option<u64>) -> String {
    coq_opt(o, |x| format!("{x}"))
}
fn coq_sel(sel: &Sel, a: &Abs, messages: &[String]) -> String {
    match sel {
        Sel::Head => "CutHead".into(),
        Sel::Seq(s) => format!("(CutSeq {s})"),
        Sel::Msg(i) => {
            if messages.is_empty() {
                "(CutMsg 999999)".into()
            } else {
                format!("(CutMsg {})", ev_seq(a, &messages[(*i as usize) % messages.len()]))
            }
        }
    }
}
/// (Coq query term, compare the fast answer with the model's full-sidecar fast path?)
fn coq_queries(q: &Q) -> Vec<(&'static str, bool)> {
    match q {
        Q::Replay => vec![("replay", true)],
        Q::CursorStatus => vec![("cursor", true)],
        Q::Rotate { .. } => vec![("rotate", true)],
        Q::Selection { .. } => vec![("selection", true)],
        Q::CutPoints { .. } => vec![("cutpoints", false)],
        // cut_points runs first inside compaction_status and may rebuild the sidecar: the full-only
        // fast model applies only when the derived caches are intact (decided per case)
        Q::CompactionStatus { .. } => vec![("statustail", true), ("inflight", true), ("latestckpt", false)],
        Q::BranchCut { .. } | Q::HandoffCut { .. } => vec![("cut", true)],
        Q::Compile { .. } => vec![],
    }
}
fn coq_query_term(q: &Q, which: &str, a: &Abs, messages: &[String]) -> String {
    match (q, which) {
        (Q::Replay, _) => "QReplay".into(),
        (Q::CursorStatus, _) => "QCursorStatus".into(),
        (Q::Rotate { p, e, m }, _) => format!("(QRotate {} {} {})", coq_optn(p), coq_optn(e), coq_optn(m)),
        (Q::Selection { limit }, _) => format!("(QSelection {})", (*limit).min(50)),
        (Q::CutPoints { stride, limit }, _) => format!("(QCutPoints {stride} {limit})"),
        (Q::CompactionStatus { .. }, "statustail") => "QStatusTail".into(),
        (Q::CompactionStatus { .. }, "inflight") => "QInflight".into(),
        (Q::CompactionStatus { .. }, _) => "QLatestCkpt".into(),
        (Q::BranchCut { sel }, _) | (Q::HandoffCut { sel }, _) => format!("(QCut {})", coq_sel(sel, a, messages)),
        (Q::Compile { .. }, _) => unreachable!("compile has no model part"),
    }
}

// ---------------------------------------------------------------- compile through the caches: Model/CacheCompile.v case
const TAIL_WINDOWS: [u64; 6] = [256 << 10, 512 << 10, 1 << 20, 2 << 20, 4 << 20, 8 << 20];
/// whole lines a backward scan of the last `w` bytes parses: a line counts when the byte before it lies inside the window too
/// (the scan splits at the newline in front of it), or when the scan reaches the start of the file
fn lines_in_window(lens: &[u64], w: u64) -> u64 {
    let total: u64 = lens.iter().sum();
    if w >= total {
        return lens.len() as u64;
    }
    let mut cum = 0u64;
    let mut k = 0u64;
    for l in lens.iter().rev() {
        if cum + l + 1 <= w {
            cum += l;
            k += 1;
        } else {
            break;
        }
    }
    k
}
fn coq_cframe(a: &Abs, i: usize) -> String {
    let e = &a.truth[i];
    let body = match &e.kind {
        EventKind::ContinuityMessageAppended { .. } => "BMsg".to_string(),
        EventKind::ContinuityRunEnded { run_session_id, message_id, .. } => format!("(BRunEnded {} {})", a.run_ord[run_session_id], a.seq_of_event.get(message_id).copied().unwrap_or(999_999)),
        EventKind::ContinuityCompactionCheckpointCreated { summary_kind, to_seq, .. } => format!("(BCkpt {} {} 0)", coq_bool(summary_kind == CUMULATIVE), to_seq),
        _ => "BOther".to_string(),
    };
    format!("{{| fseq := {}; fb := {} |}}", e.seq, body)
}
fn coq_ixs(ls: &[(bool, u64)]) -> String {
    coq_list(ls, |(g, x)| if *g { format!("Some {x}") } else { "None".to_string() })
}
/// None when the state is outside what the model claims to reproduce (see the call site) or the answer cannot be encoded
fn cc_case_term(out: &Outcome, anchor_seq: u64, fast: &Ans) -> Option<String> {
    let a = &out.abs;
    // the file the tail scan reads: the mr sidecar as found, or the one ensure_* builds from a full sidecar that parses
    let lens: Vec<u64> = match (&out.mr_lens, &out.full) {
        (Some(l), _) => l.clone(),
        (None, Some(fl)) if fl.iter().all(|(g, _)| *g) => fl
            .iter()
            .filter(|(_, s)| matches!(a.truth[*s as usize].kind, EventKind::ContinuityMessageAppended { .. } | EventKind::ContinuityRunEnded { .. }))
            .map(|(_, s)| a.lens[*s as usize])
            .collect(),
        _ => vec![],
    };
    let budgets: Vec<u64> = TAIL_WINDOWS.iter().map(|w| lines_in_window(&lens, *w)).collect();
    let expect: Vec<u64> = match fast {
        Ans::Err(_) => vec![0],
        Ans::Ok(v) => {
            let mut o = vec![1, v["from_seq"].as_u64()?];
            let items = v["bundle"]["items"].as_array()?;
            o.push(items.iter().filter(|i| i["type"] == "summary_ref").count() as u64);
            for i in items.iter().filter(|i| i["type"] == "summary_ref") {
                // "compaction checkpoint to_seq=<n>"
                o.push(i["note"].as_str().and_then(|n| n.rsplit('=').next()).and_then(|n| n.parse().ok()).unwrap_or(888_888));
            }
            for i in items {
                if i["type"] == "summary_ref" {
                    continue;
                }
                // the harness's messages are "m<n> xxx.."; anything else in the bundle is not a user message of this thread
                let n: Option<usize> = i["content"].as_str().and_then(|c| c.strip_prefix('m')).and_then(|c| c.split(' ').next()).and_then(|c| c.parse().ok());
                match n.and_then(|n| out.messages.get(n.wrapping_sub(1))).and_then(|id| a.seq_of_event.get(id)) {
                    Some(s) => o.push(*s),
                    None => o.push(888_888),
                }
            }
            o
        }
        _ => return None,
    };
    let frames = coq_list(&(0..a.truth.len()).collect::<Vec<_>>(), |i| coq_cframe(a, *i));
    // the one bounded scan of the checkpoint sidecar: 10 000 frames / 8 MiB
    let me = match &out.comp_lens {
        Some(l) => lines_in_window(l, 8 << 20).min(10_000),
        None => 10_000,
    };
    Some(format!(
        "(let fr := {} in {{| cc_l := fr; cc_mrf := {}; cc_fullf := {}; cc_compf := {}; cc_idxf := {}; cc_me := {}%nat; cc_budgets := {}; cc_anchor := {}; cc_expect := {} |}})",
        frames,
        coq_opt(&out.mr, |ls| format!("(cc_lines fr {})", coq_ixs(ls))),
        coq_opt(&out.full, |ls| format!("(cc_lines fr {})", coq_ixs(ls))),
        coq_opt(&out.comp, |ls| format!("(cc_lines fr {})", coq_ixs(ls))),
        coq_opt(&out.idx, |ls| format!("(cc_lines fr {})", coq_ixs(ls))),
        me,
        coq_list(&budgets, |k| format!("{k}%nat")),
        anchor_seq,
        coq_list_n(&expect)
    ))
}

// ---------------------------------------------------------------- generators
fn gen_history(r: &mut Rng, n: u64, big: bool) -> Vec<Op> {
    let mut ops = vec![];
    let mut nmsg = 0u64;
    let dense = r.chance(1, 4);
    for _ in 0..n {
        let size = if big && r.chance(1, 3) { *r.pick(&[70_000u64, 140_000, 300_000]) } else { *r.pick(&[5u64, 20, 200]) };
        let op = match r.below(if dense { 24 } else { 18 }) {
            0..=5 => {
                nmsg += 1;
                Op::Msg { size }
            }
            6 => Op::RunSpawned { msg: r.below(nmsg.max(1)) },
            7 => Op::RunEnded { msg: r.below(8) },
            8 | 9 => Op::Checkpoint { msg: r.below(nmsg.max(1)) },
            10 => Op::Schedule { stride: r.range(1, 3), max_new: r.range(1, 2) as u32, execute: r.chance(2, 3) },
            11 | 12 => Op::Cursor { key: *r.pick(&[100u64, 100, 110, 111, 200, 201, 300, 310]) },
            13 | 14 => Op::Selection,
            15 => Op::Compiled,
            16 => Op::Restart,
            _ => Op::SideFx,
        };
        ops.push(op);
    }
    ops
}
fn gen_fault(r: &mut Rng) -> Op {
    let target = *r.pick(&[Target::Full, Target::Full, Target::Full, Target::Mr, Target::Comp, Target::Comp, Target::CompIdx, Target::Seek, Target::MsgIdx, Target::MrSeek, Target::MrMsgIdx, Target::Ord]);
    let kind = match r.below(10) {
        0 | 1 => FaultKind::Delete,
        2 => FaultKind::TruncLines(r.range(1, 3)),
        3 => FaultKind::TruncLines(1000),
        4 => FaultKind::TruncMidLine,
        5 => FaultKind::Garbage,
        6 | 7 => FaultKind::GarbageLine(r.below(6)),
        _ => FaultKind::Rollback(r.range(1, 6)),
    };
    if r.chance(1, 25) {
        return Op::LoseDir;
    }
    Op::Fault { target, kind }
}
fn gen_queries(r: &mut Rng, nmsg: u64) -> Vec<Q> {
    let stride = r.range(1, 3);
    vec![
        Q::Replay,
        Q::CutPoints { stride, limit: *r.pick(&[1u32, 2, 4, 32, 0]) },
        Q::CompactionStatus { stride },
        Q::CursorStatus,
        Q::Rotate { p: *r.pick(&[None, None, Some(1), Some(2), Some(7)]), e: *r.pick(&[None, None, Some(1)]), m: *r.pick(&[None, None, Some(1)]) },
        Q::Selection { limit: *r.pick(&[1u32, 2, 3, 10, 0]) },
        Q::BranchCut { sel: match r.below(3) { 0 => Sel::Head, 1 => Sel::Seq(r.below(nmsg * 2 + 3)), _ => Sel::Msg(r.below(nmsg.max(1))) } },
        Q::HandoffCut { sel: match r.below(3) { 0 => Sel::Head, 1 => Sel::Seq(r.below(nmsg * 2 + 3)), _ => Sel::Msg(r.below(nmsg.max(1))) } },
        Q::Compile { msg: u64::MAX },
        Q::Compile { msg: r.below(nmsg.max(1)) },
    ]
}
fn gen_case(r: &mut Rng, i: u64) -> Case {
    let big = i % 6 == 5;
    let n = if big { r.range(6, 14) } else { r.range(3, 26) };
    let mut ops = gen_history(r, n, big);
    let nfaults = r.below(4);
    for _ in 0..nfaults {
        let at = r.range(1, ops.len() as u64) as usize;
        ops.insert(at, gen_fault(r));
        // often: an append or a restart (or a restart and then an append) right after the fault
        if r.chance(1, 2) {
            let follow = match r.below(6) {
                0 => vec![Op::Msg { size: 10 }],
                1 => vec![Op::Checkpoint { msg: r.below(4) }],
                2 => vec![Op::Restart],
                3 => vec![Op::Restart, Op::Msg { size: 10 }],
                4 => vec![Op::Restart, Op::Checkpoint { msg: r.below(4) }],
                _ => vec![Op::Cursor { key: 100 }],
            };
            for (k, f) in follow.into_iter().enumerate() {
                ops.insert((at + 1 + k).min(ops.len()), f);
            }
        }
    }
    let nmsg = ops.iter().filter(|o| matches!(o, Op::Msg { .. })).count() as u64;
    Case { queries: gen_queries(r, nmsg), ops, long: false }
}

/// histories longer than every bounded tail window (real constants)
fn long_cases() -> Vec<Case> {
    let all_q = || {
        vec![
            Q::CompactionStatus { stride: 10_000 },
            Q::CursorStatus,
            Q::Rotate { p: Some(7), e: None, m: None },
            Q::Rotate { p: None, e: None, m: None },
            Q::Selection { limit: 10 },
            Q::CutPoints { stride: 3, limit: 2 },
            Q::Compile { msg: u64::MAX },
            Q::Compile { msg: 0 },
        ]
    };
    // (a) > 10 000 small frames: one early cursor + decision + 3 messages, then 10 050 side-effect frames
    let mut a = vec![Op::Msg { size: 5 }, Op::Cursor { key: 100 }, Op::Selection, Op::Msg { size: 5 }, Op::Msg { size: 5 }, Op::Schedule { stride: 3, max_new: 1, execute: true }];
    for _ in 0..10_050 {
        a.push(Op::SideFx);
    }
    // (b) > 8 MiB sidecar: the searched frames first, then 9 messages of 1 MiB
    let mut b = vec![Op::Msg { size: 5 }, Op::Cursor { key: 100 }, Op::Selection, Op::Schedule { stride: 1, max_new: 1, execute: true }];
    for _ in 0..9 {
        b.push(Op::Msg { size: 1 << 20 });
    }
    // (c) a decision inside the first window, > 256 KiB of frames before it (S2)
    let mut c = vec![Op::Msg { size: 5 }, Op::Selection, Op::Cursor { key: 200 }];
    for _ in 0..4 {
        c.push(Op::Msg { size: 100_000 });
    }
    c.push(Op::Selection);
    c.push(Op::Cursor { key: 100 });
    vec![
        Case { ops: a, queries: all_q(), long: true },
        Case { ops: b, queries: all_q(), long: true },
        Case { ops: c, queries: vec![Q::Selection { limit: 10 }, Q::Selection { limit: 1 }, Q::CursorStatus, Q::Rotate { p: Some(2), e: None, m: None }], long: false },
    ]
}

fn fault(target: Target, kind: FaultKind) -> Op {
    Op::Fault { target, kind }
}
fn fixed_queries(nmsg: u64) -> Vec<Q> {
    vec![
        Q::CutPoints { stride: 2, limit: 8 },
        Q::CompactionStatus { stride: 2 },
        Q::Replay,
        Q::CursorStatus,
        Q::Selection { limit: 10 },
        Q::Compile { msg: u64::MAX },
        Q::Compile { msg: nmsg / 2 },
        Q::BranchCut { sel: Sel::Head },
    ]
}
/// Fault sets x lifecycle position.  The same loss means different things on today's code depending on where in the
/// authority's life it happens: while the store object is alive nothing re-synchronises the caches (open S3/S4
/// family); across a restart the first append to the thread rebuilds everything when the full sidecar's tail is not
/// the log's head (0b0d2b0); a read before any full replay sees the files as the last writer left them.
/// `all` = the whole product (thorough); otherwise the core rows plus a seed-dependent fifth of the rest.
fn lifecycle_cases(r: &mut Rng, all: bool) -> Vec<Case> {
    use FaultKind::*;
    use Target::*;
    // 6 messages, cumulative checkpoints at ordinals 2 and 4, a cursor, a decision, a finished run
    let base = vec![
        Op::Msg { size: 5 }, Op::Cursor { key: 100 }, Op::Msg { size: 5 }, Op::Checkpoint { msg: 1 }, Op::Msg { size: 5 }, Op::Selection, Op::Msg { size: 5 },
        Op::Checkpoint { msg: 3 }, Op::Msg { size: 5 }, Op::RunSpawned { msg: 4 }, Op::RunEnded { msg: 0 }, Op::Msg { size: 5 },
    ];
    let mr_family = |v: &mut Vec<Op>| {
        for t in [Mr, MrSeek, MrMsgIdx, Ord] {
            v.push(fault(t, Delete));
        }
    };
    let mut fsets: Vec<(bool, Vec<Op>)> = vec![]; // (core, faults)
    fsets.push((true, vec![Op::LoseDir]));
    fsets.push((true, { let mut v = vec![fault(Full, TruncMidLine)]; mr_family(&mut v); v }));
    fsets.push((true, vec![fault(Full, TruncMidLine), fault(Comp, Delete), fault(CompIdx, Delete)]));
    fsets.push((false, vec![fault(Full, Delete)]));
    fsets.push((false, vec![fault(Full, Garbage)]));
    fsets.push((false, vec![fault(Full, TruncLines(1))]));
    fsets.push((false, vec![fault(Full, GarbageLine(0))]));
    fsets.push((false, { let mut v = vec![fault(Full, Rollback(3))]; mr_family(&mut v); v }));
    fsets.push((false, { let mut v = vec![]; mr_family(&mut v); v }));
    fsets.push((false, vec![fault(Comp, Delete), fault(CompIdx, Delete)]));
    fsets.push((false, vec![fault(Full, TruncLines(2)), fault(Comp, Delete)]));
    fsets.push((false, vec![fault(Full, Delete), fault(Comp, Delete), fault(CompIdx, Delete), fault(Ord, Delete)]));
    fsets.push((false, vec![fault(Full, Garbage), fault(Mr, Garbage), fault(Comp, Garbage)]));
    let tails: Vec<(bool, Vec<Op>)> = vec![
        (false, vec![]),
        (false, vec![Op::Restart]),
        (true, vec![Op::Restart, Op::Msg { size: 5 }]),
        (true, vec![Op::Restart, Op::Checkpoint { msg: 5 }]),
        (false, vec![Op::Restart, Op::Cursor { key: 200 }]),
        (false, vec![Op::Msg { size: 5 }]),
        (false, vec![Op::Checkpoint { msg: 5 }]),
        (false, vec![Op::Restart, Op::Msg { size: 5 }, Op::Checkpoint { msg: 6 }]),
        (false, vec![Op::Restart, Op::Selection, Op::Msg { size: 5 }]),
    ];
    let mut out = vec![];
    for (fcore, fs) in &fsets {
        for (tcore, tail) in &tails {
            for pre_restart in [false, true] {
                let core = *fcore && *tcore && !pre_restart;
                if !(all || core || r.chance(1, 8)) {
                    continue;
                }
                let mut ops = base.clone();
                if pre_restart {
                    ops.push(Op::Restart); // the store object is fresh but alive when the fault hits
                }
                ops.extend(fs.clone());
                ops.extend(tail.clone());
                let nmsg = ops.iter().filter(|o| matches!(o, Op::Msg { .. })).count() as u64;
                out.push(Case { ops, queries: fixed_queries(nmsg), long: false });
            }
        }
    }
    out
}
/// A derived file is missing AND the file it is rebuilt from is damaged somewhere before its last record (tail probes
/// succeed, a front-to-back rebuild fails): "the rebuild failed" must not be read as "nothing is cached".
fn rebuild_source_cases(r: &mut Rng, all: bool) -> Vec<Case> {
    use FaultKind::*;
    use Target::*;
    // 6 messages, cumulative checkpoints at ordinals 4 and 6 (stride 2: cuts at 6, 4, 2)
    let base = vec![
        Op::Msg { size: 5 }, Op::Msg { size: 5 }, Op::Cursor { key: 100 }, Op::Msg { size: 5 }, Op::Msg { size: 5 }, Op::Checkpoint { msg: 3 },
        Op::Msg { size: 5 }, Op::RunSpawned { msg: 4 }, Op::RunEnded { msg: 0 }, Op::Msg { size: 5 }, Op::Checkpoint { msg: 5 },
    ];
    // (source, files derived from it)
    let pairs: Vec<(bool, Target, Vec<Target>)> = vec![
        (true, Full, vec![Comp]),
        (true, Full, vec![Comp, CompIdx]),
        (false, Full, vec![Mr, MrSeek, MrMsgIdx, Ord]),
        (false, Full, vec![Mr]),
        (false, Full, vec![Seek, MsgIdx]),
        (false, Full, vec![Comp, CompIdx, Mr, MrSeek, MrMsgIdx, Ord]),
        (false, Comp, vec![CompIdx]),
        (false, Mr, vec![MrMsgIdx]),
        (false, Mr, vec![Ord]),
        (false, Mr, vec![MrSeek, MrMsgIdx, Ord]),
    ];
    let damages = [GarbageLine(2), GarbageLine(1), GarbageLine(7), GarbageLine(100), GarbageLine(0), TruncMidLine];
    let tails: [Vec<Op>; 3] = [vec![], vec![Op::Restart], vec![Op::Cursor { key: 200 }]];
    let mut out = vec![];
    for (pcore, src, derived) in &pairs {
        for (di, d) in damages.iter().enumerate() {
            for (ti, tail) in tails.iter().enumerate() {
                let core = *pcore && di < 3 && ti == 0;
                if !(all || core || r.chance(1, 6)) {
                    continue;
                }
                let mut ops = base.clone();
                ops.push(fault(*src, *d));
                for t in derived {
                    ops.push(fault(*t, Delete));
                }
                ops.extend(tail.clone());
                out.push(Case { ops, queries: fixed_queries(6), long: false });
            }
        }
    }
    out
}
/// Compile anchors swept over EVERY message of threads whose messages+runs sidecar is 1.2x - 4x a doubling window of
/// the tail scan (256 KiB, 512 KiB, .. 8 MiB), built from a few dozen large messages: an incomplete tail window may
/// be handed to the compiler only when it provably holds the 16 messages at or below the cut.  No cache fault.
fn anchor_sweep_cases(thorough: bool) -> Vec<Case> {
    // (messages, bytes per message, every k-th message gets a finished run, checkpoint after message c)
    let mut shapes: Vec<(u64, u64, u64, u64)> = vec![
        (40, 20_000, 1, 7),  // ~800 KiB: 3.1 x 256 KiB, 1.6 x 512 KiB (the seed's shape)
        (36, 9_000, 3, 30),  // ~330 KiB: 1.3 x 256 KiB; > 16 messages inside the first window
        (44, 30_000, 2, 3),  // ~1.3 MiB: 2.6 x 512 KiB, 1.3 x 1 MiB
    ];
    if thorough {
        shapes.push((48, 60_000, 2, 20)); // ~2.8 MiB: 2.8 x 1 MiB, 1.4 x 2 MiB
        shapes.push((40, 150_000, 4, 5)); // ~5.9 MiB: 2.9 x 2 MiB, 1.5 x 4 MiB
        shapes.push((36, 330_000, 5, 11)); // ~11.6 MiB: 2.9 x 4 MiB, 1.45 x 8 MiB
        shapes.push((30, 1_100_000, 7, 2)); // ~32 MiB: 4 x 8 MiB (beyond the last window: window / replay producers)
    }
    let mut out = vec![];
    for (n, size, run_every, ckpt_after) in shapes {
        let mut ops = vec![];
        for i in 0..n {
            ops.push(Op::Msg { size });
            if i % run_every == 0 {
                ops.push(Op::RunSpawned { msg: i });
                ops.push(Op::RunEnded { msg: u64::MAX }); // see build(): the newest run
            }
            if i == ckpt_after {
                ops.push(Op::Checkpoint { msg: i / 2 });
            }
            if i % 5 == 4 {
                ops.push(Op::SideFx);
            }
        }
        let mut queries: Vec<Q> = (0..n).map(|i| Q::Compile { msg: i }).collect();
        queries.push(Q::CutPoints { stride: 4, limit: 8 });
        queries.push(Q::CompactionStatus { stride: 4 });
        out.push(Case { ops: ops.clone(), queries: queries.clone(), long: true });
        // the same sweep with the tail producer out of the way, so that the other producers answer every anchor:
        // unreadable last mr line (mr tail and mr window fail: full-sidecar window), a bad line 25 lines back (small
        // windows answer, larger ones fail), no full sidecar (no head: the newest anchor cannot be cut from the mr
        // tail), no mr family (built from the full sidecar by the read), no message-id indexes (rebuilt by the read)
        use FaultKind::*;
        use Target::*;
        let variants: Vec<Vec<Op>> = vec![
            vec![fault(Mr, GarbageLine(0))],
            vec![fault(Full, Delete)],
            vec![fault(Mr, Delete), fault(MrSeek, Delete), fault(MrMsgIdx, Delete), fault(Ord, Delete)],
            vec![fault(Mr, GarbageLine(25))],
            vec![fault(MrMsgIdx, Delete), fault(MsgIdx, Delete), fault(Seek, Delete), fault(MrSeek, Delete)],
            vec![fault(Mr, GarbageLine(0)), fault(Full, GarbageLine(0))],
        ];
        let nvar = if thorough { if size <= 60_000 { variants.len() } else { 2 } } else if out.len() == 1 { 3 } else { 0 };
        for v in variants.into_iter().take(nvar) {
            let mut o = ops.clone();
            o.extend(v);
            out.push(Case { ops: o, queries: queries.clone(), long: true });
        }
    }
    out
}

/// A thread of thousands of SMALL messages: ordinals in the thousands (ordinal index offsets, cut points far from the tail),
/// hundreds of messages inside every tail window, a full sidecar many seek-index strides long.  Compile anchors: a coarse
/// stride over the whole thread plus every message around the places where the doubling windows of the mr tail scan begin.
fn dense_cases(thorough: bool) -> Vec<Case> {
    use FaultKind::*;
    use Target::*;
    let n: u64 = 3000;
    let mut ops = vec![];
    for i in 0..n {
        ops.push(Op::Msg { size: 20 });
        if i % 50 == 7 {
            ops.push(Op::RunSpawned { msg: i });
            ops.push(Op::RunEnded { msg: u64::MAX });
        }
        if i == 700 || i == 2100 {
            ops.push(Op::Checkpoint { msg: i - 100 });
        }
    }
    // an mr line of such a message is ~330 bytes: window k (256 KiB << k) begins ~ (256 KiB << k) / 330 messages before the end
    let queries_for = |step: usize, around: u64| {
        let mut anchors: Vec<u64> = (0..n).step_by(step).collect();
        for k in 0..4u64 {
            let back = ((256u64 << 10) << k) / 330;
            if back + 30 < n && around > 0 {
                let centre = n - back;
                anchors.extend(centre.saturating_sub(around)..(centre + around).min(n));
            }
        }
        anchors.extend([0, 1, 15, 16, 17, n - 17, n - 16, n - 2, n - 1]);
        anchors.sort();
        anchors.dedup();
        let mut queries: Vec<Q> = anchors.iter().map(|i| Q::Compile { msg: *i }).collect();
        queries.extend([Q::CutPoints { stride: 7, limit: 32 }, Q::CutPoints { stride: 1000, limit: 8 }, Q::CompactionStatus { stride: 64 }, Q::Replay, Q::BranchCut { sel: Sel::Msg(1500) }, Q::HandoffCut { sel: Sel::Seq(4000) }]);
        queries
    };
    let variants: Vec<Vec<Op>> = vec![
        vec![],
        vec![fault(Mr, GarbageLine(0))],                                        // every anchor through the full-sidecar window (message-id + seek index)
        vec![fault(MsgIdx, Delete), fault(Seek, Delete), fault(Mr, TruncMidLine)], // ... with those indexes rebuilt by the read
        vec![fault(Ord, Delete)],                                               // cut points without the ordinal index
    ];
    let take = if thorough { variants.len() } else { 2 };
    variants
        .into_iter()
        .take(take)
        .enumerate()
        .map(|(i, v)| {
            let mut o = ops.clone();
            o.extend(v);
            // quick: the window boundaries on the intact thread, a coarse stride on the faulted one
            let queries = if thorough { queries_for(41, 25) } else if i == 0 { queries_for(149, 10) } else { queries_for(173, 0) };
            Case { ops: o, queries, long: true }
        })
        .collect()
}

/// EVERY INDEX-ASSISTED READ AT EVERY POSITION RELATIVE TO THE INDEX'S STRIDE.
/// The per-thread seek index holds one (seq, offset) entry per SEEK_STRIDE frames of the full sidecar; the full-sidecar
/// window read (the compile input's producer when the messages+runs sidecar cannot be used) starts from "the greatest
/// entry with seq <= target" twice (the cut's boundary, the window's first frame).  The message-id indexes are open-addressing
/// tables that grow by doubling, the ordinal index is a flat record file, the checkpoint index a line per checkpoint.
/// Threads of k x stride + a few frames (k = 1, 2, 3, ..; also exactly k x stride and k x stride + 1), every derived file
/// knocked out in turn while the full sidecar and its seek index stay intact, and the queries anchored at every offset
/// class relative to the stride: entry - 1, entry, entry + 1, .. entry + 20 (so that the window's first frame crosses the
/// entry as well), mid-stride, around the last entry, the tail.  A sweep, not a sample; no randomness but the "+ a few".
/// The base thread is built once per length (base cache), every variant is a copy of that store.
const SEEK_STRIDE_DEFAULT: u64 = 256; // continuity_seek_index.rs SEEK_INDEX_STRIDE_EVENTS_V1 as of /repo fb2d1ab
static SEEK_STRIDE_SEEN: std::sync::atomic::AtomicU64 = std::sync::atomic::AtomicU64::new(0);
/// The stride the CURRENT source writes, read from the first entry of a one-message store's seek index (every entry carries it):
/// a different stride in /repo is not a violation, the sweep simply follows it.
fn seek_stride() -> u64 {
    use std::sync::atomic::Ordering::Relaxed;
    let seen = SEEK_STRIDE_SEEN.load(Relaxed);
    if seen != 0 {
        return seen;
    }
    let b = build_uncached(&Case { ops: vec![Op::Msg { size: 5 }], queries: vec![], long: true });
    let stride = std::fs::read(target_path(b.scratch.path(), &b.id, Target::Seek))
        .ok()
        .and_then(|raw| raw.split(|c| *c == b'\n').next().and_then(|l| serde_json::from_slice::<Value>(l).ok()))
        .and_then(|v| v.get("stride").and_then(|x| x.as_u64()))
        .filter(|s| *s >= 2 && *s <= 4096)
        .unwrap_or(SEEK_STRIDE_DEFAULT);
    SEEK_STRIDE_SEEN.store(stride, Relaxed);
    stride
}
fn stride_thread(total_frames: u64) -> Vec<Op> {
    let mut ops = vec![];
    let mut frames = 1u64; // continuity_created
    let mut i = 0u64;
    let mut runs = 0u64;
    while frames < total_frames {
        ops.push(Op::Msg { size: 20 });
        frames += 1;
        let extra = |ops: &mut Vec<Op>, o: Vec<Op>, frames: &mut u64| {
            if *frames + o.len() as u64 <= total_frames {
                *frames += o.len() as u64;
                ops.extend(o);
            }
        };
        if i % 37 == 5 {
            runs += 1;
            extra(&mut ops, vec![Op::RunSpawned { msg: i }, Op::RunEnded { msg: u64::MAX }], &mut frames);
        }
        if i % 101 == 60 {
            extra(&mut ops, vec![Op::Selection], &mut frames);
        }
        if i == 3 || i % 200 == 150 {
            extra(&mut ops, vec![Op::Cursor { key: 100 + (i % 3) * 100 }], &mut frames);
        }
        if i % 120 == 100 {
            extra(&mut ops, vec![Op::Checkpoint { msg: i - 10 }], &mut frames);
        }
        if i % 53 == 20 {
            extra(&mut ops, vec![Op::SideFx], &mut frames);
        }
        i += 1;
    }
    let _ = runs;
    ops
}
/// The seek index of an intact store against the full sidecar it indexes: one entry per frame whose seq is a multiple of the
/// stride, at that frame's line start, nothing else (Model/SeekIndex.v `seek_index`, in bytes).  None = conforms.
fn seek_index_conforms(root: &Path, id: &str) -> Option<String> {
    let full = std::fs::read(target_path(root, id, Target::Full)).ok()?;
    let mut want: Vec<(u64, u64)> = vec![];
    let mut off = 0u64;
    for line in full.split_inclusive(|c| *c == b'\n') {
        let seq = serde_json::from_slice::<Value>(line).ok().and_then(|v| v.get("seq").and_then(|x| x.as_u64()));
        match seq {
            Some(s) if s % seek_stride() == 0 => want.push((s, off)),
            Some(_) => {}
            None => return Some(format!("full sidecar line at byte {off} does not parse")),
        }
        off += line.len() as u64;
    }
    let raw = match std::fs::read(target_path(root, id, Target::Seek)) {
        Ok(r) => r,
        Err(_) => return Some("no seek index next to an intact full sidecar after appends".into()),
    };
    let mut got: Vec<(u64, u64)> = vec![];
    for line in raw.split(|c| *c == b'\n').filter(|l| !l.is_empty()) {
        let v: Value = match serde_json::from_slice(line) {
            Ok(v) => v,
            Err(_) => return Some("seek index line does not parse".into()),
        };
        if v.get("stride").and_then(|x| x.as_u64()) != Some(seek_stride()) {
            return Some(format!("seek index entry carries stride {:?}, the other entries carry {}", v.get("stride"), seek_stride()));
        }
        got.push((v.get("seq").and_then(|x| x.as_u64()).unwrap_or(u64::MAX), v.get("offset").and_then(|x| x.as_u64()).unwrap_or(u64::MAX)));
    }
    if got != want {
        return Some(format!("seek index entries (seq, offset) {:?} != one per {} frames at the frame's line start {:?}", got, seek_stride(), want));
    }
    None
}
static STRIDE_INDEX_FINDINGS: std::sync::Mutex<Vec<(Vec<Op>, String)>> = std::sync::Mutex::new(Vec::new());
fn stride_cases(thorough: bool, seed: u64) -> (Vec<Case>, Vec<u64>) {
    use FaultKind::*;
    use Target::*;
    let few = 2 + seed % 41; // "+ a few": 2..42 frames past the last entry
    // quick: ONE thread (3 strides + a few: four seek entries); thorough: 1x, 2x, 3x, 5x + a few, and the lengths at which
    // the last frame IS an entry / the frame just behind one / the frame just in front of one
    let lengths: Vec<u64> = if thorough {
        vec![3 * seek_stride() + few + 1, seek_stride() + few + 1, 2 * seek_stride() + few + 1, 5 * seek_stride() + few + 1, 2 * seek_stride() + 1, 2 * seek_stride() + 2, 2 * seek_stride(), 4 * seek_stride() + 130]
    } else {
        vec![3 * seek_stride() + few + 1]
    };
    let mut out = vec![];
    let mut keys = vec![];
    for (li, total) in lengths.iter().enumerate() {
        let ops = stride_thread(*total);
        if ops.len() < BASE_CACHE_MIN_OPS && *total > BASE_CACHE_MIN_OPS as u64 {
            continue;
        }
        // the seqs of the thread's messages, read from the log of the base store (built here, reused by every variant)
        let probe = Case { ops: ops.clone(), queries: vec![], long: true };
        if let Some((_, k)) = base_split(&probe) {
            keys.push(k);
        }
        let b = build(&probe);
        let abs = abstract_truth(b.scratch.path(), &b.id);
        if let Some(what) = seek_index_conforms(b.scratch.path(), &b.id) {
            STRIDE_INDEX_FINDINGS.lock().unwrap().push((ops.clone(), what));
        }
        let mseq: Vec<u64> = b.messages.iter().filter_map(|m| abs.seq_of_event.get(m).copied()).collect();
        if mseq.len() != b.messages.len() || mseq.is_empty() {
            continue;
        }
        let n = mseq.len() as u64;
        let last_seq = abs.truth.last().map(|e| e.seq).unwrap_or(0);
        let entries: Vec<u64> = (1..=last_seq / seek_stride()).map(|k| k * seek_stride()).collect();
        let idx_in = |lo: u64, hi: u64| -> Vec<u64> { mseq.iter().enumerate().filter(|(_, s)| **s >= lo && **s <= hi).map(|(i, _)| i as u64).collect() };
        // full sweep: every message from 3 frames in front of an entry to 20 behind it, the middle of every stride, the first
        // messages, the tail; thin sweep: entry - 1, entry, entry + 1 (nearest messages), mid-stride, the tail
        let mut full: Vec<u64> = vec![];
        let mut thin: Vec<u64> = vec![];
        let (before, behind) = if thorough { (20, 40) } else { (3, 20) };
        for e in &entries {
            full.extend(idx_in(e.saturating_sub(before), e + behind));
            thin.extend(idx_in(e.saturating_sub(2), e + 2));
            thin.extend(idx_in(e + 17, e + 18)); // the window's first frame just behind the entry
        }
        for k in 0..=last_seq / seek_stride() {
            let mid = k * seek_stride() + seek_stride() / 2;
            full.extend(idx_in(mid, mid + 2));
            thin.extend(idx_in(mid, mid + 1));
        }
        full.extend([0, 1, 15, 16, 17].iter().filter(|i| **i < n));
        full.extend(n.saturating_sub(19)..n);
        thin.extend([0, 16].iter().filter(|i| **i < n));
        thin.extend([n.saturating_sub(17), n.saturating_sub(2), n - 1]);
        for v in [&mut full, &mut thin] {
            v.sort();
            v.dedup();
        }
        // the other index-assisted reads: cut points at ordinals on both sides of the stride (ordinal index + message-id index),
        // compaction status, selection status, cursor status, replay, cut resolution by seq / by message id at the last entry
        let le = entries.last().copied().unwrap_or(0);
        let at = |s: u64| idx_in(s, s + 3).first().copied().unwrap_or(0);
        let mut other = vec![
            Q::CutPoints { stride: seek_stride() - 1, limit: 8 }, Q::CutPoints { stride: seek_stride(), limit: 8 }, Q::CutPoints { stride: seek_stride() + 1, limit: 8 }, Q::CutPoints { stride: 64, limit: 32 }, Q::CutPoints { stride: 1, limit: 8 },
            Q::CompactionStatus { stride: 64 }, Q::CompactionStatus { stride: seek_stride() },
            Q::Selection { limit: 1 }, Q::Selection { limit: 10 }, Q::Selection { limit: 50 }, Q::CursorStatus, Q::Replay,
        ];
        if le > 0 {
            other.extend([
                Q::BranchCut { sel: Sel::Seq(le - 1) }, Q::BranchCut { sel: Sel::Seq(le) }, Q::HandoffCut { sel: Sel::Seq(le + 1) }, Q::BranchCut { sel: Sel::Msg(at(le)) }, Q::HandoffCut { sel: Sel::Msg(at(le.saturating_sub(seek_stride() / 2))) },
            ]);
        }
        let mid_line = n / 2;
        // (faults, full anchor sweep?)  The full sidecar and its seek index are never touched.
        let mut variants: Vec<(Vec<Op>, bool)> = vec![
            (vec![], false),
            (vec![fault(Mr, Garbage)], true),                        // every anchor through the full-sidecar window: message-id index + seek index
            (vec![fault(Mr, Garbage), fault(MsgIdx, Delete)], true), // ... the message-id index rebuilt by the read
            (vec![fault(Mr, Delete), fault(MrSeek, Delete), fault(MrMsgIdx, Delete), fault(Ord, Delete)], false), // mr family lost: built from the full sidecar by the read
            (vec![fault(MrMsgIdx, Delete), fault(MrSeek, Delete)], false),
            (vec![fault(Mr, GarbageLine(mid_line))], false), // a damaged line in the middle: anchors behind it leave the mr window
            (vec![fault(Ord, Delete)], false),
            (vec![fault(Ord, Garbage)], false),
            (vec![fault(Comp, Delete)], false),
            (vec![fault(CompIdx, Delete)], false),
            (vec![fault(CompIdx, Garbage), fault(Mr, Garbage)], false),
        ];
        if thorough {
            variants.extend([
                (vec![fault(Mr, Garbage), fault(MsgIdx, Garbage)], true),
                (vec![fault(Mr, Garbage), fault(MrMsgIdx, Garbage), fault(MrSeek, Garbage), fault(Ord, Garbage)], true),
                (vec![fault(Mr, TruncMidLine)], true),
                (vec![fault(MrMsgIdx, Garbage)], true),
                (vec![fault(MsgIdx, Delete)], false),
                (vec![fault(Comp, Garbage)], true),
                (vec![fault(Comp, Garbage), fault(Mr, Garbage)], true),
                (vec![fault(Comp, Delete), fault(CompIdx, Delete), fault(Mr, Garbage), fault(Ord, Delete)], true),
                (vec![fault(Mr, GarbageLine(mid_line / 2))], true),
            ]);
        }
        for (vi, (faults, sweep)) in variants.into_iter().enumerate() {
            let anchors = if sweep || (thorough && li == 0) { &full } else { &thin };
            let mut queries: Vec<Q> = anchors.iter().map(|i| Q::Compile { msg: *i }).collect();
            // the non-compile queries: on every variant that touches a file they read, and on the intact store
            if vi == 0 || faults.iter().any(|f| matches!(f, Op::Fault { target: Ord | Comp | CompIdx | MrMsgIdx | MsgIdx, .. })) || faults.len() == 1 {
                queries.extend(other.clone());
            }
            let mut o = ops.clone();
            o.extend(faults);
            out.push(Case { ops: o, queries, long: true });
        }
    }
    (out, keys)
}

fn corpus_cases() -> Vec<Case> {
    let mut v = vec![];
    // S4: checkpoint sidecar re-created by append after delete
    v.push(Case {
        ops: vec![
            Op::Msg { size: 5 }, Op::Msg { size: 5 }, Op::Msg { size: 5 }, Op::Msg { size: 5 }, Op::Msg { size: 5 }, Op::Msg { size: 5 },
            Op::Checkpoint { msg: 1 }, Op::Checkpoint { msg: 3 },
            Op::Fault { target: Target::Comp, kind: FaultKind::Delete }, Op::Fault { target: Target::CompIdx, kind: FaultKind::Delete },
            Op::Checkpoint { msg: 5 },
        ],
        queries: vec![Q::CutPoints { stride: 2, limit: 4 }, Q::CompactionStatus { stride: 2 }],
        long: false,
    });
    // S3: stale well-formed prefix of the full sidecar
    v.push(Case {
        ops: vec![Op::Msg { size: 5 }, Op::Cursor { key: 100 }, Op::Msg { size: 5 }, Op::Selection, Op::Fault { target: Target::Full, kind: FaultKind::TruncLines(1) }],
        queries: vec![Q::Replay, Q::Selection { limit: 10 }, Q::CursorStatus, Q::BranchCut { sel: Sel::Head }],
        long: false,
    });
    // full sidecar truncated to zero bytes
    v.push(Case {
        ops: vec![Op::Msg { size: 5 }, Op::Cursor { key: 100 }, Op::Selection, Op::Fault { target: Target::Full, kind: FaultKind::TruncLines(1000) }],
        queries: vec![Q::Replay, Q::CursorStatus, Q::Selection { limit: 10 }, Q::Rotate { p: None, e: None, m: None }, Q::CompactionStatus { stride: 1 }],
        long: false,
    });
    // ordinal index re-created by append after delete
    v.push(Case {
        ops: vec![Op::Msg { size: 5 }, Op::Msg { size: 5 }, Op::Msg { size: 5 }, Op::Fault { target: Target::Ord, kind: FaultKind::Delete }, Op::Msg { size: 5 }],
        queries: vec![Q::CutPoints { stride: 1, limit: 4 }],
        long: false,
    });
    // full sidecar lost, then re-created by later appends: a well-formed suffix of the stream (fixed: scan_tail)
    v.push(Case {
        ops: vec![Op::Msg { size: 5 }, Op::Cursor { key: 100 }, Op::Selection, Op::Fault { target: Target::Full, kind: FaultKind::Delete }, Op::Msg { size: 5 }, Op::SideFx],
        queries: vec![Q::CursorStatus, Q::Selection { limit: 10 }, Q::Rotate { p: None, e: None, m: None }, Q::CompactionStatus { stride: 1 }, Q::Replay],
        long: false,
    });
    // S2 without any fault: two decisions inside the first 256 KiB window, more than 256 KiB before them
    v.push(Case {
        ops: vec![Op::Msg { size: 70_000 }, Op::Msg { size: 140_000 }, Op::Msg { size: 70_000 }, Op::Selection, Op::Msg { size: 200 }, Op::Selection],
        queries: vec![Q::Selection { limit: 3 }, Q::Selection { limit: 10 }],
        long: false,
    });
    // checkpoint sidecar truncated to zero bytes
    v.push(Case {
        ops: vec![Op::Msg { size: 5 }, Op::Msg { size: 5 }, Op::Checkpoint { msg: 1 }, Op::Fault { target: Target::Comp, kind: FaultKind::TruncLines(1000) }],
        queries: vec![Q::CutPoints { stride: 2, limit: 4 }, Q::CompactionStatus { stride: 2 }],
        long: false,
    });
    // C04-F3 (fixed): ordinal index that lost a record in the middle and its newest records: the count is rejected, the
    // look-ups must not use it either
    v.push(Case {
        ops: vec![
            Op::Msg { size: 5 }, Op::Msg { size: 5 }, Op::Fault { target: Target::Ord, kind: FaultKind::TruncLines(1) }, Op::Msg { size: 5 }, Op::Msg { size: 5 },
            Op::Msg { size: 5 }, Op::Cursor { key: 100 }, Op::Selection, Op::SideFx, Op::Fault { target: Target::Ord, kind: FaultKind::Rollback(4) },
        ],
        queries: vec![Q::CutPoints { stride: 3, limit: 32 }, Q::CompactionStatus { stride: 3 }, Q::CutPoints { stride: 1, limit: 32 }],
        long: false,
    });
    // inflight job, full sidecar deleted while the derived caches stay
    v.push(Case {
        ops: vec![Op::Msg { size: 5 }, Op::Msg { size: 5 }, Op::Schedule { stride: 1, max_new: 1, execute: false }, Op::Fault { target: Target::Full, kind: FaultKind::Delete }],
        queries: vec![Q::CompactionStatus { stride: 5 }, Q::CompactionStatus { stride: 1 }],
        long: false,
    });
    v
}

// ---------------------------------------------------------------- default-thread recovery (index.json)
/// `child`: 0 = none, 1 = a branch child, 2 = a handoff child, 3 = both (created after the default thread, same workspace key)
fn default_recovery_check(res: &mut RunResult, child: u8, case_id: i64) -> String {
    let with_child = child != 0;
    let scratch = Scratch::new("c04d");
    let root = scratch.path().to_path_buf();
    let o = open(&root);
    let id = o.store.ensure_default().unwrap();
    o.store.append_message(&id, "user".into(), "cli".into(), "hello".into()).unwrap();
    let mut children = vec![];
    if child & 1 != 0 {
        std::thread::sleep(Duration::from_millis(3));
        let (c, _, _) = o.store.branch(&id, None, None, None, "user".into(), "cli".into()).unwrap();
        children.push(c);
    }
    if child & 2 != 0 {
        std::thread::sleep(Duration::from_millis(3));
        let (c, _, _) = o.store.handoff(&id, None, (Some("sum".into()), None), None, None, ("user".into(), "cli".into())).unwrap();
        children.push(c);
    }
    let existing: Vec<String> = o.store.list().into_iter().map(|m| m.continuity_id).collect();
    drop(o);
    std::fs::remove_file(root.join("data").join("continuities").join("index.json")).unwrap();
    let o = open(&root);
    let got = o.store.ensure_default();
    res.oracle_checks += 1;
    // for the model (Model/Cache.v recover_default): the continuity_created frames of the log, threads numbered by first appearance
    let mut ids: Vec<String> = vec![];
    let mut created: Vec<String> = vec![];
    let mut wss: Vec<String> = vec![];
    let raw = std::fs::read(root.join("data").join("events.jsonl")).unwrap_or_default();
    let mut my_ws = 0usize;
    let mut child_ids: Vec<String> = vec![]; // threads whose stream carries a branched / handoff frame
    for line in raw.split_inclusive(|b| *b == b'\n') {
        let Ok(ev) = serde_json::from_slice::<Event>(line) else { continue };
        if matches!(ev.kind, EventKind::ContinuityBranched { .. } | EventKind::ContinuityHandoffCreated { .. }) && !child_ids.contains(&ev.session_id) {
            child_ids.push(ev.session_id.clone());
        }
        if let EventKind::ContinuityCreated { workspace, .. } = &ev.kind {
            if !ids.contains(&ev.session_id) {
                ids.push(ev.session_id.clone());
            }
            if !wss.contains(workspace) {
                wss.push(workspace.clone());
            }
            let w = wss.iter().position(|x| x == workspace).unwrap() + 1;
            if ev.session_id == id {
                my_ws = w;
            }
            created.push(format!("({}, {}, {})", ev.timestamp_ms, ids.iter().position(|x| *x == ev.session_id).unwrap() + 1, w));
        }
    }
    let got_term = match &got {
        Ok(g) => match ids.iter().position(|x| x == g) { Some(i) => format!("(Some {})", i + 1), None => "(Some 999999)".to_string() },
        Err(_) => "None".to_string(),
    };
    let child_terms: Vec<u64> = child_ids.iter().filter_map(|c| ids.iter().position(|x| x == c)).map(|i| i as u64 + 1).collect();
    let term = format!("(Some ({}, [{}], {}, {}))", my_ws, created.join("; "), coq_list_n(&child_terms), got_term);
    match got {
        Ok(g) if g == id => {}
        Ok(g) if existing.contains(&g) => {
            // an existing thread of the workspace, but not the one that was the default
            res.oracle_violations.push(OracleViolation {
                case_id,
                what: format!("after loss of index.json ensure_default returned thread {g} (a {} child), the default thread before the loss was {id}", if children.contains(&g) { "branch" } else { "non-default" }),
                class: "default_recovery_returns_child_thread".into(),
                replay: json!({"scenario": "default thread; one message; branch; delete continuities/index.json; reopen; ensure_default"}),
            });
        }
        Ok(g) => res.oracle_violations.push(OracleViolation { case_id, what: format!("ensure_default created/returned unknown thread {g} after loss of index.json"), class: "default_recovery_creates_thread".into(), replay: json!({"with_child": with_child}) }),
        Err(e) => res.oracle_violations.push(OracleViolation { case_id, what: format!("ensure_default failed after loss of index.json: {e}"), class: "default_recovery_fails".into(), replay: json!({"with_child": with_child}) }),
    }
    term
}

// ---------------------------------------------------------------- one case
struct Outcome {
    results: Vec<(Q, Ans, Ans)>, // (query, fast, truth)
    again: Vec<Option<Ans>>,     // the same question asked a second time of the store the first call left behind (read-only queries)
    read_writer_violations: Vec<(usize, Target, String)>, // (query index, file, what): a READ moved a cache file outside the reference write semantics
    abs: Abs,
    full: Option<Vec<(bool, u64)>>,
    comp: Option<Vec<(bool, u64)>>,
    mr: Option<Vec<(bool, u64)>>,
    mr_lens: Option<Vec<u64>>, // byte length of every line of the mr sidecar as found
    comp_lens: Option<Vec<u64>>,
    idx: Option<Vec<(bool, u64)>>, // comp.idx by line: (entry of a truth checkpoint frame, its seq) / (false, _)
    ord_term: String, // Model/Cache.v `ofile` of the ordinal index at query time
    coh: Coherence,
    messages: Vec<String>,
    op_errors: u64,
    writer_checks: u64,
    writer_violations: Vec<(usize, Target, String)>,
    ord_steps: Vec<String>,
    prov: Prov,
}
fn run_case(case: &Case) -> Outcome {
    let b = build(case);
    let root = b.scratch.path().to_path_buf();
    let abs = abstract_truth(&root, &b.id);
    let full = abstract_full(&root, &b.id, &abs);
    let comp = abstract_jsonl(&root, &b.id, &abs, Target::Comp);
    let mr = abstract_jsonl(&root, &b.id, &abs, Target::Mr);
    let mr_lens = std::fs::read(target_path(&root, &b.id, Target::Mr)).ok().map(|raw| raw.split_inclusive(|c| *c == b'\n').map(|l| l.len() as u64).collect::<Vec<_>>());
    let comp_lens = std::fs::read(target_path(&root, &b.id, Target::Comp)).ok().map(|raw| raw.split_inclusive(|c| *c == b'\n').map(|l| l.len() as u64).collect::<Vec<_>>());
    let idx = std::fs::read(target_path(&root, &b.id, Target::CompIdx)).ok().map(|raw| {
        raw.split_inclusive(|c| *c == b'\n')
            .map(|line| {
                let good = serde_json::from_slice::<Value>(line).ok().filter(|_| line.ends_with(b"\n")).and_then(|v| {
                    let seq = v.get("seq")?.as_u64()?;
                    let ck = v.get("checkpoint_id")?.as_str()?.to_string();
                    if v.get("version")?.as_u64()? != 1 {
                        return None;
                    }
                    // an entry written from the truth checkpoint frame of that seq (faults never fabricate entries)
                    match abs.truth.get(seq as usize).map(|e| &e.kind) {
                        Some(EventKind::ContinuityCompactionCheckpointCreated { checkpoint_id, to_seq, .. }) if *checkpoint_id == ck && v.get("to_seq").and_then(|x| x.as_u64()) == Some(*to_seq) => Some(seq),
                        _ => None,
                    }
                });
                match good {
                    Some(s) => (true, s),
                    None => (false, line.len() as u64),
                }
            })
            .collect::<Vec<_>>()
    });
    let ord_term = coq_ofile(&std::fs::read(target_path(&root, &b.id, Target::Ord)).ok(), &truth_lines(&root, &b.id));
    let coh = coherence(&root, &b.id, &abs);
    let secs = if case.long { 120 } else { 90 };
    let mut hung = false;
    let fast_root = root.join("copy-fast");
    let truth_root = root.join("copy-truth");
    let mut results = vec![];
    let mut again: Vec<Option<Ans>> = vec![];
    let mut read_writer_violations: Vec<(usize, Target, String)> = vec![];
    let truth_ls = if case.long { vec![] } else { truth_lines(&root, &b.id) };
    let truth_ok = truth_ls.iter().enumerate().all(|(i, (e, _))| e.seq == i as u64);
    let base_key = base_split(case).map(|(_, k)| k);
    for (qi, q) in case.queries.iter().enumerate() {
        if hung {
            break; // one hang per case is reported; the leaked thread keeps a core busy
        }
        let memo_key = base_key.map(|k| (k, serde_json::to_string(q).unwrap()));
        let memo_hit = memo_key.as_ref().and_then(|k| TRUTH_MEMO.lock().unwrap().get_or_insert_with(HashMap::new).get(k).cloned());
        let roots: Vec<&PathBuf> = if memo_hit.is_some() { vec![&fast_root] } else { vec![&fast_root, &truth_root] };
        for r in roots {
            let _ = std::fs::remove_dir_all(r);
            std::fs::create_dir_all(r.join("data")).unwrap();
            std::fs::copy(root.join("data").join("events.jsonl"), r.join("data").join("events.jsonl")).unwrap();
            if root.join("data").join("continuities").exists() {
                copy_dir(&root.join("data").join("continuities"), &r.join("data").join("continuities"));
            }
            if root.join("workspace").exists() {
                copy_dir(&root.join("workspace"), &r.join("workspace"));
            }
        }
        if streams_dir(&root).exists() {
            copy_dir(&streams_dir(&root), &streams_dir(&fast_root));
        }
        let read_only = !matches!(q, Q::Rotate { .. } | Q::BranchCut { .. } | Q::HandoffCut { .. });
        let before = if !case.long && read_only { Some(file_versions(&fast_root, &b.id)) } else { None };
        let fast = with_watchdog(secs, fast_root.clone(), b.id.clone(), b.messages.clone(), q.clone());
        // a read may (re)build cache files: whatever it writes must be what the reference writers write, and the same
        // question asked again of the store it left behind must get the same answer
        let mut second = None;
        if let (Some(before), true, true) = (&before, truth_ok, !matches!(fast, Ans::Hang | Ans::Panic)) {
            let after = file_versions(&fast_root, &b.id);
            for t in CONFORM_TARGETS {
                let unread = |m: &BTreeMap<Target, Option<Vec<u8>>>| m[&t].is_none() && target_path(&fast_root, &b.id, t).exists();
                if unread(&after) {
                    continue;
                }
                if let Some(what) = writer_conforms(t, &b.id, &before[&t], &after[&t], &truth_ls, &after[&Target::Full], &after[&Target::Comp]) {
                    read_writer_violations.push((qi, t, what));
                }
            }
            second = Some(with_watchdog(secs, fast_root.clone(), b.id.clone(), b.messages.clone(), q.clone()));
        }
        again.push(second);
        let truth = if fast == Ans::Hang {
            Ans::Err("not evaluated (fast path hung)".into())
        } else if let Some(t) = memo_hit {
            t
        } else {
            let t = with_watchdog(secs, truth_root.clone(), b.id.clone(), b.messages.clone(), q.clone());
            if let (Some(k), false) = (memo_key, matches!(t, Ans::Hang | Ans::Panic)) {
                TRUTH_MEMO.lock().unwrap().get_or_insert_with(HashMap::new).insert(k, t.clone());
            }
            t
        };
        hung = fast == Ans::Hang || truth == Ans::Hang;
        results.push((q.clone(), fast, truth));
    }
    Outcome { results, again, read_writer_violations, abs, full, comp, mr, mr_lens, comp_lens, idx, ord_term, coh, messages: b.messages.clone(), op_errors: b.op_errors, writer_checks: b.writer_checks, writer_violations: b.writer_violations.clone(), ord_steps: b.ord_steps.clone(), prov: b.prov.clone() }
}

fn case_json(c: &Case) -> Value {
    if c.long {
        // long histories are regular: store them run-length encoded
        let mut runs: Vec<(String, u64)> = vec![];
        for op in &c.ops {
            let s = serde_json::to_string(op).unwrap();
            match runs.last_mut() {
                Some((l, n)) if *l == s => *n += 1,
                _ => runs.push((s, 1)),
            }
        }
        json!({"long": true, "ops_rle": runs.iter().map(|(s, n)| json!([serde_json::from_str::<Value>(s).unwrap(), n])).collect::<Vec<_>>(), "queries": c.queries})
    } else {
        serde_json::to_value(c).unwrap()
    }
}
fn case_from_json(v: &Value) -> Option<Case> {
    let v = v.get("case").unwrap_or(v);
    if let Some(rle) = v.get("ops_rle").and_then(|x| x.as_array()) {
        let mut ops = vec![];
        for pair in rle {
            let op: Op = serde_json::from_value(pair[0].clone()).ok()?;
            for _ in 0..pair[1].as_u64()? {
                ops.push(op.clone());
            }
        }
        let queries: Vec<Q> = serde_json::from_value(v.get("queries")?.clone()).ok()?;
        return Some(Case { ops, queries, long: true });
    }
    serde_json::from_value(v.clone()).ok()
}

fn main() {
    let a = parse_args();
    let mut res = RunResult::new("C04", &a);
    res.rule = "case = (history of public-API appends / restarts with cache faults {Delete, TruncLines k, TruncMidLine, Garbage, Rollback k} on the 9 cache files, list of queries); every query runs twice on copies of the store (caches as found / continuity_streams removed) under a watchdog; non-trivial = at least one fault, or a thread longer than a tail window; distinct by hash of the canonical case".into();
    let mut cases: Vec<Case> = vec![];
    let mut stride_keys: Vec<u64> = vec![];
    if let Some(rp) = &a.replay {
        let v: Value = serde_json::from_slice(&std::fs::read(rp).expect("replay file")).expect("json");
        cases.push(case_from_json(&v).expect("replay case"));
    } else if a.extra.get("only").map(|s| s.as_str()) == Some("stride") {
        // development aid: the stride family alone
        let (sc, sk) = stride_cases(a.thorough(), a.seed);
        cases.extend(sc);
        stride_keys.extend(sk);
    } else {
        // corpus first
        let cdir = Path::new(env!("CARGO_MANIFEST_DIR")).join("..").join("corpus").join("C04");
        if let Ok(rd) = std::fs::read_dir(&cdir) {
            let mut files: Vec<PathBuf> = rd.filter_map(|e| e.ok().map(|e| e.path())).filter(|p| p.extension().map(|x| x == "json").unwrap_or(false)).collect();
            files.sort();
            for f in files {
                if let Some(c) = std::fs::read(&f).ok().and_then(|b| serde_json::from_slice::<Value>(&b).ok()).and_then(|v| case_from_json(&v)) {
                    cases.push(c);
                }
            }
        }
        cases.extend(corpus_cases());
        cases.extend(long_cases());
        let n = if a.thorough() { 1200 } else { 110 };
        let mut r = Rng::new(a.seed);
        cases.extend(anchor_sweep_cases(a.thorough()));
        cases.extend(dense_cases(a.thorough()));
        let (sc, sk) = stride_cases(a.thorough(), a.seed);
        cases.extend(sc);
        stride_keys.extend(sk);
        {
            let mut r2 = Rng::new(a.seed ^ 0x5eed_c044);
            cases.extend(lifecycle_cases(&mut r2, a.thorough()));
            cases.extend(rebuild_source_cases(&mut r2, a.thorough()));
        }
        for i in 0..n {
            cases.push(gen_case(&mut r, i));
        }
        if a.thorough() {
            // every single and double fault on a fixed rich history x every query
            let base = vec![
                Op::Msg { size: 5 }, Op::Cursor { key: 100 }, Op::Msg { size: 5 }, Op::RunSpawned { msg: 0 }, Op::RunEnded { msg: 0 }, Op::Selection, Op::Msg { size: 5 },
                Op::Checkpoint { msg: 1 }, Op::Msg { size: 5 }, Op::Schedule { stride: 2, max_new: 1, execute: true }, Op::Cursor { key: 200 }, Op::Selection,
            ];
            let kinds = [FaultKind::Delete, FaultKind::TruncLines(1), FaultKind::TruncLines(1000), FaultKind::TruncMidLine, FaultKind::Garbage, FaultKind::Rollback(4)];
            let mut singles = vec![];
            for t in TARGETS {
                for k in kinds {
                    singles.push(Op::Fault { target: t, kind: k });
                }
            }
            let tails: [Vec<Op>; 3] = [vec![], vec![Op::Msg { size: 5 }, Op::Checkpoint { msg: 3 }], vec![Op::Restart, Op::Cursor { key: 100 }]];
            for f in &singles {
                for tail in &tails {
                    let mut ops = base.clone();
                    ops.push(f.clone());
                    ops.extend(tail.clone());
                    cases.push(Case { ops, queries: gen_queries(&mut r, 4), long: false });
                }
            }
            for (i, f) in singles.iter().enumerate() {
                for (j, g) in singles.iter().enumerate() {
                    if (i * 31 + j) % 7 != (a.seed as usize) % 7 {
                        continue; // one seventh of the 54x54 pairs per seed
                    }
                    let mut ops = base.clone();
                    ops.push(f.clone());
                    ops.push(Op::Msg { size: 5 });
                    ops.push(g.clone());
                    ops.push(Op::Checkpoint { msg: 2 });
                    cases.push(Case { ops, queries: gen_queries(&mut r, 5), long: false });
                }
            }
        }
    }

    // corpus files may repeat built-in cases: run each distinct case once
    {
        let mut seen = std::collections::HashSet::new();
        cases.retain(|c| seen.insert(serde_json::to_string(&case_json(c)).unwrap()));
    }

    let k_term = "{| k_loops := gen_loops; k_max_keys := gen_cursor_max_keys; k_inflight_events := gen_inflight_events; k_inflight_bytes := gen_inflight_bytes; k_ckpt_events := gen_ckpt_events; k_ckpt_bytes := gen_ckpt_bytes |}";
    let mut w = CaseWriter::new(&a.out, "Model.TailLoop Model.Cache Gen.TailLoops", &format!("(check_case {k_term})"), &format!("(model_obs {k_term})"), 60);
    // compile through the caches as found vs. Model/CacheCompile.v (loader with its failure legs + Model/Compile.v's compiler),
    // with the acceptance count / limits / visibility rule read from the source (Gen/CompileConsts.v)
    let cc_fn = |f: &str| format!("({f} gen_tail_count gen_recent_limit gen_max_refs gen_ckpt_frame_rule)");
    let mut wc = CaseWriter::new(&a.out.join("cc"), "Model.Compile Model.CacheCompile Gen.CompileConsts", &cc_fn("cc_check_case"), &cc_fn("cc_model_obs"), 25).with_base(1_000_000);
    let (mut cc_long, mut cc_short) = (0usize, 0usize); // sweep threads / small histories: separate budgets
    let mut distinct = Distinct::default();
    let mut seen_classes: BTreeMap<String, u64> = BTreeMap::new();

    // default-thread recovery (the only claim about index.json): oracle + model terms riding on the first cases
    let mut recover_terms: Vec<String> = vec![];
    if a.replay.is_none() {
        recover_terms.push(default_recovery_check(&mut res, 0, -100_001));
        recover_terms.push(default_recovery_check(&mut res, 1, -100_002));
        recover_terms.push(default_recovery_check(&mut res, 2, -100_003));
        recover_terms.push(default_recovery_check(&mut res, 3, -100_004));
    }

    for (ci, case) in cases.iter().enumerate() {
        let t0 = std::time::Instant::now();
        let out = run_case(case);
        if std::env::var("RV_C04_TIMING").is_ok() {
            eprintln!("timing case {ci}: long={} ops={} queries={} frames={} ms={}", case.long, case.ops.len(), case.queries.len(), out.abs.truth.len(), t0.elapsed().as_millis());
        }
        res.evaluations += 1;
        if base_split(case).map(|(_, k)| stride_keys.contains(&k)).unwrap_or(false) {
            res.bump("stride_family:stores (one base thread per length, copied per knock-out)");
            res.bump_by("stride_family:queries", case.queries.len() as u64);
            res.bump_by("stride_family:compile_anchors", case.queries.iter().filter(|q| matches!(q, Q::Compile { .. })).count() as u64);
            res.bump(&format!("stride_family:frames={} (seek entries {})", out.abs.truth.len(), (out.abs.truth.len() as u64 + seek_stride() - 1) / seek_stride()));
        }
        res.bump_by("op_errors", out.op_errors);
        let nf = case.ops.iter().filter(|o| matches!(o, Op::Fault { .. } | Op::LoseDir)).count();
        res.bump(&format!("faults={}", nf.min(4)));
        res.bump(&format!("frames={}", match out.abs.truth.len() { 0..=5 => "1-5", 6..=15 => "6-15", 16..=40 => "16-40", 41..=9999 => "41-9999", _ => "10000+" }));
        res.bump(&format!("full={:?}", out.coh.full));
        if !out.coh.truth_valid {
            res.bump("truth_stream_invalid");
        }
        for op in &case.ops {
            if let Op::Fault { target, kind } = op {
                res.bump(&format!("fault:{:?}", target));
                res.bump(&format!("kind:{}", format!("{:?}", kind).split('(').next().unwrap()));
            }
            if matches!(op, Op::LoseDir) {
                res.bump("fault:LoseDir");
            }
        }
        if (nf > 0 || case.long) && distinct.add(&serde_json::to_string(&case_json(case)).unwrap()) {}
        if res.samples.len() < 2 && nf > 0 && !case.long && case.ops.len() < 12 {
            res.samples.push(case_json(case));
        }
        res.oracle_checks += out.writer_checks;
        res.bump_by("writer_conformance_checks", out.writer_checks);
        for (opi, t, what) in &out.writer_violations {
            let class = format!("cache_writer_nonconforming:{:?}", t);
            *seen_classes.entry(class.clone()).or_insert(0) += 1;
            res.oracle_violations.push(OracleViolation {
                case_id: -(ci as i64) - 1,
                what: format!("operation #{opi} ({:?}) moved a cache file outside the reference write semantics: {what}", case.ops[*opi]),
                class,
                replay: json!({"case": case_json(&Case { ops: case.ops[..=*opi].to_vec(), queries: vec![], long: false }), "check": "write conformance after the last operation"}),
            });
        }
        for (qi, t, what) in &out.read_writer_violations {
            let class = format!("cache_writer_nonconforming:{:?}", t);
            *seen_classes.entry(class.clone()).or_insert(0) += 1;
            res.oracle_violations.push(OracleViolation {
                case_id: -(ci as i64) - 1,
                what: format!("the read {:?} moved a cache file outside the reference write semantics: {what}", case.queries[*qi]),
                class,
                replay: json!({"case": case_json(&Case { ops: case.ops.clone(), queries: vec![case.queries[*qi].clone()], long: false }), "check": "write conformance after the read"}),
            });
        }
        for (qi, second) in out.again.iter().enumerate() {
            let (Some(second), Some((q, fast, truth))) = (second, out.results.get(qi)) else { continue };
            res.oracle_checks += 1;
            res.bump("second_ask_checks");
            // only when the first answer was right: a wrong first answer is reported (and classified) below
            if fast == truth && second != truth {
                let class = format!("answer_changes_after_read:{}", match q { Q::Replay => "replay", Q::CutPoints { .. } => "cut_points", Q::CompactionStatus { .. } => "compaction_status", Q::CursorStatus => "cursor_status", Q::Selection { .. } => "selection_status", Q::Compile { .. } => "compile", _ => "other" });
                *seen_classes.entry(class.clone()).or_insert(0) += 1;
                res.oracle_violations.push(OracleViolation {
                    case_id: -(ci as i64) - 1,
                    what: format!("{:?}: first answer = the truth answer, the same question asked again of the same store => {}   (truth {})", q, short(&second.json()), short(&truth.json())),
                    class,
                    replay: json!({"case": case_json(&Case { ops: case.ops.clone(), queries: vec![q.clone()], long: false }), "check": "ask twice"}),
                });
            }
        }
        let mut ord_term = Some(format!("[{}]", out.ord_steps.join("; ")));
        res.bump_by("ord_index_write_steps_in_model", out.ord_steps.len() as u64);
        res.bump_by("prov:resync_positions(first append after restart, full sidecar tail != log head)", out.prov.resync_at.len() as u64);
        res.bump_by("prov:resync_positions_where_files_stayed_off_projection", out.prov.resync_not_observed.len() as u64);
        if out.prov.tracked && !out.prov.live.is_empty() {
            res.bump("prov:cases_with_live_faults_at_query_time");
        }
        let nmsgs = out.messages.len() as u64;
        let counts_intact = out.coh.mr == FileState::Exact && out.coh.ord == FileState::Exact;
        for (q, fast, truth) in &out.results {
            res.oracle_checks += 1;
            let mut flagged_case_ids: Vec<usize> = vec![];
            // ---- model cases
            let fast_enc = enc_answer(&out.abs, q, fast);
            let truth_enc = enc_answer(&out.abs, q, truth);
            if !a.oracle_only() && !case.long && out.coh.truth_valid && out.abs.truth.len() <= 400 {
                let log_term = coq_list(&(0..out.abs.truth.len()).collect::<Vec<_>>(), |i| coq_frame(&out.abs, *i));
                let full_term = coq_opt(&out.full, |ls| coq_list(ls, |(g, x)| if *g { format!("G {x}") } else { format!("B {x}") }));
                for (j, (which, cmp_fast)) in coq_queries(q).iter().enumerate() {
                    // compaction_status: full-only model only when cut_points cannot have rebuilt the sidecar
                    let cmp = *cmp_fast
                        && match q {
                            // cut_points runs first and may rebuild every cache through replay_events; it cannot when the
                            // sidecar is exact anyway, or when it returns before any look-up (fewer messages than the stride)
                            Q::CompactionStatus { stride } => out.coh.full == FileState::Exact || (counts_intact && nmsgs < *stride),
                            _ => true,
                        };
                    let term = format!(
                        "{{| c_log := {}; c_full := {}; c_query := {}; c_cmp_fast := {}; c_truth := {}; c_fast := {}; c_ord := {}; c_comp := {}; c_recover := {}; c_ordidx := {} |}}",
                        log_term, full_term, coq_query_term(q, which, &out.abs, &out.messages), coq_bool(cmp), coq_list_n(&truth_enc[j]), coq_list_n(&fast_enc[j]),
                        ord_term.take().unwrap_or_else(|| "[]".into()), // the history's index write steps ride on its first case
                        // latest checkpoint through the .comp sidecar: compared when nothing can rebuild the caches before the
                        // look-up (full sidecar exact, message counts answered by intact derived caches)
                        if out.coh.full == FileState::Exact && ((*which == "latestckpt" && counts_intact) || (*which == "cutpoints" && out.coh.mr == FileState::Exact)) {
                            res.bump(&format!("{which}_cases_through_comp_model:comp={:?}", out.coh.comp));
                            format!("(Some {})", coq_opt(&out.comp, |ls| coq_list(ls, |(g, x)| if *g { format!("G {x}") } else { format!("B {x}") })))
                        } else {
                            "None".to_string()
                        },
                        recover_terms.pop().unwrap_or_else(|| "None".to_string()),
                        if *which == "cutpoints" && out.coh.full == FileState::Exact && out.coh.mr == FileState::Exact {
                            res.bump(&format!("cutpoints_cases_through_ord_model:ord={:?}{}", out.coh.ord, if out.coh.ord == FileState::WellFormedDiffers && out.coh.ord_tail_coherent { "(tail-coherent)" } else { "" }));
                            format!("(Some {})", out.ord_term)
                        } else {
                            "None".to_string()
                        }
                    );
                    let id = w.push(term);
                    flagged_case_ids.push(id);
                    if res.case_index.len() < 3000 {
                        res.case_index.insert(id.to_string(), json!({"case": case_json(case), "query": q, "part": which}));
                    }
                }
            }
            // ---- compile through the caches: the loader model.  Claimed for states where the full sidecar and the checkpoint
            // caches are what a rebuild writes (the model's checkpoint source is the projection, its seek window is absent)
            // and the mr sidecar is exact, absent, empty or damaged (unparsable lines) — not for K2m / K1 states
            let cc_room = if case.long { cc_long < if a.thorough() { 1500 } else { 300 } } else { cc_short < if a.thorough() { 3000 } else { 450 } };
            if let (Q::Compile { msg }, false, true, true) = (q, a.oracle_only(), out.coh.truth_valid, out.abs.truth.len() <= 200 && cc_room) {
                // the checkpoint sidecar and its index in ANY state (the model has their readers with every failure leg)
                let claimed = out.coh.full == FileState::Exact && matches!(out.coh.mr, FileState::Exact | FileState::Absent | FileState::Malformed | FileState::Empty);
                let anchor = if out.messages.is_empty() { None } else { Some(if *msg == u64::MAX { out.messages.last().unwrap().clone() } else { out.messages[(*msg as usize) % out.messages.len()].clone() }) };
                if let (true, Some(seq)) = (claimed, anchor.and_then(|m| out.abs.seq_of_event.get(&m).copied())) {
                    if let Some(term) = cc_case_term(&out, seq, fast) {
                        let id = wc.push(term);
                        if case.long { cc_long += 1 } else { cc_short += 1 }
                        flagged_case_ids.push(id);
                        res.bump(&format!("compile_cases_through_loader_model:mr={:?} comp={:?} comp.idx={:?}", out.coh.mr, out.coh.comp, out.coh.compidx));
                        if res.case_index.len() < 3000 {
                            res.case_index.insert(id.to_string(), json!({"case": case_json(&Case { ops: case.ops.clone(), queries: vec![q.clone()], long: case.long }), "query": q, "part": "compile loader"}));
                        }
                    }
                }
            }
            // ---- independent oracle: the call returned, and fast == truth
            let bad = match (fast, truth) {
                (Ans::Hang, _) | (Ans::Panic, _) | (_, Ans::Hang) | (_, Ans::Panic) => true,
                (Ans::Ok(f), Ans::Ok(t)) => f != t,
                (Ans::Err(f), Ans::Err(t)) => f != t,
                _ => true,
            };
            if bad {
                let which = if matches!(truth, Ans::Hang | Ans::Panic) && !matches!(fast, Ans::Hang | Ans::Panic) { truth } else { fast };
                let class = classify_violation(&out.coh, which, truth, q, &out.prov);
                *seen_classes.entry(class.clone()).or_insert(0) += 1;
                let what = format!(
                    "{:?}: caches as found => {}   caches removed => {}   [files: full={:?} mr={:?} comp={:?} comp.idx={:?} msgord={:?}; faults today's code has not reconciled: {:?}; re-sync positions {:?} (not observed at {:?})]",
                    q, short(&fast.json()), short(&truth.json()), out.coh.full, out.coh.mr, out.coh.comp, out.coh.compidx, out.coh.ord, out.prov.live, out.prov.resync_at, out.prov.resync_not_observed
                );
                // every model case of this query is flagged (so a model disagreement there is explained);
                // the shrunk replay is attached to the first witness of each class
                let first = seen_classes[&class] == 1;
                let ids: Vec<i64> = if flagged_case_ids.is_empty() { vec![-(ci as i64) - 1] } else { flagged_case_ids.iter().map(|x| *x as i64).collect() };
                for (n, id) in ids.iter().enumerate() {
                    res.oracle_violations.push(OracleViolation {
                        case_id: *id,
                        what: what.clone(),
                        class: class.clone(),
                        replay: if first && n == 0 { json!({"case": shrink_case(case, q, &class), "query": q}) } else { json!({"see": "first witness of this class"}) },
                    });
                }
            }
        }
    }
    // the seek index of every stride-family base store against the full sidecar it indexes (writer side of the stride)
    res.oracle_checks += stride_keys.len() as u64;
    res.bump_by("stride_family:seek_index_conformance_checks", stride_keys.len() as u64);
    for (ops, what) in STRIDE_INDEX_FINDINGS.lock().unwrap().iter() {
        let class = "cache_writer_nonconforming:Seek".to_string();
        *seen_classes.entry(class.clone()).or_insert(0) += 1;
        res.oracle_violations.push(OracleViolation {
            case_id: -200_000,
            what: format!("after the appends of the history, with no fault: {what}"),
            class,
            replay: json!({"case": case_json(&Case { ops: ops.clone(), queries: vec![], long: true }), "check": "seek index = one entry per stride frames at the frame's line start"}),
        });
    }
    w.flush();
    wc.flush();
    for (c, n) in &seen_classes {
        res.bump_by(&format!("violation:{c}"), *n);
    }
    res.distinct_nontrivial = distinct.count();
    res.case_files = w.files.iter().chain(wc.files.iter()).map(|p| p.display().to_string()).collect();
    res.write(&a.out);
    println!("c04: {} histories, {} query evaluations, {} oracle violations {:?}", res.evaluations, res.oracle_checks, res.oracle_violations.len(), seen_classes);
    // leaked watchdog threads must not keep the process alive
    base_cache_clear();
    std::process::exit(0);
}

fn short(v: &Value) -> String {
    let s = v.to_string();
    if s.len() > 300 { format!("{}…", &s[..300]) } else { s }
}

/// delta-debug the op list while the same query keeps the same violation class
fn shrink_case(case: &Case, q: &Q, class: &str) -> Value {
    if case.long || class.starts_with("hang") {
        return case_json(&Case { ops: case.ops.clone(), queries: vec![q.clone()], long: case.long });
    }
    let q2 = q.clone();
    let cls = class.to_string();
    let ops = shrink_vec(case.ops.clone(), |ops| {
        let c = Case { ops: ops.to_vec(), queries: vec![q2.clone()], long: false };
        let out = run_case(&c);
        out.results.iter().any(|(qq, f, t)| {
            let bad = match (f, t) {
                (Ans::Ok(x), Ans::Ok(y)) => x != y,
                (Ans::Err(x), Ans::Err(y)) => x != y,
                _ => true,
            };
            bad && classify_violation(&out.coh, f, t, qq, &out.prov) == cls
        })
    });
    case_json(&Case { ops, queries: vec![q.clone()], long: false })
}
